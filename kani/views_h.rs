// @file host=src/lib.rs mod=verif_views needs=contracts flags=-Z+function-contracts
//! Engine-K contracts for borrowed views and reinterpretation (C02), chunk regrouping (C10) and the const API (C18).
//! Attribute contracts (kani::requires / kani::ensures, injected above the inherent `const fn`s by
//! kani/injections.py, group `contracts`) are proved with `proof_for_contract`; trait-impl methods and `&mut`
//! forms (which Kani's contract attributes do not support) get the same contract as a Hoare-triple harness.
#![allow(unused_imports, unused_mut, unused_variables, static_mut_refs, dead_code, arithmetic_overflow, unconditional_panic, unused_comparisons)]

use super::*;
use crate::verif_support::*;
use core::borrow::{Borrow, BorrowMut};

fn addr<X: ?Sized>(p: *const X) -> usize {
    p as *const u8 as usize
}

// ---------------------------------------------------------------------------------------------------------------
// attribute contracts on the inherent const fns (shared-reference forms)
// ---------------------------------------------------------------------------------------------------------------

// @gen macro=pfc_as_slice name=c02_attr_as_slice props=C02,C18 quick=u8,U0,0;u32,U1,1;u32,U4,4;Pad,U3,3 thorough=u32,U7,7;W24,U5,5;u8,U16,16
macro_rules! pfc_as_slice {
    ($name:ident, $T:ty, $N:ty, $n:expr) => {
        #[kani::proof_for_contract(GenericArray::<$T, $N>::as_slice)]
        fn $name() {
            let a: GenericArray<$T, $N> = unsafe { core::mem::transmute::<[$T; $n], _>(any_arr::<$T, $n>()) };
            let _ = a.as_slice();
            kani::cover!(true, "end reachable");
        }
    };
}

// @gen macro=pfc_try_from_slice name=c02_attr_try_from_slice props=C02,C18 quick=u8,U0,0;u32,U1,1;u32,U4,4 thorough=u32,U7,7;Pad,U3,3;u8,U16,16
macro_rules! pfc_try_from_slice {
    ($name:ident, $T:ty, $N:ty, $n:expr) => {
        #[kani::proof_for_contract(GenericArray::<$T, $N>::try_from_slice)]
        fn $name() {
            let back: [$T; $n + 2] = any_arr::<$T, { $n + 2 }>();
            let (off, l): (usize, usize) = (kani::any(), kani::any());
            kani::assume(off <= $n + 2 && l <= $n + 2 - off);
            let _ = GenericArray::<$T, $N>::try_from_slice(&back[off..off + l]);
            kani::cover!(true, "end reachable");
        }
    };
}

// @gen macro=pfc_from_slice name=c02_attr_from_slice props=C02,C18 quick=u8,U0,0;u32,U1,1;u32,U4,4 thorough=u32,U7,7;Pad,U3,3;u8,U16,16
macro_rules! pfc_from_slice {
    ($name:ident, $T:ty, $N:ty, $n:expr) => {
        #[kani::proof_for_contract(GenericArray::<$T, $N>::from_slice)]
        fn $name() {
            let back: [$T; $n + 2] = any_arr::<$T, { $n + 2 }>();
            let (off, l): (usize, usize) = (kani::any(), kani::any());
            kani::assume(off <= $n + 2 && l <= $n + 2 - off);
            let _ = GenericArray::<$T, $N>::from_slice(&back[off..off + l]);
            kani::cover!(true, "end reachable");
        }
    };
}

// @gen macro=pfc_chunks name=c10_attr_chunks props=C10,C18 quick=u8,U0,3;u8,U1,7;u8,U3,15;u32,U2,11;(),U3,15 thorough=u8,U7,31;u8,U8,35;u32,U4,19;Pad,U3,15;u8,U16,67
macro_rules! pfc_chunks {
    ($name:ident, $T:ty, $N:ty, $cap:expr) => {
        #[kani::proof_for_contract(GenericArray::<$T, $N>::chunks_from_slice)]
        fn $name() {
            let back: [$T; $cap] = any_arr::<$T, $cap>();
            let l: usize = kani::any();
            kani::assume(l <= $cap);
            let _ = GenericArray::<$T, $N>::chunks_from_slice(&back[..l]);
            kani::cover!(true, "end reachable");
        }
    };
}

// @gen macro=pfc_unchunks name=c10_attr_slice_from_chunks props=C10,C18 quick=u8,U0,0;u8,U1,1;u8,U3,3;u32,U2,2 thorough=u8,U7,7;Pad,U3,3;u8,U16,16
macro_rules! pfc_unchunks {
    ($name:ident, $T:ty, $N:ty, $n:expr) => {
        #[kani::proof_for_contract(GenericArray::<$T, $N>::slice_from_chunks)]
        fn $name() {
            let back: [GenericArray<$T, $N>; 4] = unsafe { core::mem::transmute::<[[$T; $n]; 4], _>(any_arr::<[$T; $n], 4>()) };
            let c: usize = kani::any();
            kani::assume(c <= 4);
            let _ = GenericArray::<$T, $N>::slice_from_chunks(&back[..c]);
            kani::cover!(true, "end reachable");
        }
    };
}

pub(crate) fn any_arr<T: kani::Arbitrary, const K: usize>() -> [T; K] {
    kani::any::<[T; K]>()
}


// ---------------------------------------------------------------------------------------------------------------
// C02: every borrowed view starts at the array's address, has N elements in index order, writes are shared
// ---------------------------------------------------------------------------------------------------------------

// @gen macro=views_shared name=c02_views props=C02 quick=u32,U0,0;u32,U1,1;u32,U4,4;(),U3,3 thorough=u8,U12,12;Pad,U5,5;W24,U3,3;u32,U8,8
macro_rules! views_shared {
    ($name:ident, $T:ty, $N:ty, $n:expr) => {
        #[kani::proof]
        #[kani::unwind(20)]
        fn $name() {
            let zs = core::mem::size_of::<[$T; $n]>() == 0; // addresses of zero-sized places are not modelled by CBMC
            let snap: [$T; $n] = any_arr::<$T, $n>();
            let a: GenericArray<$T, $N> = GenericArray::from_array(snap);
            let base = addr(&a as *const _);
            let sz = core::mem::size_of::<$T>();
            let k: usize = kani::any();
            let views: [&[$T]; 5] = [a.as_slice(), &*a, AsRef::<[$T]>::as_ref(&a), Borrow::<[$T]>::borrow(&a), &AsRef::<[$T; $n]>::as_ref(&a)[..]];
            let w: usize = kani::any();
            kani::assume(w < 5);
            let v = views[w];
            kani::assert(zs || (addr(v.as_ptr()) == base), "C02.views: every shared view starts at the array's address");
            kani::assert(v.len() == $n, "C02.views: every shared view has exactly N elements");
            if k < $n {
                kani::assert(v[k] == snap[k], "C02.views: element k of the view is element k of the array");
                kani::assert(zs || (addr(&v[k] as *const $T) == base + k * sz), "C02.views: element k lives at offset k*size_of<T>");
            }
            // by-reference iteration
            let mut it = (&a).into_iter();
            kani::assert(it.len() == $n, "C02.iter: by-reference iteration yields N items");
            if k < $n {
                let r = it.nth(k).unwrap();
                kani::assert(zs || (addr(r as *const $T) == base + k * sz && *r == snap[k]), "C02.iter: k-th item is a reference to element k");
            }
            let ar: &[$T; $n] = a.as_ref();
            kani::assert(zs || (addr(ar as *const _) == base), "C02.views: AsRef<[T; N]> aliases the array");
            kani::cover!(true, "end reachable");
        }
    };
}

// @gen macro=views_mut name=c02_views_mut props=C02 quick=u32,U1,1;u32,U4,4 thorough=u8,U12,12;Pad,U5,5;u32,U8,8
macro_rules! views_mut {
    ($name:ident, $T:ty, $N:ty, $n:expr) => {
        #[kani::proof]
        #[kani::unwind(20)]
        fn $name() {
            let zs = core::mem::size_of::<[$T; $n]>() == 0;
            let snap: [$T; $n] = any_arr::<$T, $n>();
            let mut a: GenericArray<$T, $N> = GenericArray::from_array(snap);
            let base = addr(&a as *const _);
            let k: usize = kani::any();
            kani::assume(k < $n);
            let val: $T = kani::any();
            let w: u8 = kani::any();
            kani::assume(w < 6);
            // write through one mutable view ...
            {
                let v: &mut [$T] = match w {
                    0 => a.as_mut_slice(),
                    1 => &mut *a,
                    2 => AsMut::<[$T]>::as_mut(&mut a),
                    3 => BorrowMut::<[$T]>::borrow_mut(&mut a),
                    4 => &mut AsMut::<[$T; $n]>::as_mut(&mut a)[..],
                    _ => {
                        let it = (&mut a).into_iter();
                        kani::assert(it.len() == $n, "C02.iter_mut: by-reference mutable iteration yields N items");
                        it.into_slice()
                    }
                };
                kani::assert(zs || (addr(v.as_ptr()) == base && v.len() == $n), "C02.views_mut: every mutable view starts at the array's address with N elements");
                v[k] = val;
            }
            // ... and read it through all the others
            kani::assert(a.as_slice()[k] == val, "C02.views_mut: write seen through as_slice");
            kani::assert(a[k] == val, "C02.views_mut: write seen through Deref/Index");
            kani::assert(AsRef::<[$T; $n]>::as_ref(&a)[k] == val, "C02.views_mut: write seen through AsRef<[T; N]>");
            kani::assert(*(&a).into_iter().nth(k).unwrap() == val, "C02.views_mut: write seen by iteration");
            let j: usize = kani::any();
            if j < $n && j != k {
                kani::assert(a[j] == snap[j], "C02.views_mut: no other element changes");
            }
            kani::cover!(true, "end reachable");
        }
    };
}

// @gen macro=reinterp name=c02_reinterp props=C02 quick=u32,U0,0;u32,U1,1;u32,U4,4;(),U2,2 thorough=u8,U12,12;Pad,U5,5;u32,U8,8
macro_rules! reinterp {
    ($name:ident, $T:ty, $N:ty, $n:expr) => {
        #[kani::proof]
        #[kani::unwind(20)]
        fn $name() {
            let zs = core::mem::size_of::<$T>() == 0;
            let mut back: [$T; $n + 2] = any_arr::<$T, { $n + 2 }>();
            let (off, l): (usize, usize) = (kani::any(), kani::any());
            kani::assume(off <= $n + 2 && l <= $n + 2 - off);
            let want = addr(back.as_ptr()) + off * core::mem::size_of::<$T>();
            let w: u8 = kani::any();
            kani::assume(w < 4);
            match w {
                0 => match GenericArray::<$T, $N>::try_from_slice(&back[off..off + l]) {
                    Ok(a) => kani::assert(zs || (l == $n && addr(a as *const _) == want), "C02.try_from_slice: Ok only for exact length, aliasing the source"),
                    Err(_) => kani::assert(l != $n, "C02.try_from_slice: LengthError only when the length differs"),
                },
                1 => match <&GenericArray<$T, $N>>::try_from(&back[off..off + l]) {
                    Ok(a) => kani::assert(zs || (l == $n && addr(a as *const _) == want), "C02.TryFrom<&[T]>: Ok only for exact length, aliasing the source"),
                    Err(_) => kani::assert(l != $n, "C02.TryFrom<&[T]>: LengthError only when the length differs"),
                },
                2 => match GenericArray::<$T, $N>::try_from_mut_slice(&mut back[off..off + l]) {
                    Ok(a) => kani::assert(zs || (l == $n && addr(a as *const _) == want), "C02.try_from_mut_slice: Ok only for exact length, aliasing the source"),
                    Err(_) => kani::assert(l != $n, "C02.try_from_mut_slice: LengthError only when the length differs"),
                },
                _ => match <&mut GenericArray<$T, $N>>::try_from(&mut back[off..off + l]) {
                    Ok(a) => kani::assert(zs || (l == $n && addr(a as *const _) == want), "C02.TryFrom<&mut [T]>: Ok only for exact length, aliasing the source"),
                    Err(_) => kani::assert(l != $n, "C02.TryFrom<&mut [T]>: LengthError only when the length differs"),
                },
            }
            kani::cover!(true, "end reachable");
        }
    };
}

// from_slice / from_mut_slice with exact length: no panic, aliases the source, element order, write-through
// @gen macro=reinterp_exact name=c02_from_slice_exact props=C02 quick=u32,U0,0;u32,U1,1;u32,U4,4;(),U2,2 thorough=u8,U12,12;Pad,U5,5;u32,U8,8
macro_rules! reinterp_exact {
    ($name:ident, $T:ty, $N:ty, $n:expr) => {
        #[kani::proof]
        #[kani::unwind(20)]
        fn $name() {
            let zs = core::mem::size_of::<[$T; $n]>() == 0;
            let mut back: [$T; $n + 2] = any_arr::<$T, { $n + 2 }>();
            let snap = back;
            let off: usize = kani::any();
            kani::assume(off <= 2);
            let want = addr(back.as_ptr()) + off * core::mem::size_of::<$T>();
            let k: usize = kani::any();
            {
                let a = GenericArray::<$T, $N>::from_slice(&back[off..off + $n]);
                kani::assert(zs || (addr(a as *const _) == want), "C02.from_slice: result aliases the source slice");
                if k < $n {
                    kani::assert(a[k] == snap[off + k], "C02.from_slice: element order preserved");
                }
            }
            let val: $T = kani::any();
            {
                let m = GenericArray::<$T, $N>::from_mut_slice(&mut back[off..off + $n]);
                kani::assert(zs || (addr(m as *const _) == want), "C02.from_mut_slice: result aliases the source slice");
                if k < $n {
                    m[k] = val;
                }
            }
            if k < $n {
                kani::assert(back[off + k] == val, "C02.from_mut_slice: write through the reinterpreted reference reaches the source");
            }
            // native array references
            let mut arr: [$T; $n] = any_arr::<$T, $n>();
            let abase = addr(&arr as *const _);
            let g: &GenericArray<$T, $N> = (&arr).into();
            kani::assert(zs || (addr(g as *const _) == abase && g.len() == $n), "C02.From<&[T; N]>: aliases the native array");
            let gm: &mut GenericArray<$T, $N> = (&mut arr).into();
            kani::assert(zs || (addr(gm as *const _) == abase && gm.len() == $n), "C02.From<&mut [T; N]>: aliases the native array");
            kani::cover!(true, "end reachable");
        }
    };
}

// from_slice / from_mut_slice panic on EVERY length other than N
// @gen macro=reinterp_panics name=c02_from_slice_panics props=C02 expect=panic quick=u32,U0,0;u32,U1,1;u32,U4,4;(),U0,0;(),U2,2 thorough=u8,U12,12;u32,U8,8;(),U5,5;Pad,U3,3
macro_rules! reinterp_panics {
    ($name:ident, $T:ty, $N:ty, $n:expr) => {
        #[kani::proof]
        #[kani::should_panic]
        #[kani::unwind(20)]
        fn $name() {
            let mut back: [$T; $n + 2] = any_arr::<$T, { $n + 2 }>();
            let (off, l): (usize, usize) = (kani::any(), kani::any());
            kani::assume(off <= $n + 2 && l <= $n + 2 - off && l != $n);
            if kani::any() {
                let _ = GenericArray::<$T, $N>::from_slice(&back[off..off + l]);
            } else {
                let _ = GenericArray::<$T, $N>::from_mut_slice(&mut back[off..off + l]);
            }
            kani::cover!(true, "returned without panicking");
        }
    };
}

// by-value conversions keep every element at its position; nothing dropped, nothing duplicated
// @gen macro=by_value name=c02_by_value props=C02,C03 quick=U0,0;U1,1;U4,4 thorough=U8,8;U12,12
macro_rules! by_value {
    ($name:ident, $N:ty, $n:expr) => {
        #[kani::proof]
        #[kani::unwind(20)]
        fn $name() {
            let snap: [u32; $n] = kani::any();
            let k: usize = kani::any();
            let a: GenericArray<u32, $N> = GenericArray::from_array(snap);
            let b: GenericArray<u32, $N> = snap.into();
            let back: [u32; $n] = a.into_array();
            let back2: [u32; $n] = b.into();
            if k < $n {
                kani::assert(a[k] == snap[k] && b[k] == snap[k], "C02.from_array: element k keeps its position");
                kani::assert(back[k] == snap[k] && back2[k] == snap[k], "C02.into_array: element k keeps its position");
            }
            // drop-tracked
            let d: GenericArray<D, $N> = GenericArray::from_array(core::array::from_fn::<D, $n, _>(|i| mk(i)));
            kani::assert(unsafe { DROPS } == 0 && all_live(0, $n), "C03.from_array: moves, drops nothing");
            if k < $n {
                kani::assert(d[k].0 == k, "C02.from_array(D): element k keeps its position");
            }
            let n: [D; $n] = d.into();
            kani::assert(unsafe { DROPS } == 0 && all_live(0, $n), "C03.into_array: moves, drops nothing");
            if k < $n {
                kani::assert(n[k].0 == k, "C02.into_array(D): element k keeps its position");
            }
            drop(n);
            kani::assert(unsafe { DROPS } == $n && all_dead(0, $n), "C03.into_array: the native array then drops each element once");
            kani::cover!(true, "end reachable");
        }
    };
}

// ---------------------------------------------------------------------------------------------------------------
// C10: mutable chunk forms and the [T; N] <-> GenericArray<T, N> slice reinterpretations (Hoare triples)
// ---------------------------------------------------------------------------------------------------------------

// @gen macro=chunks_mut name=c10_chunks_mut props=C10,C18 quick=u8,U1,1,7;u8,U3,3,15;u32,U2,2,11;(),U3,3,15 thorough=u8,U7,7,31;u8,U8,8,35;Pad,U3,3,15;u8,U16,16,67
macro_rules! chunks_mut {
    ($name:ident, $T:ty, $N:ty, $n:expr, $cap:expr) => {
        #[kani::proof]
        #[kani::unwind(70)]
        fn $name() {
            let zs = core::mem::size_of::<$T>() == 0;
            let mut back: [$T; $cap] = any_arr::<$T, $cap>();
            let snap = back;
            let l: usize = kani::any();
            kani::assume(l <= $cap);
            let sz = core::mem::size_of::<$T>();
            let base = addr(back.as_ptr());
            let (i, j): (usize, usize) = (kani::any(), kani::any());
            let val: $T = kani::any();
            {
                let (c, r) = GenericArray::<$T, $N>::chunks_from_slice_mut(&mut back[..l]);
                kani::assert(c.len() == l / $n, "C10.chunks_mut: floor(L/N) whole chunks");
                kani::assert(r.len() == l % $n, "C10.chunks_mut: remainder has L mod N elements");
                kani::assert(zs || c.len() == 0 || (addr(c.as_ptr()) == base), "C10.chunks_mut: chunks (if any) start at the source's address");
                kani::assert(zs || r.len() == 0 || (addr(r.as_ptr()) == base + (l / $n) * $n * sz), "C10.chunks_mut: remainder (if any) is adjacent to the chunks and ends at the source's end");
                if i < c.len() && j < $n {
                    kani::assert(c[i][j] == snap[i * $n + j], "C10.chunks_mut: chunk i element j is source element i*N+j");
                    c[i][j] = val;
                }
                if i < r.len() {
                    kani::assert(r[i] == snap[(l / $n) * $n + i], "C10.chunks_mut: remainder element i is source element floor(L/N)*N+i");
                }
            }
            if i < l / $n && j < $n {
                kani::assert(back[i * $n + j] == val, "C10.chunks_mut: write through a chunk reaches the source (same memory)");
            }
            // inverse
            {
                let (c, _r) = GenericArray::<$T, $N>::chunks_from_slice_mut(&mut back[..l]);
                let cl = c.len();
                let flat = GenericArray::<$T, $N>::slice_from_chunks_mut(c);
                kani::assert(flat.len() == cl * $n && (zs || cl == 0 || addr(flat.as_ptr()) == base), "C10.slice_from_chunks_mut: inverse of chunks_from_slice_mut");
            }
            kani::cover!(true, "end reachable");
        }
    };
}

// N = 0: empty slice gives two empty results, a non-empty one panics
// @harness name=c10_chunks_n0_empty props=C10 tier=quick scope=instantiation(u8,U0)
#[kani::proof]
fn c10_chunks_n0_empty() {
    let mut back: [u8; 3] = kani::any();
    let (c, r) = GenericArray::<u8, U0>::chunks_from_slice(&back[..0]);
    kani::assert(c.is_empty() && r.is_empty(), "C10.chunks(N=0): empty slice gives two empty results");
    let (c, r) = GenericArray::<u8, U0>::chunks_from_slice_mut(&mut back[..0]);
    kani::assert(c.is_empty() && r.is_empty(), "C10.chunks_mut(N=0): empty slice gives two empty results");
    kani::cover!(true, "end reachable");
}

// @harness name=c10_chunks_n0_panics props=C10 tier=quick expect=panic scope=instantiation(u8,U0)
#[kani::proof]
#[kani::should_panic]
fn c10_chunks_n0_panics() {
    let mut back: [u8; 3] = kani::any();
    let l: usize = kani::any();
    kani::assume(1 <= l && l <= 3);
    if kani::any() {
        let _ = GenericArray::<u8, U0>::chunks_from_slice(&back[..l]);
    } else {
        let _ = GenericArray::<u8, U0>::chunks_from_slice_mut(&mut back[..l]);
    }
    kani::cover!(true, "returned without panicking");
}

// @gen macro=native_chunks name=c10_native_chunks props=C10,C18 quick=u8,U0,0;u8,U3,3;u32,U2,2;(),U3,3 thorough=u8,U7,7;Pad,U3,3;u8,U16,16
macro_rules! native_chunks {
    ($name:ident, $T:ty, $N:ty, $n:expr) => {
        #[kani::proof]
        #[kani::unwind(20)]
        fn $name() {
            let zs = core::mem::size_of::<[$T; $n]>() == 0;
            let mut native: [[$T; $n]; 4] = any_arr::<[$T; $n], 4>();
            let snap = native;
            let c: usize = kani::any();
            kani::assume(c <= 4);
            let base = addr(native.as_ptr());
            let (i, j): (usize, usize) = (kani::any(), kani::any());
            {
                let g: &[GenericArray<$T, $N>] = GenericArray::<$T, $N>::from_chunks(&native[..c]);
                kani::assert(g.len() == c && (zs || addr(g.as_ptr()) == base), "C10.from_chunks: same address and count");
                if i < c && j < $n {
                    kani::assert(g[i][j] == snap[i][j], "C10.from_chunks: element (i,j) unchanged");
                }
                let back: &[[$T; $n]] = GenericArray::<$T, $N>::into_chunks(g);
                kani::assert(back.len() == c && (zs || addr(back.as_ptr()) == base), "C10.into_chunks: same address and count");
            }
            let val: $T = kani::any();
            {
                let g: &mut [GenericArray<$T, $N>] = GenericArray::<$T, $N>::from_chunks_mut(&mut native[..c]);
                kani::assert(g.len() == c && (zs || addr(g.as_ptr()) == base), "C10.from_chunks_mut: same address and count");
                if i < c && j < $n {
                    g[i][j] = val;
                }
                let back: &mut [[$T; $n]] = GenericArray::<$T, $N>::into_chunks_mut(g);
                kani::assert(back.len() == c && (zs || addr(back.as_ptr()) == base), "C10.into_chunks_mut: same address and count");
            }
            if i < c && j < $n {
                kani::assert(native[i][j] == val, "C10.from_chunks_mut: write reaches the native arrays (same memory)");
            }
            kani::cover!(true, "end reachable");
        }
    };
}

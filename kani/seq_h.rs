// @file host=src/sequence.rs mod=verif_seq
//! Engine-K contracts for the sequence operations (C09), flatten/unflatten (C11) and their ownership accounting (C03).
//! The oracle is the index formula that DEFINES the corresponding Vec operation (push, insert(0), pop, remove(0),
//! split_at, extend, remove(i), swap_remove(i)); the thorough tier additionally runs the real Vec (alloc_h.rs).
#![allow(unused_imports, unused_mut, unused_variables, static_mut_refs, dead_code, arithmetic_overflow, unconditional_panic, unused_comparisons)]

use super::*;
use crate::verif_support::*;

fn addr<X: ?Sized>(p: *const X) -> usize {
    p as *const u8 as usize
}

fn arr_d<N: ArrayLength, const K: usize>(base: usize) -> GenericArray<D, N>
where
    Const<K>: IntoArrayLength<ArrayLength = N>,
{
    GenericArray::from_array(core::array::from_fn::<D, K, _>(|i| mk(base + i)))
}


// ---------------------------------------------------------------------------------------------------------------
// append / prepend  (N -> N+1)
// ---------------------------------------------------------------------------------------------------------------
// @gen macro=lengthen_v name=c09_lengthen props=C09 quick=u8,U0,0,U1,1;u8,U1,1,U2,2;u32,U4,4,U5,5;(),U2,2,U3,3;W24,U3,3,U4,4 thorough=u8,U7,7,U8,8;u8,U8,8,U9,9;Pad,U3,3,U4,4;u32,U2,2,U3,3
macro_rules! lengthen_v {
    ($name:ident, $T:ty, $N:ty, $n:expr, $N1:ty, $n1:expr) => {
        #[kani::proof]
        #[kani::unwind(12)]
        fn $name() {
            let snap: [$T; $n] = kani::any();
            let x: $T = kani::any();
            let i: usize = kani::any();
            let a: GenericArray<$T, $N> = GenericArray::from_array(snap);
            let l: GenericArray<$T, $N1> = a.append(x);
            kani::assert(l[$n] == x, "C09.append: the new element is last (Vec::push)");
            if i < $n {
                kani::assert(l[i] == snap[i], "C09.append: existing elements keep their positions");
            }
            let a: GenericArray<$T, $N> = GenericArray::from_array(snap);
            let p: GenericArray<$T, $N1> = a.prepend(x);
            kani::assert(p[0] == x, "C09.prepend: the new element is first (Vec::insert(0))");
            if i < $n {
                kani::assert(p[i + 1] == snap[i], "C09.prepend: existing elements shift up by one");
            }
            // inverse operations on the results
            let (init, last) = l.pop_back();
            kani::assert(last == x, "C09.pop_back: returns the last element (Vec::pop)");
            if i < $n {
                kani::assert(init[i] == snap[i], "C09.pop_back: the rest keeps its order");
            }
            let (head, tail) = p.pop_front();
            kani::assert(head == x, "C09.pop_front: returns the first element (Vec::remove(0))");
            if i < $n {
                kani::assert(tail[i] == snap[i], "C09.pop_front: the rest shifts down by one");
            }
            kani::cover!(true, "end reachable");
        }
    };
}

// @gen macro=lengthen_d name=c09_lengthen_d props=C03,C09 quick=U0,0,U1,1;U3,3,U4,4 thorough=U1,1,U2,2;U7,7,U8,8
macro_rules! lengthen_d {
    ($name:ident, $N:ty, $n:expr, $N1:ty, $n1:expr) => {
        #[kani::proof]
        #[kani::unwind(12)]
        fn $name() {
            let i: usize = kani::any();
            let front: bool = kani::any();
            let a: GenericArray<D, $N> = arr_d::<$N, $n>(0);
            let l: GenericArray<D, $N1> = if front { a.prepend(mk(20)) } else { a.append(mk(20)) };
            kani::assert(unsafe { DROPS } == 0 && all_live(0, $n) && live(20), "C03.append/prepend: moves every element, drops none");
            if i < $n {
                kani::assert(l[if front { i + 1 } else { i }].0 == i, "C09.append/prepend(D): elements in order");
            }
            kani::assert(l[if front { 0 } else { $n }].0 == 20, "C09.append/prepend(D): new element at its end");
            if front {
                let (h, t) = l.pop_front();
                kani::assert(h.0 == 20 && unsafe { DROPS } == 0, "C03.pop_front: hands the head back live");
                drop(t);
                kani::assert(unsafe { DROPS } == $n && live(20), "C03.pop_front: the tail owns exactly the other N elements");
                drop(h);
            } else {
                let (t, h) = l.pop_back();
                kani::assert(h.0 == 20 && unsafe { DROPS } == 0, "C03.pop_back: hands the last element back live");
                drop(t);
                kani::assert(unsafe { DROPS } == $n && live(20), "C03.pop_back: the init part owns exactly the other N elements");
                drop(h);
            }
            kani::assert(none_live() && unsafe { DROPS } == $n + 1, "C03.lengthen/shorten: in the end every element dropped exactly once");
            kani::cover!(true, "end reachable");
        }
    };
}

// ---------------------------------------------------------------------------------------------------------------
// split at K / concat
// ---------------------------------------------------------------------------------------------------------------
// @gen macro=split_v name=c09_split props=C09 quick=u8,U0,0,U0,0,U0,0;u8,U1,1,U0,0,U1,1;u8,U1,1,U1,1,U0,0;u32,U4,4,U2,2,U2,2;u32,U4,4,U4,4,U0,0;u8,U5,5,U1,1,U4,4;(),U3,3,U1,1,U2,2;W24,U3,3,U2,2,U1,1;Pad,U4,4,U3,3,U1,1 thorough=u8,U8,8,U3,3,U5,5;u8,U8,8,U0,0,U8,8;W24,U4,4,U1,1,U3,3;u8,U7,7,U6,6,U1,1;u8,U6,6,U3,3,U3,3
macro_rules! split_v {
    ($name:ident, $T:ty, $N:ty, $n:expr, $K:ty, $k:expr, $R:ty, $r:expr) => {
        #[kani::proof]
        #[kani::unwind(12)]
        fn $name() {
            let zs = core::mem::size_of::<$T>() == 0 || $n == 0;
            let snap: [$T; $n] = kani::any();
            let i: usize = kani::any();
            let sz = core::mem::size_of::<$T>();
            // owned
            let a: GenericArray<$T, $N> = GenericArray::from_array(snap);
            let (f, s): (GenericArray<$T, $K>, GenericArray<$T, $R>) = Split::<$T, $K>::split(a);
            if i < $k {
                kani::assert(f[i] == snap[i], "C09.split: first part is elements [0, K) (split_at)");
            }
            if i < $r {
                kani::assert(s[i] == snap[$k + i], "C09.split: second part is elements [K, N) (split_at)");
            }
            // concat is the inverse (Vec::extend)
            let back: GenericArray<$T, $N> = Concat::<$T, $R>::concat(f, s);
            if i < $n {
                kani::assert(back[i] == snap[i], "C09.concat: first operand then second operand, in order (extend)");
            }
            // by shared reference: the two sub-ranges of the original storage
            let mut a: GenericArray<$T, $N> = GenericArray::from_array(snap);
            let base = addr(&a as *const _);
            {
                let (f, s): (&GenericArray<$T, $K>, &GenericArray<$T, $R>) = Split::<$T, $K>::split(&a);
                kani::assert(zs || addr(f as *const _) == base, "C09.split(&): first half starts at the array's address");
                kani::assert(zs || addr(s as *const _) == base + $k * sz, "C09.split(&): second half is adjacent, at element K");
                kani::assert(f.len() == $k && s.len() == $r && $k + $r == $n, "C09.split(&): the halves are disjoint and cover the array");
                if i < $k {
                    kani::assert(f[i] == snap[i], "C09.split(&): first half shows elements [0, K)");
                }
                if i < $r {
                    kani::assert(s[i] == snap[$k + i], "C09.split(&): second half shows elements [K, N)");
                }
            }
            // by mutable reference: writes reach the original
            let v: $T = kani::any();
            {
                let (f, s): (&mut GenericArray<$T, $K>, &mut GenericArray<$T, $R>) = Split::<$T, $K>::split(&mut a);
                kani::assert(zs || (addr(f as *const _) == base && addr(s as *const _) == base + $k * sz), "C09.split(&mut): halves alias the original storage");
                if i < $k {
                    f[i] = v;
                } else if i < $n {
                    s[i - $k] = v;
                }
            }
            if i < $n {
                kani::assert(a[i] == v, "C09.split(&mut): a write through either half is seen in the original (no copy)");
            }
            kani::cover!(true, "end reachable");
        }
    };
}

// @gen macro=split_d name=c09_split_d props=C03,C09 quick=U0,0,U0,0,U0,0;U4,4,U1,1,U3,3;U3,3,U3,3,U0,0 thorough=U8,8,U3,3,U5,5;U5,5,U0,0,U5,5
macro_rules! split_d {
    ($name:ident, $N:ty, $n:expr, $K:ty, $k:expr, $R:ty, $r:expr) => {
        #[kani::proof]
        #[kani::unwind(12)]
        fn $name() {
            let i: usize = kani::any();
            let a: GenericArray<D, $N> = arr_d::<$N, $n>(0);
            let (f, s): (GenericArray<D, $K>, GenericArray<D, $R>) = Split::<D, $K>::split(a);
            kani::assert(unsafe { DROPS } == 0 && all_live(0, $n), "C03.split: moves every element, drops none");
            if i < $k {
                kani::assert(f[i].0 == i, "C09.split(D): first part in order");
            }
            if i < $r {
                kani::assert(s[i].0 == $k + i, "C09.split(D): second part in order");
            }
            let which: bool = kani::any();
            if which {
                drop(f);
                kani::assert(unsafe { DROPS } == $k && all_dead(0, $k) && all_live($k, $n), "C03.split: the first part owns exactly elements [0, K)");
                drop(s);
            } else {
                // chained: outputs of one operation are inputs of the next
                let c: GenericArray<D, $N> = Concat::<D, $R>::concat(f, s);
                kani::assert(unsafe { DROPS } == 0 && all_live(0, $n), "C03.concat: moves every element, drops none");
                if i < $n {
                    kani::assert(c[i].0 == i, "C09.concat(D): all elements in order");
                }
                drop(c);
            }
            kani::assert(none_live() && unsafe { DROPS } == $n, "C03.split/concat: in the end every element dropped exactly once");
            kani::cover!(true, "end reachable");
        }
    };
}

// @gen macro=concat_v name=c09_concat props=C09 quick=u8,U0,0,U0,0,U0,0;u8,U0,0,U2,2,U2,2;u8,U2,2,U0,0,U2,2;u32,U2,2,U3,3,U5,5;(),U1,1,U2,2,U3,3 thorough=u8,U4,4,U4,4,U8,8;u8,U1,1,U7,7,U8,8;W24,U2,2,U1,1,U3,3;u8,U5,5,U3,3,U8,8
macro_rules! concat_v {
    ($name:ident, $T:ty, $N:ty, $n:expr, $M:ty, $m:expr, $S:ty, $s:expr) => {
        #[kani::proof]
        #[kani::unwind(12)]
        fn $name() {
            let sa: [$T; $n] = kani::any();
            let sb: [$T; $m] = kani::any();
            let i: usize = kani::any();
            let a: GenericArray<$T, $N> = GenericArray::from_array(sa);
            let b: GenericArray<$T, $M> = GenericArray::from_array(sb);
            let c: GenericArray<$T, $S> = Concat::<$T, $M>::concat(a, b);
            if i < $n {
                kani::assert(c[i] == sa[i], "C09.concat: elements of self first, in order");
            }
            if i < $m {
                kani::assert(c[$n + i] == sb[i], "C09.concat: then the elements of rest, in order");
            }
            kani::cover!(true, "end reachable");
        }
    };
}

// @gen macro=concat_d name=c09_concat_d props=C03,C09 quick=U0,0,U2,2,U2,2;U2,2,U0,0,U2,2;U2,2,U3,3,U5,5 thorough=U0,0,U0,0,U0,0;U4,4,U4,4,U8,8;U1,1,U1,1,U2,2
macro_rules! concat_d {
    ($name:ident, $N:ty, $n:expr, $M:ty, $m:expr, $S:ty, $s:expr) => {
        #[kani::proof]
        #[kani::unwind(12)]
        fn $name() {
            let i: usize = kani::any();
            let a: GenericArray<D, $N> = arr_d::<$N, $n>(0);
            let b: GenericArray<D, $M> = arr_d::<$M, $m>(8);
            let c: GenericArray<D, $S> = Concat::<D, $M>::concat(a, b);
            kani::assert(unsafe { DROPS } == 0 && all_live(0, $n) && all_live(8, 8 + $m), "C03.concat: moves every element of both operands, drops none");
            if i < $n {
                kani::assert(c[i].0 == i, "C09.concat(D): self first");
            }
            if i < $m {
                kani::assert(c[$n + i].0 == 8 + i, "C09.concat(D): then rest");
            }
            drop(c);
            kani::assert(none_live() && unsafe { DROPS } == $n + $m, "C03.concat: the output owns every element exactly once");
            kani::cover!(true, "end reachable");
        }
    };
}

// ---------------------------------------------------------------------------------------------------------------
// remove / swap_remove
// ---------------------------------------------------------------------------------------------------------------
// @gen macro=remove_v name=c09_remove props=C09 quick=u8,U1,1,U0,0;u8,U2,2,U1,1;u32,U4,4,U3,3;(),U3,3,U2,2;W24,U3,3,U2,2 thorough=u8,U8,8,U7,7;u8,U5,5,U4,4;Pad,U4,4,U3,3;u8,U3,3,U2,2
macro_rules! remove_v {
    ($name:ident, $T:ty, $N:ty, $n:expr, $R:ty, $r:expr) => {
        #[kani::proof]
        #[kani::unwind(12)]
        fn $name() {
            let snap: [$T; $n] = kani::any();
            let idx: usize = kani::any();
            kani::assume(idx < $n);
            let j: usize = kani::any();
            let a: GenericArray<$T, $N> = GenericArray::from_array(snap);
            if kani::any() {
                let (x, out): ($T, GenericArray<$T, $R>) = a.remove(idx);
                kani::assert(x == snap[idx], "C09.remove: returns element idx (Vec::remove)");
                if j < $r {
                    kani::assert(out[j] == snap[if j < idx { j } else { j + 1 }], "C09.remove: later elements shift down by one, earlier ones stay");
                }
            } else {
                let (x, out): ($T, GenericArray<$T, $R>) = a.swap_remove(idx);
                kani::assert(x == snap[idx], "C09.swap_remove: returns element idx (Vec::swap_remove)");
                if j < $r {
                    kani::assert(out[j] == snap[if j == idx { $n - 1 } else { j }], "C09.swap_remove: the last element takes the hole, all others stay");
                }
            }
            kani::cover!(true, "end reachable");
        }
    };
}

// remove / swap_remove panic for EVERY index >= N (the whole usize range, usize::MAX included)
// @gen macro=remove_panics name=c09_remove_panics props=C09 expect=panic quick=u8,U1,1;u32,U4,4 thorough=u8,U8,8;W24,U3,3;u8,U2,2
macro_rules! remove_panics {
    ($name:ident, $T:ty, $N:ty, $n:expr) => {
        #[kani::proof]
        #[kani::should_panic]
        #[kani::unwind(12)]
        fn $name() {
            let snap: [$T; $n] = kani::any();
            let idx: usize = kani::any();
            kani::assume(idx >= $n);
            let a: GenericArray<$T, $N> = GenericArray::from_array(snap);
            if kani::any() {
                let r = a.remove(idx);
                core::mem::forget(r);
            } else {
                let r = a.swap_remove(idx);
                core::mem::forget(r);
            }
            kani::cover!(true, "returned without panicking");
        }
    };
}

// @gen macro=remove_d name=c09_remove_d props=C03,C09 quick=U1,1,U0,0;U4,4,U3,3 thorough=U2,2,U1,1;U8,8,U7,7
macro_rules! remove_d {
    ($name:ident, $N:ty, $n:expr, $R:ty, $r:expr) => {
        #[kani::proof]
        #[kani::unwind(12)]
        fn $name() {
            let idx: usize = kani::any();
            kani::assume(idx < $n);
            let j: usize = kani::any();
            let a: GenericArray<D, $N> = arr_d::<$N, $n>(0);
            let swap: bool = kani::any();
            let (x, out): (D, GenericArray<D, $R>) = if swap { a.swap_remove(idx) } else { a.remove(idx) };
            kani::assert(unsafe { DROPS } == 0 && all_live(0, $n), "C03.remove: moves every element, drops none");
            kani::assert(x.0 == idx, "C09.remove(D): returns element idx");
            if j < $r {
                let want = if swap { if j == idx { $n - 1 } else { j } } else { if j < idx { j } else { j + 1 } };
                kani::assert(out[j].0 == want, "C09.remove(D): output order as Vec::remove / Vec::swap_remove");
            }
            drop(out);
            kani::assert(unsafe { DROPS } == $n - 1 && live(idx), "C03.remove: the output owns every element but the removed one; the removed one is handed back live");
            drop(x);
            kani::assert(none_live(), "C03.remove: in the end every element dropped exactly once");
            kani::cover!(true, "end reachable");
        }
    };
}

// ---------------------------------------------------------------------------------------------------------------
// C11: flatten / unflatten  (M arrays of N elements  <->  N*M elements, row-major, same storage)
// ---------------------------------------------------------------------------------------------------------------
// @gen macro=flat_v name=c11_flatten props=C11 quick=u8,U3,3,U0,0,U0,0;u8,U1,1,U1,1,U1,1;u32,U2,2,U3,3,U6,6;u8,U3,3,U2,2,U6,6;(),U2,2,U2,2,U4,4 thorough=u8,U4,4,U4,4,U16,16;u8,U1,1,U16,16,U16,16;u8,U16,16,U1,1,U16,16;Pad,U2,2,U3,3,U6,6;W24,U2,2,U2,2,U4,4;u8,U6,6,U6,6,U36,36;u8,U5,5,U3,3,U15,15
macro_rules! flat_v {
    ($name:ident, $T:ty, $N:ty, $n:expr, $M:ty, $m:expr, $P:ty, $p:expr) => {
        #[kani::proof]
        #[kani::unwind(40)]
        fn $name() {
            let zs = core::mem::size_of::<[[$T; $n]; $m]>() == 0;
            let snap: [[$T; $n]; $m] = kani::any();
            let (i, j): (usize, usize) = (kani::any(), kani::any());
            let nested = || -> GenericArray<GenericArray<$T, $N>, $M> { GenericArray::from_array(snap.map(GenericArray::from_array)) };
            // owned
            let flat: GenericArray<$T, $P> = nested().flatten();
            if i < $m && j < $n {
                kani::assert(flat[i * $n + j] == snap[i][j], "C11.flatten: element i*N+j is element j of inner array i");
            }
            let un: GenericArray<GenericArray<$T, $N>, $M> = Unflatten::<$T, $P, $N>::unflatten(flat);
            if i < $m && j < $n {
                kani::assert(un[i][j] == snap[i][j], "C11.unflatten: exact inverse of flatten");
            }
            // by shared reference: a view of the same memory
            let mut a = nested();
            let base = addr(&a as *const _);
            {
                let f: &GenericArray<$T, $P> = (&a).flatten();
                kani::assert(zs || addr(f as *const _) == base, "C11.flatten(&): same address");
                kani::assert(core::mem::size_of_val(f) == core::mem::size_of_val(&a) && f.len() == $n * $m, "C11.flatten(&): same total extent, N*M elements");
                if i < $m && j < $n {
                    kani::assert(f[i * $n + j] == snap[i][j], "C11.flatten(&): row-major view");
                }
                let u: &GenericArray<GenericArray<$T, $N>, $M> = Unflatten::<$T, $P, $N>::unflatten(f);
                kani::assert(zs || addr(u as *const _) == base, "C11.unflatten(&): same address");
                kani::assert(core::mem::size_of_val(u) == core::mem::size_of_val(&a), "C11.unflatten(&): same total extent");
            }
            // by mutable reference: writes through the regrouped view appear in the original
            let v: $T = kani::any();
            {
                let f: &mut GenericArray<$T, $P> = (&mut a).flatten();
                kani::assert(zs || addr(f as *const _) == base, "C11.flatten(&mut): same address");
                kani::assert(f.len() == $n * $m, "C11.flatten(&mut): N*M elements");
                if i < $m && j < $n {
                    f[i * $n + j] = v;
                }
            }
            if i < $m && j < $n {
                kani::assert(a[i][j] == v, "C11.flatten(&mut): write through the flat view appears in the nested original");
            }
            let w: $T = kani::any();
            let mut flat2: GenericArray<$T, $P> = nested().flatten();
            let fbase = addr(&flat2 as *const _);
            {
                let u: &mut GenericArray<GenericArray<$T, $N>, $M> = Unflatten::<$T, $P, $N>::unflatten(&mut flat2);
                kani::assert(zs || addr(u as *const _) == fbase, "C11.unflatten(&mut): same address");
                kani::assert(u.len() == $m, "C11.unflatten(&mut): M rows");
                if i < $m && j < $n {
                    u[i][j] = w;
                }
            }
            if i < $m && j < $n {
                kani::assert(flat2[i * $n + j] == w, "C11.unflatten(&mut): write through the nested view appears in the flat original");
            }
            kani::cover!(true, "end reachable");
        }
    };
}

// @gen macro=flat_d name=c11_flatten_d props=C03,C11 quick=U2,2,U0,0,U0,0;U2,2,U3,3,U6,6;U1,1,U1,1,U1,1 thorough=U3,3,U2,2,U6,6;U4,4,U2,2,U8,8
macro_rules! flat_d {
    ($name:ident, $N:ty, $n:expr, $M:ty, $m:expr, $P:ty, $p:expr) => {
        #[kani::proof]
        #[kani::unwind(12)]
        fn $name() {
            let (i, j): (usize, usize) = (kani::any(), kani::any());
            let nested: GenericArray<GenericArray<D, $N>, $M> =
                GenericArray::from_array(core::array::from_fn::<GenericArray<D, $N>, $m, _>(|r| arr_d::<$N, $n>(r * $n)));
            let flat: GenericArray<D, $P> = nested.flatten();
            kani::assert(unsafe { DROPS } == 0 && all_live(0, $n * $m), "C03.flatten: moves every element, drops none");
            if i < $m && j < $n {
                kani::assert(flat[i * $n + j].0 == i * $n + j, "C11.flatten(D): row-major order");
            }
            if kani::any() {
                drop(flat);
            } else {
                let un: GenericArray<GenericArray<D, $N>, $M> = Unflatten::<D, $P, $N>::unflatten(flat);
                kani::assert(unsafe { DROPS } == 0 && all_live(0, $n * $m), "C03.unflatten: moves every element, drops none");
                if i < $m && j < $n {
                    kani::assert(un[i][j].0 == i * $n + j, "C11.unflatten(D): exact inverse");
                }
                drop(un);
            }
            kani::assert(none_live() && unsafe { DROPS } == $n * $m, "C03.flatten/unflatten: in the end every element dropped exactly once");
            kani::cover!(true, "end reachable");
        }
    };
}

// inner length N = 0: flatten exists (Prod<U0, M> = U0), unflatten does not (no type-level quotient by zero)
// @gen macro=flat_n0 name=c11_flatten_n0 props=C11 quick=U0,0;U3,3
macro_rules! flat_n0 {
    ($name:ident, $M:ty, $m:expr) => {
        #[kani::proof]
        #[kani::unwind(12)]
        fn $name() {
            let mut a: GenericArray<GenericArray<u8, U0>, $M> = GenericArray::from_array([GenericArray::from_array([0u8; 0]); $m]);
            let f: GenericArray<u8, U0> = a.flatten();
            kani::assert(f.len() == 0, "C11.flatten(N=0): flattening M empty arrays gives the empty array");
            let r: &GenericArray<u8, U0> = (&a).flatten();
            kani::assert(r.len() == 0, "C11.flatten(&, N=0): empty view");
            let r: &mut GenericArray<u8, U0> = (&mut a).flatten();
            kani::assert(r.len() == 0, "C11.flatten(&mut, N=0): empty view");
            kani::cover!(true, "end reachable");
        }
    };
}

// zero-sized elements WITH drop glue: sizes are all 0, so nothing but the ledger can tell a duplicate or a loss
// @gen macro=seq_zst name=c09_seq_zst props=C03,C09 quick=U2,2,U3,3,U5,5;U0,0,U2,2,U2,2;U2,2,U0,0,U2,2 thorough=U1,1,U1,1,U2,2;U4,4,U4,4,U8,8
macro_rules! seq_zst {
    ($name:ident, $N:ty, $n:expr, $M:ty, $m:expr, $S:ty, $s:expr) => {
        #[kani::proof]
        #[kani::unwind(12)]
        fn $name() {
            let a: GenericArray<Dz, $N> = GenericArray::from_array(core::array::from_fn::<Dz, $n, _>(|_| mkz()));
            let b: GenericArray<Dz, $M> = GenericArray::from_array(core::array::from_fn::<Dz, $m, _>(|_| mkz()));
            let c: GenericArray<Dz, $S> = Concat::<Dz, $M>::concat(a, b);
            kani::assert(unsafe { DROPS_Z } == 0 && unsafe { LIVE_Z } == $n + $m, "C03.concat(ZST with drop glue): moves every element of both operands, drops none");
            let (f, s): (GenericArray<Dz, $N>, GenericArray<Dz, $M>) = Split::<Dz, $N>::split(c);
            kani::assert(unsafe { DROPS_Z } == 0 && f.len() == $n && s.len() == $m, "C03.split(ZST with drop glue): moves every element, drops none");
            drop(f);
            kani::assert(unsafe { DROPS_Z } == $n, "C03.split(ZST): the first part owns exactly N elements");
            drop(s);
            kani::assert(unsafe { LIVE_Z } == 0 && unsafe { DROPS_Z } == $n + $m, "C03.concat/split(ZST): in the end every element dropped exactly once");
            kani::cover!(true, "end reachable");
        }
    };
}

// @file host=src/impl_alloc.rs mod=verif_alloc features=alloc needs=mon flags=-Z+stubbing+--cbmc-args+--memory-leak-check
//! Engine-K contracts for the heap interop (C15), the allocator discipline (C16) and the boxed forms of C03/C04/C07/C08.
//! The allocator is a contracted dependency: Kani's model of `__rust_alloc` asserts size > 0, `__rust_dealloc`
//! asserts the size equals the block's size and catches double free / free of a non-heap object; CBMC's
//! memory-leak check (enabled for every harness in this file) asserts that no block is still allocated at the end.
#![allow(unused_imports, unused_mut, unused_variables, static_mut_refs, dead_code, arithmetic_overflow, unconditional_panic, unused_comparisons)]

use super::*;
use crate::verif_support::*;
use crate::functional::FunctionalSequence;
use alloc::{boxed::Box, vec::Vec};
use typenum::Const;
use crate::IntoArrayLength;

fn addr<X: ?Sized>(p: *const X) -> usize {
    p as *const u8 as usize
}

/// a Vec of drop-tracked elements with ids 0..len and the given capacity
fn vec_d(len: usize, cap: usize) -> Vec<D> {
    let mut v = Vec::with_capacity(cap);
    let mut k = 0;
    while k < len {
        v.push(mk(k));
        k += 1;
    }
    v
}

// ---------------------------------------------------------------------------------------------------------------
// C15: Vec / Box<[T]>  ->  GenericArray / Box<GenericArray>: Ok exactly for length N, contents in order, the
// source's elements dropped once on LengthError, same heap block for the O(1) conversions
// ---------------------------------------------------------------------------------------------------------------
// @gen macro=from_heap name=c15_from_heap props=C03,C15,C16 quick=U0,0,0,0,0;U0,0,0,0,1;U0,0,0,1,0;U0,0,2,0,0;U0,0,2,0,1;U0,0,2,1,0;U0,0,3,0,0;U0,0,3,1,0;U2,2,0,0,0;U2,2,0,1,0;U2,2,0,2,0;U2,2,0,2,1;U2,2,0,3,0;U2,2,1,0,0;U2,2,1,1,0;U2,2,1,2,0;U2,2,1,3,0;U2,2,2,0,0;U2,2,2,1,0;U2,2,2,2,0;U2,2,2,2,1;U2,2,2,3,0;U2,2,3,0,0;U2,2,3,1,0;U2,2,3,2,0;U2,2,3,3,0 thorough=U1,1,0,0,0;U1,1,0,1,0;U1,1,0,2,0;U1,1,2,0,0;U1,1,2,1,0;U1,1,2,2,0;U1,1,3,0,0;U1,1,3,1,0;U1,1,3,2,0;U3,3,0,0,0;U3,3,0,2,0;U3,3,0,3,0;U3,3,0,4,0;U3,3,2,0,0;U3,3,2,2,0;U3,3,2,3,0;U3,3,2,4,0;U3,3,3,0,0;U3,3,3,2,0;U3,3,3,3,0;U3,3,3,4,0
macro_rules! from_heap {
    ($name:ident, $N:ty, $n:expr, $which:expr, $len:expr, $spare:expr) => {
        #[kani::proof]
        #[kani::unwind(10)]
        fn $name() {
            let len: usize = $len;
            let spare: bool = $spare == 1;
            let v = vec_d(len, if spare { len + 2 } else { len });
            let data = addr(v.as_ptr());
            let i: usize = kani::any();
            match $which {
                0 => match GenericArray::<D, $N>::try_from(v) {
                    Ok(a) => {
                        kani::assert(len == $n, "C15.TryFrom<Vec>: Ok only when the length is exactly N");
                        kani::assert(unsafe { DROPS } == 0, "C03.TryFrom<Vec>: moves the elements, drops none");
                        if i < $n {
                            kani::assert(a[i].0 == i, "C15.TryFrom<Vec>: every element in order");
                        }
                        drop(a);
                    }
                    Err(_) => kani::assert(len != $n, "C15.TryFrom<Vec>: LengthError only when the length differs"),
                },
                1 => match GenericArray::<D, $N>::try_from(v.into_boxed_slice()) {
                    Ok(a) => {
                        kani::assert(len == $n, "C15.TryFrom<Box<[T]>>: Ok only when the length is exactly N");
                        if i < $n {
                            kani::assert(a[i].0 == i, "C15.TryFrom<Box<[T]>>: every element in order");
                        }
                        drop(a);
                    }
                    Err(_) => kani::assert(len != $n, "C15.TryFrom<Box<[T]>>: LengthError only when the length differs"),
                },
                2 => match GenericArray::<D, $N>::try_from_vec(v) {
                    Ok(b) => {
                        kani::assert(len == $n, "C15.try_from_vec: Ok only when the length is exactly N");
                        kani::assert(unsafe { DROPS } == 0, "C03.try_from_vec: moves the elements, drops none");
                        kani::assert(spare || $n == 0 || addr(&*b as *const _) == data, "C15.try_from_vec: with length == capacity the same heap block is handed over");
                        if i < $n {
                            kani::assert(b[i].0 == i, "C15.try_from_vec: every element in order");
                        }
                        drop(b);
                    }
                    Err(_) => kani::assert(len != $n, "C15.try_from_vec: LengthError only when the length differs"),
                },
                _ => {
                    let bs = v.into_boxed_slice();
                    let data = addr(bs.as_ptr());
                    match GenericArray::<D, $N>::try_from_boxed_slice(bs) {
                        Ok(b) => {
                            kani::assert(len == $n, "C15.try_from_boxed_slice: Ok only when the length is exactly N");
                            kani::assert(unsafe { DROPS } == 0, "C03.try_from_boxed_slice: moves the elements, drops none");
                            kani::assert($n == 0 || addr(&*b as *const _) == data, "C15.try_from_boxed_slice: the same heap block is handed over");
                            if i < $n {
                                kani::assert(b[i].0 == i, "C15.try_from_boxed_slice: every element in order");
                            }
                            drop(b);
                        }
                        Err(_) => kani::assert(len != $n, "C15.try_from_boxed_slice: LengthError only when the length differs"),
                    }
                }
            }
            kani::assert(unsafe { DROPS } == len && all_dead(0, $n + 2), "C15: in the end (Ok or LengthError) every source element has been dropped exactly once");
            kani::cover!(true, "end reachable");
        }
    };
}

// GenericArray / Box<GenericArray>  ->  Vec / Box<[T]> / iterator
// @gen macro=to_heap name=c15_to_heap props=C03,C15,C16 quick=U0,0;U1,1;U3,3 thorough=U2,2;U4,4
macro_rules! to_heap {
    ($name:ident, $N:ty, $n:expr) => {
        #[kani::proof]
        #[kani::unwind(10)]
        fn $name() {
            let i: usize = kani::any();
            let which: u8 = kani::any();
            kani::assume(which < 5);
            let a: GenericArray<D, $N> = GenericArray::from_array(core::array::from_fn::<D, $n, _>(|k| mk(k)));
            match which {
                0 => {
                    let b = Box::new(a);
                    let data = addr(&*b as *const _);
                    let s: Box<[D]> = b.into_boxed_slice();
                    kani::assert(s.len() == $n && ($n == 0 || addr(s.as_ptr()) == data), "C15.into_boxed_slice: N elements in the same heap block");
                    if i < $n {
                        kani::assert(s[i].0 == i, "C15.into_boxed_slice: every element in order");
                    }
                    kani::assert(unsafe { DROPS } == 0, "C03.into_boxed_slice: moves, drops nothing");
                    drop(s);
                }
                1 => {
                    let b = Box::new(a);
                    let data = addr(&*b as *const _);
                    let v: Vec<D> = b.into_vec();
                    kani::assert(v.len() == $n && ($n == 0 || addr(v.as_ptr()) == data), "C15.into_vec: N elements in the same heap block");
                    if i < $n {
                        kani::assert(v[i].0 == i, "C15.into_vec: every element in order");
                    }
                    kani::assert(unsafe { DROPS } == 0, "C03.into_vec: moves, drops nothing");
                    drop(v);
                }
                2 => {
                    let v: Vec<D> = a.into();
                    kani::assert(v.len() == $n && unsafe { DROPS } == 0, "C15.From<GenericArray> for Vec: N elements, none dropped");
                    if i < $n {
                        kani::assert(v[i].0 == i, "C15.From<GenericArray> for Vec: every element in order");
                    }
                    drop(v);
                }
                3 => {
                    let s: Box<[D]> = a.into();
                    kani::assert(s.len() == $n && unsafe { DROPS } == 0, "C15.From<GenericArray> for Box<[T]>: N elements, none dropped");
                    if i < $n {
                        kani::assert(s[i].0 == i, "C15.From<GenericArray> for Box<[T]>: every element in order");
                    }
                    drop(s);
                }
                _ => {
                    let b = Box::new(a);
                    let mut it = b.into_iter();
                    kani::assert(it.len() == $n, "C15.Box<GenericArray>::into_iter: yields N items");
                    if i < $n {
                        let x = it.nth(i).unwrap();
                        kani::assert(x.0 == i && live(i), "C15.Box<GenericArray>::into_iter: i-th item is element i, live");
                        kani::assert(unsafe { DROPS } == i, "C03.Box<GenericArray>::into_iter: skipping drops exactly the skipped");
                    }
                    drop(it);
                }
            }
            kani::assert(unsafe { DROPS } == $n && all_dead(0, $n), "C15/C03: in the end every element has been dropped exactly once");
            kani::cover!(true, "end reachable");
        }
    };
}

// zero-sized elements: lengths still matter, no block is ever requested
// @gen macro=heap_zst name=c15_heap_zst props=C08,C15,C16 quick=U0,0;U3,3 thorough=U1,1
macro_rules! heap_zst {
    ($name:ident, $N:ty, $n:expr) => {
        #[kani::proof]
        #[kani::unwind(10)]
        fn $name() {
            let len: usize = kani::any();
            kani::assume(len <= $n + 1);
            let mut v: Vec<Dz> = Vec::new();
            let mut k = 0;
            while k < len {
                v.push(mkz());
                k += 1;
            }
            if kani::any() {
                let r = GenericArray::<Dz, $N>::try_from_vec(v);
                kani::assert(r.is_ok() == (len == $n), "C15.try_from_vec(ZST): Ok exactly for length N");
                drop(r);
            } else {
                let r = GenericArray::<Dz, $N>::try_from(v);
                kani::assert(r.is_ok() == (len == $n), "C15.TryFrom<Vec>(ZST): Ok exactly for length N");
                drop(r);
            }
            kani::assert(unsafe { LIVE_Z } == 0 && unsafe { DROPS_Z } == len, "C15(ZST): every element dropped exactly once");
            let g = Box::<GenericArray<Dz, $N>>::generate(|_| mkz());
            kani::assert(unsafe { LIVE_Z } == $n, "C08.Box::generate(ZST): the generator runs N times");
            drop(g.into_vec());
            kani::assert(unsafe { LIVE_Z } == 0, "C03(ZST): boxed array -> Vec -> drop releases every element once");
            kani::cover!(true, "end reachable");
        }
    };
}

// ---------------------------------------------------------------------------------------------------------------
// boxed constructors: Box::generate (C08 order, C04 monitor, C16 allocator contract), default_boxed, boxed zip/map
// ---------------------------------------------------------------------------------------------------------------
// @gen macro=boxed_generate name=c16_boxed_generate props=C03,C04,C08,C15,C16 quick=U0,0;U1,1;U3,3 thorough=U2,2;U5,5
macro_rules! boxed_generate {
    ($name:ident, $N:ty, $n:expr) => {
        #[kani::proof]
        #[kani::unwind(10)]
        fn $name() {
            reset_monitor();
            let mut calls = 0usize;
            let b: Box<GenericArray<D, $N>> = Box::<GenericArray<D, $N>>::generate(|i| {
                kani::assert(i == calls, "C08.Box::generate: called with 0, 1, .., N-1 in ascending order");
                kani::assert(n_builders() == 1 && !builder_finished(0) && builder_pos(0) == i, "C04.Box::generate unwind@closure: the builder guards exactly the i results already stored");
                calls += 1;
                mk(i)
            });
            kani::assert(calls == $n, "C08.Box::generate: calls the function exactly N times");
            let i: usize = kani::any();
            if i < $n {
                kani::assert(b[i].0 == i, "C08.Box::generate: result i is stored at index i");
            }
            kani::assert(unsafe { DROPS } == 0, "C03.Box::generate: drops nothing");
            drop(b);
            kani::assert(unsafe { DROPS } == $n && all_dead(0, $n), "C03.Box::generate: the box then drops each element once");
            // default_boxed is the element-wise instance; plain elements with a non-zero size
            let z: Box<GenericArray<u32, $N>> = GenericArray::<u32, $N>::default_boxed();
            if i < $n {
                kani::assert(z[i] == 0, "C15.default_boxed: every element is T::default()");
            }
            drop(z);
            kani::cover!(true, "end reachable");
        }
    };
}

// @gen macro=boxed_func name=c08_boxed_func props=C03,C04,C08,C16 quick=U0,0;U3,3 thorough=U1,1;U4,4
macro_rules! boxed_func {
    ($name:ident, $N:ty, $n:expr) => {
        #[kani::proof]
        #[kani::unwind(20)]
        fn $name() {
            let a: Box<GenericArray<D, $N>> = Box::<GenericArray<D, $N>>::generate(|i| mk(i));
            let b: Box<GenericArray<D, $N>> = Box::<GenericArray<D, $N>>::generate(|i| mk(8 + i));
            reset_monitor();
            let mut calls = 0usize;
            let i: usize = kani::any();
            if kani::any() {
                let out: Box<GenericArray<D, $N>> = a.zip(b, |x, y| {
                    kani::assert(x.0 == calls && y.0 == 8 + calls && live(x.0) && live(y.0), "C08.zip(Box, Box): k-th call receives (a[k], b[k]), ascending, both live");
                    calls += 1;
                    let id = x.0;
                    drop(x);
                    drop(y);
                    mk(32 + id)
                });
                kani::assert(calls == $n, "C08.zip(Box, Box): calls the function once per index");
                if i < $n {
                    kani::assert(out[i].0 == 32 + i, "C08.zip(Box, Box): result i at index i");
                }
                kani::assert(all_dead(0, 16), "C03.zip(Box, Box): both operands fully consumed, each element once");
                drop(out);
            } else if kani::any() {
                drop(b);
                let r = a.fold(0usize, |acc, x| {
                    kani::assert(acc == calls && x.0 == calls && live(x.0), "C08.fold(Box): left fold in index order, each element live when handed out");
                    calls += 1;
                    drop(x);
                    acc + 1
                });
                kani::assert(r == $n && calls == $n, "C08.fold(Box): one call per index, returns the last accumulator");
            } else {
                drop(b);
                let out: Box<GenericArray<D, $N>> = a.map(|x| {
                    kani::assert(x.0 == calls && live(x.0), "C08.map(Box): k-th call receives element k, live");
                    calls += 1;
                    let id = x.0;
                    drop(x);
                    mk(32 + id)
                });
                kani::assert(calls == $n, "C08.map(Box): calls the function once per index");
                if i < $n {
                    kani::assert(out[i].0 == 32 + i, "C08.map(Box): result i at index i");
                }
                drop(out);
            }
            kani::assert(none_live(), "C03(Box): in the end every element is dead, none twice");
            kani::cover!(true, "end reachable");
        }
    };
}

// ---------------------------------------------------------------------------------------------------------------
// C07 boxed: try_boxed_from_iter / FromIterator for Box<GenericArray> against the scripted source
// ---------------------------------------------------------------------------------------------------------------
pub struct Src<const K: usize> {
    pub script: [bool; K],
    pub pos: usize,
    pub polls: usize,
    pub yielded: usize,
    pub ended: bool,
    pub polled_after_none: bool,
    pub lo: usize,
    pub hi: Option<usize>,
}
impl<const K: usize> Src<K> {
    pub fn any() -> Self {
        Src { script: kani::any(), pos: 0, polls: 0, yielded: 0, ended: false, polled_after_none: false, lo: kani::any(), hi: kani::any() }
    }
    pub fn leading(&self) -> usize {
        let mut n = 0;
        while n < K && self.script[n] {
            n += 1;
        }
        n
    }
}
impl<const K: usize> Iterator for Src<K> {
    type Item = D;
    fn next(&mut self) -> Option<D> {
        if self.ended {
            self.polled_after_none = true;
        }
        self.polls += 1;
        let y = self.pos < K && self.script[self.pos];
        self.pos += 1;
        if y {
            let d = mk(self.yielded);
            self.yielded += 1;
            Some(d)
        } else {
            self.ended = true;
            None
        }
    }
    fn size_hint(&self) -> (usize, Option<usize>) {
        (self.lo, self.hi)
    }
}

// @gen macro=boxed_tfi name=c07_try_boxed_from_iter props=C03,C07,C15,C16 quick=U0,0,3;U2,2,5 thorough=U1,1,4;U3,3,6
macro_rules! boxed_tfi {
    ($name:ident, $N:ty, $n:expr, $k:expr) => {
        #[kani::proof]
        #[kani::unwind(10)]
        fn $name() {
            let mut src = Src::<$k>::any();
            let leading = src.leading();
            let ends_after_n = leading == $n;
            let hint_rules_out = src.lo > $n || matches!(src.hi, Some(h) if h < $n);
            let truthful = src.lo <= leading && !matches!(src.hi, Some(h) if h < leading);
            let r = GenericArray::<D, $N>::try_boxed_from_iter(&mut src);
            kani::assert(src.polls <= $n + 1, "C07.try_boxed_from_iter: pulls at most N + 1 items");
            kani::assert(!src.polled_after_none, "C07.try_boxed_from_iter: never polls the source again after it returned None");
            match r {
                Ok(a) => {
                    kani::assert(ends_after_n && !hint_rules_out, "C07.try_boxed_from_iter: Ok only if the source produced exactly N items before ending (and the hint did not rule N out)");
                    let i: usize = kani::any();
                    if i < $n {
                        kani::assert(a[i].0 == i, "C07.try_boxed_from_iter: element i is the i-th item produced");
                    }
                    kani::assert(unsafe { DROPS } == 0, "C03.try_boxed_from_iter: on Ok nothing was dropped");
                    drop(a);
                }
                Err(_) => {
                    kani::assert(!ends_after_n || hint_rules_out, "C07.try_boxed_from_iter: LengthError only for a wrong count or a size hint that rules N out");
                    kani::assert(!(truthful && ends_after_n), "C07.try_boxed_from_iter: a truthful source with exactly N items is accepted");
                }
            }
            kani::assert(unsafe { DROPS } == src.yielded && all_dead(0, $k), "C07.try_boxed_from_iter: every item pulled is dropped exactly once");
            kani::cover!(true, "end reachable");
        }
    };
}

// zero-sized items: Vec::with_capacity(N) has capacity usize::MAX, so nothing but the explicit bound limits the pulls
// @gen macro=boxed_tfi_zst name=c07_try_boxed_from_iter_zst props=C07,C15 quick=U0,0;U2,2 thorough=U1,1;U3,3
macro_rules! boxed_tfi_zst {
    ($name:ident, $N:ty, $n:expr) => {
        #[kani::proof]
        #[kani::unwind(10)]
        fn $name() {
            let avail: usize = kani::any();
            kani::assume(avail <= $n + 3);
            let mut polls = 0usize;
            let mut after_none = false;
            let mut ended = false;
            let mut left = avail;
            let src = core::iter::from_fn(|| {
                if ended { after_none = true; }
                polls += 1;
                if left == 0 { ended = true; None } else { left -= 1; Some(mkz()) }
            });
            let r = GenericArray::<Dz, $N>::try_boxed_from_iter(src);
            kani::assert(r.is_ok() == (avail == $n), "C07.try_boxed_from_iter(ZST): Ok exactly for N items");
            drop(r);
            kani::assert(polls <= $n + 1, "C07.try_boxed_from_iter(ZST): pulls at most N + 1 items");
            kani::assert(!after_none, "C07.try_boxed_from_iter(ZST): never polls the source again after None");
            kani::assert(unsafe { LIVE_Z } == 0, "C07.try_boxed_from_iter(ZST): every item pulled is dropped exactly once");
            kani::cover!(true, "end reachable");
        }
    };
}

// @gen macro=boxed_collect_panics name=c07_boxed_collect_panics props=C07 expect=panic quick=U2,2,5 thorough=U0,0,3;U1,1,4
macro_rules! boxed_collect_panics {
    ($name:ident, $N:ty, $n:expr, $k:expr) => {
        #[kani::proof]
        #[kani::should_panic]
        #[kani::unwind(10)]
        fn $name() {
            let mut src = Src::<$k>::any();
            let hint_rules_out = src.lo > $n || matches!(src.hi, Some(h) if h < $n);
            kani::assume(!(src.leading() == $n && !hint_rules_out));
            let a: Box<GenericArray<D, $N>> = (&mut src).collect();
            core::mem::forget(a);
            kani::cover!(true, "returned without panicking");
        }
    };
}

// ---------------------------------------------------------------------------------------------------------------
// C16: allocation failure.  `alloc::alloc::alloc` is replaced by a contracted stub that may return null (and that
// checks the request is valid); the operation must end through the allocation-error path and never touch the block.
// ---------------------------------------------------------------------------------------------------------------
pub static mut ALLOC_FAILS: bool = false;
pub unsafe fn alloc_may_fail(layout: core::alloc::Layout) -> *mut u8 {
    kani::assert(layout.size() > 0, "C16.alloc: the global allocator only ever sees non-zero-size requests");
    if ALLOC_FAILS {
        core::ptr::null_mut()
    } else {
        alloc::alloc::alloc_zeroed(layout)
    }
}

/// the standard allocation-error path (`handle_alloc_error` ends in the foreign `__rust_alloc_error_handler`, which
/// Kani cannot execute): reaching it is the REQUIRED outcome when the allocator reports failure
pub fn alloc_error_path(_layout: core::alloc::Layout) -> ! {
    panic!("C16: reached the standard allocation-error path")
}

// @gen macro=boxed_generate_oom name=c16_boxed_generate_oom props=C16 expect=panic quick=U1,1;U3,3
macro_rules! boxed_generate_oom {
    ($name:ident, $N:ty, $n:expr) => {
        #[kani::proof]
        #[kani::should_panic]
        #[kani::unwind(10)]
        #[kani::stub(alloc::alloc::alloc, alloc_may_fail)]
        #[kani::stub(alloc::alloc::handle_alloc_error, alloc_error_path)]
        fn $name() {
            unsafe { ALLOC_FAILS = true };
            let b = Box::<GenericArray<u32, $N>>::generate(|i| i as u32);
            core::mem::forget(b);
            kani::cover!(true, "returned without panicking");
        }
    };
}

// allocation failure in the other allocating operations: each must end in the standard allocation-error path
// @gen macro=other_oom name=c16_other_oom props=C16 expect=panic quick=U2,2,0;U2,2,1;U2,2,2;U2,2,3 thorough=U1,1,0;U1,1,1;U1,1,2;U1,1,3
macro_rules! other_oom {
    ($name:ident, $N:ty, $n:expr, $which:expr) => {
        #[kani::proof]
        #[kani::should_panic]
        #[kani::unwind(10)]
        #[kani::stub(alloc::alloc::alloc, alloc_may_fail)]
        #[kani::stub(alloc::alloc::handle_alloc_error, alloc_error_path)]
        fn $name() {
            unsafe { ALLOC_FAILS = true };
            let a: GenericArray<u32, $N> = GenericArray::from_array(kani::any::<[u32; $n]>());
            match $which {
                0 => {
                    let r = GenericArray::<u32, $N>::try_boxed_from_iter(a.into_iter());
                    core::mem::forget(r);
                }
                1 => {
                    let r = GenericArray::<u32, $N>::default_boxed();
                    core::mem::forget(r);
                }
                2 => {
                    let r: Box<[u32]> = a.into();
                    core::mem::forget(r);
                }
                _ => {
                    let r: Box<GenericArray<u32, $N>> = a.into_iter().collect();
                    core::mem::forget(r);
                }
            }
            kani::cover!(true, "returned without panicking");
        }
    };
}

// the same operations with a working (but checking) allocator: every request has a non-zero size
// @gen macro=alloc_requests name=c16_alloc_requests props=C16 quick=U0,0;U2,2 thorough=U1,1;U3,3
macro_rules! alloc_requests {
    ($name:ident, $N:ty, $n:expr) => {
        #[kani::proof]
        #[kani::unwind(10)]
        #[kani::stub(alloc::alloc::alloc, alloc_may_fail)]
        fn $name() {
            let b = Box::<GenericArray<u32, $N>>::generate(|i| i as u32);
            let i: usize = kani::any();
            if i < $n {
                kani::assert(b[i] == i as u32, "C08.Box::generate(u32): result i at index i");
            }
            let v = b.into_vec();
            let b2 = GenericArray::<u32, $N>::try_from_vec(v).unwrap();
            let s = b2.into_boxed_slice();
            let a: GenericArray<u32, $N> = GenericArray::try_from(s).unwrap();
            let z: Box<GenericArray<(), $N>> = Box::<GenericArray<(), $N>>::generate(|_| ());
            drop(z);
            kani::cover!(true, "end reachable");
        }
    };
}

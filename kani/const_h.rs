// @file host=src/lib.rs mod=verif_const constitems=1 compileverdict=C18
//! Engine-K obligations for the const API (C18).  Each `const fn summary()` below drives the crate's const fns over
//! every slice length 0..=cap; it is evaluated TWICE: by rustc's const evaluator (the `const S` items - an error there
//! is E0080, which the driver reports as the C18 violation, since the const evaluator rejecting a call IS the
//! property failing) and at run time under Kani (which also checks every pointer operation), and the two results must
//! agree with each other and with the specification values.  UB-freedom for SYMBOLIC inputs is proved by the
//! attribute-contract harnesses in views_h.rs / layout_h.rs (listed under C18 as well).
#![allow(unused_imports, unused_mut, unused_variables, static_mut_refs, dead_code, arithmetic_overflow, unconditional_panic, unused_comparisons)]

use super::*;
use crate::verif_support::*;

/// (try_from_slice ok, #chunks, #remainder, flattened len, first element of remainder or MAX, mutable forms agree)
pub type Row = (bool, usize, usize, usize, u64, bool);

// @gen macro=const_items name=c18_const props=C18 quick=u8,U1,1,5;u8,U3,3,11;u32,U2,2,8;u64,U3,3,11 thorough=u8,U7,7,23;u8,U8,8,26;u32,U4,4,14;u8,U16,16,50;u64,U2,2,8
macro_rules! const_items {
    ($name:ident, $T:ty, $N:ty, $n:expr, $cap:expr) => {
        #[kani::proof]
        #[kani::unwind(60)]
        pub fn $name() {
            const fn val(k: usize) -> $T {
                ((k as u64).wrapping_mul(2654435761) % 251) as $T
            }
            const fn data<const K: usize>() -> [$T; K] {
                let mut d = [0 as $T; K];
                let mut k = 0;
                while k < K {
                    d[k] = val(k);
                    k += 1;
                }
                d
            }
            const fn summary() -> [Row; $cap + 1] {
                let data: [$T; $cap] = data::<$cap>();
                let mut out: [Row; $cap + 1] = [(false, 0, 0, 0, 0, false); $cap + 1];
                let mut l = 0;
                while l <= $cap {
                    let (s, _) = data.split_at(l);
                    let ok = GenericArray::<$T, $N>::try_from_slice(s).is_ok();
                    let (c, r) = GenericArray::<$T, $N>::chunks_from_slice(s);
                    let flat = GenericArray::<$T, $N>::slice_from_chunks(c);
                    let first = if r.is_empty() { u64::MAX } else { r[0] as u64 };
                    // mutable forms on a copy
                    let mut copy = data;
                    let (ms, _) = copy.split_at_mut(l);
                    let mok = GenericArray::<$T, $N>::try_from_mut_slice(ms).is_ok();
                    let (ms, _) = copy.split_at_mut(l);
                    let (mc, mr) = GenericArray::<$T, $N>::chunks_from_slice_mut(ms);
                    let (mcl, mrl) = (mc.len(), mr.len());
                    let agree = mok == ok && mcl == c.len() && mrl == r.len() && GenericArray::<$T, $N>::slice_from_chunks_mut(mc).len() == flat.len();
                    out[l] = (ok, c.len(), r.len(), flat.len(), first, agree);
                    l += 1;
                }
                out
            }
            // evaluated by the compiler's const evaluator
            const S: [Row; $cap + 1] = summary();
            // exact-length reinterpretation, array conversions, uninit/assume_init, len - all in const items
            const DATA: [$T; $n] = data::<$n>();
            const R: &GenericArray<$T, $N> = GenericArray::<$T, $N>::from_slice(&DATA);
            const A: GenericArray<$T, $N> = GenericArray::<$T, $N>::from_array(DATA);
            const B: [$T; $n] = A.into_array();
            const LEN: usize = GenericArray::<$T, $N>::len();
            const SL: usize = A.as_slice().len();
            const U: GenericArray<$T, $N> = {
                let mut u = GenericArray::<$T, $N>::uninit();
                let s = u.as_mut_slice();
                let mut k = 0;
                while k < $n {
                    s[k] = core::mem::MaybeUninit::new(val(k) + 1);
                    k += 1;
                }
                unsafe { GenericArray::assume_init(u) }
            };
            const MUTATED: GenericArray<$T, $N> = {
                let mut a = A;
                let m = GenericArray::<$T, $N>::from_mut_slice(a.as_mut_slice());
                let s = m.as_mut_slice();
                let mut k = 0;
                while k < $n {
                    s[k] += 2;
                    k += 1;
                }
                a
            };
            const CH: &[GenericArray<$T, $N>] = GenericArray::<$T, $N>::from_chunks(&[DATA, DATA]);
            const CHB: &[[$T; $n]] = GenericArray::<$T, $N>::into_chunks(CH);

            let rt = summary(); // the same calls at run time
            let l: usize = kani::any();
            kani::assume(l <= $cap);
            kani::assert(rt[l].0 == S[l].0 && rt[l].1 == S[l].1 && rt[l].2 == S[l].2 && rt[l].3 == S[l].3 && rt[l].4 == S[l].4 && rt[l].5 == S[l].5,
                "C18: the const-evaluated result equals the same call at run time, for every slice length");
            kani::assert(S[l].0 == (l == $n), "C18.try_from_slice(const): Ok exactly for length N");
            kani::assert(S[l].1 == l / $n && S[l].2 == l % $n && S[l].3 == (l / $n) * $n, "C18.chunks_from_slice / slice_from_chunks(const): floor(L/N) chunks, L mod N remainder, inverse");
            kani::assert(S[l].4 == (if l % $n == 0 { u64::MAX } else { val((l / $n) * $n) as u64 }), "C18.chunks_from_slice(const): the remainder starts right after the last whole chunk");
            kani::assert(S[l].5, "C18(const): the mutable forms agree with the shared forms");
            let i: usize = kani::any();
            kani::assume(i < $n);
            kani::assert(R[i] == val(i) && A[i] == val(i) && B[i] == val(i), "C18.from_slice / from_array / into_array(const): element i keeps its value and position");
            kani::assert(LEN == $n && SL == $n, "C18.len / as_slice(const): N");
            kani::assert(U[i] == val(i) + 1, "C18.uninit / assume_init(const): every written element is read back");
            kani::assert(MUTATED[i] == val(i) + 2, "C18.from_mut_slice / as_mut_slice(const): writes through the mutable views land in the array");
            kani::assert(CH.len() == 2 && CHB.len() == 2 && CH[1][i] == val(i) && CHB[0][i] == val(i), "C18.from_chunks / into_chunks(const): same count and contents");
            kani::cover!(true, "end reachable");
        }
    };
}

// N = 0 in const position: empty slice gives two empty results
// @harness name=c18_const_n0 props=C18 tier=quick scope=instantiation(u64,U0)
pub const Z: (usize, usize) = {
    let (c, r) = GenericArray::<u64, U0>::chunks_from_slice(&[]);
    (c.len(), r.len())
};
pub const ZM: (usize, usize) = {
    let mut e: [u64; 0] = [];
    let (c, r) = GenericArray::<u64, U0>::chunks_from_slice_mut(&mut e);
    (c.len(), r.len())
};
pub const ZOK: bool = GenericArray::<u64, U0>::try_from_slice(&[]).is_ok() && GenericArray::<u64, U0>::try_from_slice(&[1]).is_err();
// zero-sized elements in const position: the LENGTH decides, not the byte size (which is always 0)
pub const ZST_OK: bool = GenericArray::<(), U3>::try_from_slice(&[(); 3]).is_ok()
    && GenericArray::<(), U3>::try_from_slice(&[(); 5]).is_err()
    && GenericArray::<(), U3>::try_from_slice(&[(); 2]).is_err()
    && GenericArray::<(), U0>::try_from_slice(&[(); 1]).is_err();
pub const ZST_CHUNKS: (usize, usize) = {
    let (c, r) = GenericArray::<(), U3>::chunks_from_slice(&[(); 7]);
    (c.len(), r.len())
};
pub const ZST_MUT: bool = {
    let mut z = [(); 4];
    GenericArray::<(), U3>::try_from_mut_slice(&mut z).is_err()
};
#[kani::proof]
pub fn c18_const_n0() {
    kani::assert(Z.0 == 0 && Z.1 == 0 && ZM.0 == 0 && ZM.1 == 0, "C18.chunks_from_slice(_mut)(const, N=0): an empty slice gives two empty results");
    kani::assert(ZOK, "C18.try_from_slice(const, N=0): Ok exactly for the empty slice");
    kani::assert(ZST_OK && ZST_MUT, "C18.try_from_slice / try_from_mut_slice(const, zero-sized elements): Ok exactly for length N");
    kani::assert(ZST_CHUNKS.0 == 2 && ZST_CHUNKS.1 == 1, "C18.chunks_from_slice(const, zero-sized elements): floor(L/N) chunks and L mod N remainder");
    kani::cover!(true, "end reachable");
}

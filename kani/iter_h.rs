// @file host=src/iter.rs mod=verif_iter needs=iterdrop
//! Engine-K contracts for the by-value iterator (C03, C04, C05, C06), as Hoare triples from an ARBITRARY state that
//! satisfies the representation invariant `index <= index_back <= N`, slot k live <=> index <= k < index_back.
//! The oracle is the deque semantics of the property statement, never the code.
#![allow(unused_imports, unused_mut, unused_variables, static_mut_refs, dead_code, arithmetic_overflow, unconditional_panic, unused_comparisons)]

use super::*;
use crate::verif_support::*;
use core::fmt::Write;

/// Arbitrary invariant-satisfying iterator over plain bytes; returns the iterator, a snapshot of all N slots and (i, b).
macro_rules! any_iter_u8 {
    ($N:ty, $n:expr) => {{
        let snap: [u8; $n] = kani::any();
        let arr: GenericArray<u8, $N> = GenericArray::from_array(snap);
        let i: usize = kani::any();
        let b: usize = kani::any();
        kani::assume(i <= b && b <= $n);
        (GenericArrayIter::<u8, $N> { array: ManuallyDrop::new(arr), index: i, index_back: b }, snap, i, b)
    }};
}

/// Arbitrary invariant-satisfying iterator over drop-tracked elements: slot k holds id k; exactly the slots in
/// [i, b) are live in the ledger (the others count as moved out).
macro_rules! any_iter_d {
    ($N:ty, $n:expr) => {{
        let arr: GenericArray<D, $N> = GenericArray::from_array(core::array::from_fn::<D, $n, _>(|k| D(k)));
        let i: usize = kani::any();
        let b: usize = kani::any();
        kani::assume(i <= b && b <= $n);
        let mut k = 0;
        while k < $n {
            if i <= k && k < b {
                unsafe { LIVE[k] = 1 };
            }
            k += 1;
        }
        (GenericArrayIter::<D, $N> { array: ManuallyDrop::new(arr), index: i, index_back: b }, i, b)
    }};
}

/// arm the destructor monitor for iterators of type GenericArrayIter<D, $N> (slot k holds id k)
macro_rules! arm {
    ($N:ty) => {
        arm_dtor_monitor(
            0,
            core::mem::offset_of!(GenericArrayIter<D, $N>, array),
            core::mem::offset_of!(GenericArrayIter<D, $N>, index),
            core::mem::offset_of!(GenericArrayIter<D, $N>, index_back),
        )
    };
}

/// ledger: exactly the ids in [lo, hi) (below n) are live
fn live_exactly(lo: usize, hi: usize, n: usize) -> bool {
    let mut k = 0;
    let mut ok = true;
    while k < n {
        if live(k) != (lo <= k && k < hi) {
            ok = false;
        }
        k += 1;
    }
    ok
}

// ---------------------------------------------------------------------------------------------------------------
// Representation sanity: through the public API only, the private fields mean what the invariant says.  If this
// fails the representation was refactored and the arbitrary-state harnesses below no longer mean anything.
// ---------------------------------------------------------------------------------------------------------------
// @gen macro=iter_repr name=c06_repr props=C03,C05,C06 quick=U0,0;U1,1;U4,4 thorough=U2,2;U3,3;U8,8
macro_rules! iter_repr {
    ($name:ident, $N:ty, $n:expr) => {
        #[kani::proof]
        #[kani::unwind(12)]
        fn $name() {
            let snap: [u8; $n] = kani::any();
            let arr: GenericArray<u8, $N> = GenericArray::from_array(snap);
            let mut it = arr.into_iter();
            kani::assert(it.index == 0 && it.index_back == $n, "C06.repr: into_iter starts at (0, N)");
            let base = &it.array as *const _ as usize;
            let f: usize = kani::any();
            let b: usize = kani::any();
            kani::assume(f <= $n && b <= $n && f + b <= $n);
            let mut k = 0;
            while k < f {
                let x = it.next();
                kani::assert(x == Some(snap[k]), "C06.repr: k-th next() is element k");
                k += 1;
            }
            let mut k = 0;
            while k < b {
                let x = it.next_back();
                kani::assert(x == Some(snap[$n - 1 - k]), "C06.repr: k-th next_back() is element N-1-k");
                k += 1;
            }
            kani::assert(it.index == f && it.index_back == $n - b, "C06.repr: fields are (consumed from front, N - consumed from back)");
            kani::assert(it.as_slice().len() == $n - f - b, "C06.repr: as_slice has index_back - index elements");
            kani::assert(it.as_slice().as_ptr() as usize == base + f, "C06.repr: as_slice starts at slot `index` of the array");
            kani::assert(it.len() == $n - f - b, "C06.repr: len is the number still to come");
            kani::cover!(true, "end reachable");
        }
    };
}

// @gen macro=iter_next name=c06_next props=C06 quick=U0,0;U1,1;U4,4 thorough=U2,2;U3,3;U5,5;U8,8
macro_rules! iter_next {
    ($name:ident, $N:ty, $n:expr) => {
        #[kani::proof]
        #[kani::unwind(12)]
        fn $name() {
            let (mut it, snap, i, b) = any_iter_u8!($N, $n);
            let r = it.next();
            if i < b {
                kani::assert(r == Some(snap[i]), "C06.next: returns the front element");
                kani::assert(it.index == i + 1 && it.index_back == b, "C06.next: pops exactly the front");
            } else {
                kani::assert(r.is_none(), "C06.next: exhausted iterator returns None");
                kani::assert(it.index == i && it.index_back == b, "C06.next: exhausted iterator is unchanged (fused)");
            }
            kani::assert(it.index <= it.index_back && it.index_back <= $n, "C06.next: invariant re-established");
            let k: usize = kani::any();
            if it.index <= k && k < it.index_back {
                kani::assert(it.as_slice()[k - it.index] == snap[k], "C06.next: remaining elements untouched");
            }
            kani::cover!(true, "end reachable");
        }
    };
}

// @gen macro=iter_next_back name=c06_next_back props=C06 quick=U0,0;U1,1;U4,4 thorough=U2,2;U3,3;U5,5;U8,8
macro_rules! iter_next_back {
    ($name:ident, $N:ty, $n:expr) => {
        #[kani::proof]
        #[kani::unwind(12)]
        fn $name() {
            let (mut it, snap, i, b) = any_iter_u8!($N, $n);
            let r = it.next_back();
            if i < b {
                kani::assert(r == Some(snap[b - 1]), "C06.next_back: returns the back element");
                kani::assert(it.index == i && it.index_back == b - 1, "C06.next_back: pops exactly the back");
            } else {
                kani::assert(r.is_none(), "C06.next_back: exhausted iterator returns None");
                kani::assert(it.index == i && it.index_back == b, "C06.next_back: exhausted iterator is unchanged (fused)");
            }
            kani::assert(it.index <= it.index_back && it.index_back <= $n, "C06.next_back: invariant re-established");
            let k: usize = kani::any();
            if it.index <= k && k < it.index_back {
                kani::assert(it.as_slice()[k - it.index] == snap[k], "C06.next_back: remaining elements untouched");
            }
            kani::cover!(true, "end reachable");
        }
    };
}

// @gen macro=iter_nth name=c06_nth props=C06 quick=U0,0;U1,1;U4,4 thorough=U2,2;U3,3;U5,5;U8,8
macro_rules! iter_nth {
    ($name:ident, $N:ty, $n:expr) => {
        #[kani::proof]
        #[kani::unwind(12)]
        fn $name() {
            let (mut it, snap, i, b) = any_iter_u8!($N, $n);
            let n: usize = kani::any(); // the whole usize range, usize::MAX included
            let r = it.nth(n);
            let len = b - i;
            if n < len {
                kani::assert(r == Some(snap[i + n]), "C06.nth: returns the n-th remaining element");
                kani::assert(it.index == i + n + 1 && it.index_back == b, "C06.nth: skips exactly n, pops one, back untouched");
            } else {
                kani::assert(r.is_none(), "C06.nth: n >= len returns None");
                kani::assert(it.index == it.index_back && it.index_back == b, "C06.nth: n >= len exhausts the iterator, back untouched");
            }
            kani::assert(it.index <= it.index_back && it.index_back <= $n, "C06.nth: invariant re-established");
            kani::cover!(true, "end reachable");
        }
    };
}

// @gen macro=iter_nth_back name=c06_nth_back props=C06 quick=U0,0;U1,1;U4,4 thorough=U2,2;U3,3;U5,5;U8,8
macro_rules! iter_nth_back {
    ($name:ident, $N:ty, $n:expr) => {
        #[kani::proof]
        #[kani::unwind(12)]
        fn $name() {
            let (mut it, snap, i, b) = any_iter_u8!($N, $n);
            let n: usize = kani::any();
            let r = it.nth_back(n);
            let len = b - i;
            if n < len {
                kani::assert(r == Some(snap[b - 1 - n]), "C06.nth_back: returns the n-th element from the back");
                kani::assert(it.index == i && it.index_back == b - 1 - n, "C06.nth_back: skips exactly n from the back, pops one, front untouched");
            } else {
                kani::assert(r.is_none(), "C06.nth_back: n >= len returns None");
                kani::assert(it.index == it.index_back && it.index == i, "C06.nth_back: n >= len exhausts the iterator, front untouched");
            }
            kani::assert(it.index <= it.index_back && it.index_back <= $n, "C06.nth_back: invariant re-established");
            kani::cover!(true, "end reachable");
        }
    };
}

// @gen macro=iter_len name=c06_len props=C06 quick=U0,0;U1,1;U4,4 thorough=U2,2;U3,3;U8,8
macro_rules! iter_len {
    ($name:ident, $N:ty, $n:expr) => {
        #[kani::proof]
        #[kani::unwind(12)]
        fn $name() {
            let (mut it, snap, i, b) = any_iter_u8!($N, $n);
            let base = &it.array as *const _ as usize;
            kani::assert(it.len() == b - i, "C06.len: len equals the number of elements still to come");
            kani::assert(it.size_hint() == (b - i, Some(b - i)), "C06.size_hint: exact on both bounds");
            kani::assert(it.as_slice().len() == b - i, "C06.as_slice: has len() elements");
            kani::assert(b == i || it.as_slice().as_ptr() as usize == base + i, "C06.as_slice: starts at the front element");
            let k: usize = kani::any();
            kani::assert(it.as_mut_slice().len() == b - i, "C06.as_mut_slice: has len() elements");
            if i <= k && k < b {
                kani::assert(it.as_slice()[k - i] == snap[k], "C06.as_slice: shows exactly the remaining elements in order");
                let v: u8 = kani::any();
                it.as_mut_slice()[k - i] = v;
                kani::assert(it.as_slice()[k - i] == v, "C06.as_mut_slice: write is seen through as_slice");
                kani::assert(it.index == i && it.index_back == b, "C06.len: observers do not move the iterator");
                if k == i {
                    kani::assert(it.next() == Some(v), "C06.as_mut_slice: write is seen by next()");
                }
            }
            kani::cover!(true, "end reachable");
        }
    };
}

// @gen macro=iter_count_last name=c06_count_last props=C06 quick=U0,0;U1,1;U4,4 thorough=U2,2;U3,3;U8,8
macro_rules! iter_count_last {
    ($name:ident, $N:ty, $n:expr) => {
        #[kani::proof]
        #[kani::unwind(12)]
        fn $name() {
            let (it, snap, i, b) = any_iter_u8!($N, $n);
            if kani::any() {
                kani::assert(it.count() == b - i, "C06.count: equals len");
            } else {
                let r = it.last();
                if i < b {
                    kani::assert(r == Some(snap[b - 1]), "C06.last: returns the last remaining element");
                } else {
                    kani::assert(r.is_none(), "C06.last: None when exhausted");
                }
            }
            kani::cover!(true, "end reachable");
        }
    };
}

// @gen macro=iter_fold name=c06_fold props=C06,C08 quick=U0,0;U1,1;U4,4 thorough=U2,2;U3,3;U8,8
macro_rules! iter_fold {
    ($name:ident, $N:ty, $n:expr) => {
        #[kani::proof]
        #[kani::unwind(12)]
        fn $name() {
            let (it, snap, i, b) = any_iter_u8!($N, $n);
            let init: usize = kani::any();
            kani::assume(init < 1000);
            let mut calls = 0usize;
            let r = it.fold(init, |acc, x| {
                kani::assert(acc == init + calls, "C06.fold: accumulator is threaded from call to call");
                kani::assert(x == snap[i + calls], "C06.fold: k-th call receives the k-th remaining element (front to back)");
                calls += 1;
                acc + 1
            });
            kani::assert(calls == b - i, "C06.fold: calls the function once per remaining element");
            kani::assert(r == init + (b - i), "C06.fold: returns the last accumulator");
            kani::cover!(true, "end reachable");
        }
    };
}

// @gen macro=iter_rfold name=c06_rfold props=C06 quick=U0,0;U1,1;U4,4 thorough=U2,2;U3,3;U8,8
macro_rules! iter_rfold {
    ($name:ident, $N:ty, $n:expr) => {
        #[kani::proof]
        #[kani::unwind(12)]
        fn $name() {
            let (it, snap, i, b) = any_iter_u8!($N, $n);
            let init: usize = kani::any();
            kani::assume(init < 1000);
            let mut calls = 0usize;
            let r = it.rfold(init, |acc, x| {
                kani::assert(acc == init + calls, "C06.rfold: accumulator is threaded from call to call");
                kani::assert(x == snap[b - 1 - calls], "C06.rfold: k-th call receives the k-th remaining element from the back");
                calls += 1;
                acc + 1
            });
            kani::assert(calls == b - i, "C06.rfold: calls the function once per remaining element");
            kani::assert(r == init + (b - i), "C06.rfold: returns the last accumulator");
            kani::cover!(true, "end reachable");
        }
    };
}

// @gen macro=iter_clone name=c06_clone props=C06 quick=U0,0;U1,1;U4,4 thorough=U2,2;U3,3;U8,8
macro_rules! iter_clone {
    ($name:ident, $N:ty, $n:expr) => {
        #[kani::proof]
        #[kani::unwind(12)]
        fn $name() {
            let (it, snap, i, b) = any_iter_u8!($N, $n);
            let mut c = it.clone();
            kani::assert(c.index <= c.index_back && c.index_back <= $n, "C06.clone: the clone satisfies the invariant");
            kani::assert(c.len() == b - i, "C06.clone: the clone has the same number of remaining elements");
            kani::assert(it.index == i && it.index_back == b, "C06.clone: the original is not disturbed");
            let k: usize = kani::any();
            if i <= k && k < b {
                kani::assert(c.as_slice()[k - i] == snap[k], "C06.clone: the clone yields the same remaining elements in order");
                kani::assert(it.as_slice()[k - i] == snap[k], "C06.clone: the original still yields its elements");
            }
            if i < b {
                kani::assert(c.next() == Some(snap[i]) , "C06.clone: clone's next() is the original's front");
                kani::assert(c.next_back() == (if b - i >= 2 { Some(snap[b - 1]) } else { None }), "C06.clone: clone's next_back() is the original's back");
            }
            kani::cover!(true, "end reachable");
        }
    };
}

// @gen macro=iter_debug name=c06_debug props=C06 quick=U3,3,1,2 thorough=U2,2,0,2;U2,2,1,2;U2,2,1,1;U3,3,0,2
macro_rules! iter_debug {
    ($name:ident, $N:ty, $n:expr, $i:expr, $b:expr) => {
        #[kani::proof]
        #[kani::unwind(100)]
        fn $name() {
            // concrete positions (symbolic slice bounds make core::fmt intractable for CBMC), symbolic contents
            let snap: [u8; $n] = kani::any();
            let arr: GenericArray<u8, $N> = GenericArray::from_array(snap);
            let it = GenericArrayIter::<u8, $N> { array: ManuallyDrop::new(arr), index: $i, index_back: $b };
            let mut s1 = Sink { buf: [0; 64], len: 0 };
            let mut s2 = Sink { buf: [0; 64], len: 0 };
            write!(s1, "{:?}", it).unwrap();
            write!(s2, "GenericArrayIter({:?})", &snap[$i..$b]).unwrap();
            kani::assert(s1.len == s2.len, "C06.debug: same length as GenericArrayIter(<remaining slice>)");
            let k: usize = kani::any();
            if k < s1.len && k < 64 {
                kani::assert(s1.buf[k] == s2.buf[k], "C06.debug: shows exactly the remaining elements");
            }
            kani::cover!(true, "end reachable");
        }
    };
}

pub(crate) struct Sink {
    pub buf: [u8; 64],
    pub len: usize,
}
impl fmt::Write for Sink {
    fn write_str(&mut self, s: &str) -> fmt::Result {
        let b = s.as_bytes();
        let mut i = 0;
        while i < b.len() {
            if self.len < 64 {
                self.buf[self.len] = b[i];
            }
            self.len += 1;
            i += 1;
        }
        Ok(())
    }
}

// ---------------------------------------------------------------------------------------------------------------
// C03 / C05: drop-tracked elements from an arbitrary state.
// ---------------------------------------------------------------------------------------------------------------

// @gen macro=iter_d_nth name=c05_nth props=C03,C05 quick=U1,1;U4,4 thorough=U2,2;U3,3;U5,5;U8,8
macro_rules! iter_d_nth {
    ($name:ident, $N:ty, $n:expr) => {
        #[kani::proof]
        #[kani::unwind(12)]
        fn $name() {
            let (mut it, i, b) = any_iter_d!($N, $n);
            let n: usize = kani::any();
            // arm the destructor monitor: any destructor that runs inside nth() may be the one that panics
            arm!($N);
            let r = it.nth(n);
            disarm_dtor_monitor();
            let len = b - i;
            let skipped = if n < len { n } else { len };
            kani::assert(unsafe { DROPS } == skipped, "C03.nth: exactly the skipped elements are dropped");
            match &r {
                Some(d) => kani::assert(n < len && d.0 == i + n && live(d.0), "C03.nth: the returned element is live and is the n-th"),
                None => kani::assert(n >= len, "C03.nth: None only when n >= len"),
            }
            kani::assert(live_exactly(i + skipped, b, $n), "C03.nth: skipped elements dead, all later ones (and the returned one) still live");
            drop(r);
            drop(it);
            kani::assert(all_dead(0, $n), "C03.nth: after dropping result and iterator every element is dead");
            kani::cover!(true, "end reachable");
        }
    };
}

// @gen macro=iter_d_nth_back name=c05_nth_back props=C03,C05 quick=U1,1;U4,4 thorough=U2,2;U3,3;U5,5;U8,8
macro_rules! iter_d_nth_back {
    ($name:ident, $N:ty, $n:expr) => {
        #[kani::proof]
        #[kani::unwind(12)]
        fn $name() {
            let (mut it, i, b) = any_iter_d!($N, $n);
            let n: usize = kani::any();
            arm!($N);
            let r = it.nth_back(n);
            disarm_dtor_monitor();
            let len = b - i;
            let skipped = if n < len { n } else { len };
            kani::assert(unsafe { DROPS } == skipped, "C03.nth_back: exactly the skipped elements are dropped");
            match &r {
                Some(d) => kani::assert(n < len && d.0 == b - 1 - n && live(d.0), "C03.nth_back: the returned element is live and is the n-th from the back"),
                None => kani::assert(n >= len, "C03.nth_back: None only when n >= len"),
            }
            kani::assert(live_exactly(i, b - skipped, $n), "C03.nth_back: skipped elements dead, all earlier ones (and the returned one) still live");
            drop(r);
            drop(it);
            kani::assert(all_dead(0, $n), "C03.nth_back: after dropping result and iterator every element is dead");
            kani::cover!(true, "end reachable");
        }
    };
}

// @gen macro=iter_d_consume name=c05_consume props=C03,C05 quick=U0,0;U1,1;U4,4 thorough=U2,2;U3,3;U8,8
macro_rules! iter_d_consume {
    ($name:ident, $N:ty, $n:expr) => {
        #[kani::proof]
        #[kani::unwind(12)]
        fn $name() {
            let (mut it, i, b) = any_iter_d!($N, $n);
            let which: u8 = kani::any();
            kani::assume(which < 5);
            if which == 0 {
                // the iterator's own drop
                arm!($N);
                drop(it);
                disarm_dtor_monitor();
                kani::assert(unsafe { DROPS } == b - i, "C03.drop: drops exactly the remaining elements");
            } else if which == 1 {
                arm!($N);
                let c = it.count();
                disarm_dtor_monitor();
                kani::assert(c == b - i && unsafe { DROPS } == b - i, "C03.count: drops exactly the remaining elements");
            } else if which == 2 {
                arm!($N);
                let r = it.last();
                disarm_dtor_monitor();
                if i < b {
                    kani::assert(unsafe { DROPS } == b - i - 1, "C03.last: drops all but the last");
                    kani::assert(r.as_ref().map(|d| d.0) == Some(b - 1) && live(b - 1), "C03.last: the last element is handed back live");
                } else {
                    kani::assert(r.is_none(), "C03.last: None when exhausted");
                }
                drop(r);
            } else if which == 3 {
                // abandon after a few steps from both ends
                let a = it.next();
                let z = it.next_back();
                kani::assert(unsafe { DROPS } == 0, "C03.next: handing an element out does not drop it");
                if let Some(d) = &a {
                    kani::assert(d.0 == i && live(i), "C03.next: handed-out front element is live");
                }
                if let Some(d) = &z {
                    kani::assert(d.0 == b - 1 && live(b - 1), "C03.next_back: handed-out back element is live");
                }
                drop(it);
                kani::assert(live_count_below($n) == a.is_some() as usize + z.is_some() as usize, "C03.drop: only the handed-out elements survive the iterator");
                drop(a);
                drop(z);
            } else {
                let mut seen = 0usize;
                it.fold((), |(), d| {
                    kani::assert(live(d.0), "C03.fold: each element is live when handed to the closure");
                    seen += 1;
                    drop(d);
                });
                kani::assert(seen == b - i, "C03.fold: every remaining element handed out once");
            }
            kani::assert(all_dead(0, $n), "C03.iter: in the end every element is dead, none dropped twice");
            kani::cover!(true, "end reachable");
        }
    };
}

// @gen macro=iter_d_clone name=c03_clone props=C03,C04 quick=U0,0;U1,1;U4,4 thorough=U2,2;U3,3;U8,8
macro_rules! iter_d_clone {
    ($name:ident, $N:ty, $n:expr) => {
        #[kani::proof]
        #[kani::unwind(12)]
        fn $name() {
            let (it, i, b) = any_iter_d!($N, $n);
            // C04 unwind obligation at every Clone::clone call: the clones made so far must be owned by something whose
            // Drop releases them.  Under Kani there is no unwinding; what can be checked on the real code is the state
            // the landing pad would see: see DESIGN.md §5 C04 (the V unit carries the all-N obligation).
            let c = it.clone();
            kani::assert(unsafe { CLONES } == b - i, "C04.clone: Clone::clone is called once per remaining element");
            kani::assert(unsafe { DROPS } == 0, "C03.clone: cloning drops nothing");
            kani::assert(live_exactly(i, b, $n), "C03.clone: originals untouched");
            let mut k = 0;
            while k < $n {
                kani::assert(live(CLONE_OFF + k) == (i <= k && k < b), "C03.clone: one live clone per remaining element, no others");
                k += 1;
            }
            drop(c);
            kani::assert(all_dead(CLONE_OFF, CLONE_OFF + $n), "C03.clone: dropping the clone releases every cloned element once");
            kani::assert(live_exactly(i, b, $n), "C03.clone: dropping the clone does not touch the originals");
            drop(it);
            kani::assert(all_dead(0, $n) && all_dead(CLONE_OFF, CLONE_OFF + $n), "C03.clone: in the end every element is dead");
            kani::cover!(true, "end reachable");
        }
    };
}

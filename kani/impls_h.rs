// @file host=src/impls.rs mod=verif_impls
//! Engine-K contracts for comparison / hashing / Debug (C13) and the tuple conversions (C02, C03).
//! Oracle (from the property statement): the same operation applied to the two slices.
#![allow(unused_imports, unused_mut, unused_variables, static_mut_refs, dead_code, arithmetic_overflow, unconditional_panic, unused_comparisons)]

use super::*;
use crate::verif_support::*;
use core::fmt::Write;

pub(crate) struct Sink {
    pub buf: [u8; 96],
    pub len: usize,
}
impl Sink {
    pub fn new() -> Self {
        Sink { buf: [0; 96], len: 0 }
    }
}
impl fmt::Write for Sink {
    fn write_str(&mut self, s: &str) -> fmt::Result {
        let b = s.as_bytes();
        let mut i = 0;
        while i < b.len() {
            if self.len < 96 {
                self.buf[self.len] = b[i];
            }
            self.len += 1;
            i += 1;
        }
        Ok(())
    }
}

/// records everything a `Hash` impl feeds it: the byte stream and the number of `write` calls
pub(crate) struct Rec {
    pub buf: [u8; 64],
    pub len: usize,
    pub calls: usize,
}
impl Hasher for Rec {
    fn finish(&self) -> u64 {
        0
    }
    fn write(&mut self, bytes: &[u8]) {
        self.calls += 1;
        let mut i = 0;
        while i < bytes.len() {
            if self.len < 64 {
                self.buf[self.len] = bytes[i];
            }
            self.len += 1;
            i += 1;
        }
    }
}

// @gen macro=cmp_h name=c13_cmp props=C13 quick=u8,U0,0;u8,U1,1;u8,U3,3;i32,U2,2;f64,U1,1;f64,U3,3 thorough=u8,U4,4;i32,U4,4;f64,U4,4;f64,U2,2
macro_rules! cmp_h {
    ($name:ident, $T:ty, $N:ty, $n:expr) => {
        #[kani::proof]
        #[kani::unwind(40)]
        fn $name() {
            let sa: [$T; $n] = kani::any();
            let sb: [$T; $n] = kani::any();
            let a: GenericArray<$T, $N> = GenericArray::from_array(sa);
            let b: GenericArray<$T, $N> = GenericArray::from_array(sb);
            kani::assert((a == b) == (sa[..] == sb[..]), "C13.eq: == agrees with the slices");
            kani::assert((a != b) == (sa[..] != sb[..]), "C13.ne: != agrees with the slices");
            kani::assert(a.partial_cmp(&b) == sa[..].partial_cmp(&sb[..]), "C13.partial_cmp: lexicographic, as the slices (incomparable elements included)");
            kani::assert((a < b) == (sa[..] < sb[..]) && (a <= b) == (sa[..] <= sb[..]), "C13.lt/le: agree with the slices");
            kani::assert((a > b) == (sa[..] > sb[..]) && (a >= b) == (sa[..] >= sb[..]), "C13.gt/ge: agree with the slices");
            // an array compared with ITSELF (same object) still goes element by element: NaN != NaN
            let same: &GenericArray<$T, $N> = &a;
            kani::assert((a == *same) == (sa[..] == sa[..]), "C13.eq(self, self): agrees with the slice compared with itself");
            kani::assert(a.partial_cmp(same) == sa[..].partial_cmp(&sa[..]), "C13.partial_cmp(self, self): agrees with the slice");
            kani::cover!(true, "end reachable");
        }
    };
}

// @gen macro=ord_h name=c13_ord props=C13 quick=u8,U0,0;u8,U3,3;i32,U2,2 thorough=u8,U4,4;i32,U4,4
macro_rules! ord_h {
    ($name:ident, $T:ty, $N:ty, $n:expr) => {
        #[kani::proof]
        #[kani::unwind(40)]
        fn $name() {
            let sa: [$T; $n] = kani::any();
            let sb: [$T; $n] = kani::any();
            let a: GenericArray<$T, $N> = GenericArray::from_array(sa);
            let b: GenericArray<$T, $N> = GenericArray::from_array(sb);
            kani::assert(a.cmp(&b) == sa[..].cmp(&sb[..]), "C13.cmp: total order agrees with the slices");
            // nested arrays compare through the same impls
            let na: GenericArray<GenericArray<$T, $N>, U2> = GenericArray::from_array([a, b]);
            let nb: GenericArray<GenericArray<$T, $N>, U2> = GenericArray::from_array([b, a]);
            kani::assert(na.cmp(&nb) == [sa, sb][..].cmp(&[sb, sa][..]), "C13.cmp(nested): agrees with the nested native arrays");
            kani::assert((na == nb) == ([sa, sb] == [sb, sa]), "C13.eq(nested): agrees with the nested native arrays");
            kani::cover!(true, "end reachable");
        }
    };
}

// @gen macro=hash_h name=c13_hash props=C13 quick=u8,U0,0;u8,U3,3;u32,U2,2 thorough=u32,U4,4;u16,U3,3;i64,U2,2
macro_rules! hash_h {
    ($name:ident, $T:ty, $N:ty, $n:expr) => {
        #[kani::proof]
        #[kani::unwind(70)]
        fn $name() {
            let sa: [$T; $n] = kani::any();
            let a: GenericArray<$T, $N> = GenericArray::from_array(sa);
            let mut h1 = Rec { buf: [0; 64], len: 0, calls: 0 };
            let mut h2 = Rec { buf: [0; 64], len: 0, calls: 0 };
            a.hash(&mut h1);
            sa[..].hash(&mut h2);
            kani::assert(h1.len == h2.len && h1.calls == h2.calls, "C13.hash: feeds the hasher as many bytes in as many writes as the slice (length prefix included)");
            kani::assert(h1.len == 8 + $n * core::mem::size_of::<$T>(), "C13.hash: a usize length prefix, then every element");
            let k: usize = kani::any();
            if k < h1.len && k < 64 {
                kani::assert(h1.buf[k] == h2.buf[k], "C13.hash: feeds the hasher exactly the slice's byte stream");
            }
            // consequence: the Borrow<[T]> form hashes and compares like the key itself
            let s: &[$T] = core::borrow::Borrow::borrow(&a);
            kani::assert(s.len() == $n && ($n == 0 || s.as_ptr() as usize == a.as_slice().as_ptr() as usize), "C13.borrow: Borrow<[T]> is the slice of the same elements");
            kani::cover!(true, "end reachable");
        }
    };
}

/// element whose Debug output echoes the formatter's flags, so "flags are passed through to every element" is observable
#[derive(Clone, Copy)]
pub(crate) struct Echo(pub u8);
impl fmt::Debug for Echo {
    fn fmt(&self, f: &mut fmt::Formatter<'_>) -> fmt::Result {
        let w = f.width().unwrap_or(0) as u8;
        let p = f.precision().unwrap_or(0) as u8;
        let bytes = [b'a' + (self.0 & 7), b'0' + (w & 7), b'0' + (p & 7), if f.alternate() { b'#' } else { b'.' }, if f.sign_plus() { b'+' } else { b'.' }];
        f.write_str(unsafe { core::str::from_utf8_unchecked(&bytes) })
    }
}
impl kani::Arbitrary for Echo {
    fn any() -> Self {
        Echo(kani::any())
    }
}

// @gen macro=debug_h name=c13_debug props=C13 quick=U1,1,plain,"{:?}";U1,1,wp,"{:5.2?}" thorough=U0,0,plain,"{:?}";U2,2,plain,"{:?}";U2,2,wp,"{:5.2?}";U1,1,signw,"{:+3?}";U3,3,plain,"{:?}"
macro_rules! debug_h {
    ($name:ident, $N:ty, $n:expr, $tag:ident, $fmt:literal) => {
        #[kani::proof]
        #[kani::unwind(100)]
        fn $name() {
            let sa: [Echo; $n] = kani::any();
            let a: GenericArray<Echo, $N> = GenericArray::from_array(sa);
            let (mut s1, mut s2) = (Sink::new(), Sink::new());
            write!(s1, $fmt, a).unwrap();
            write!(s2, $fmt, &sa[..]).unwrap();
            kani::assert(s1.len == s2.len && s1.len <= 96, "C13.debug: same length as the slice's Debug output under the same flags");
            let k: usize = kani::any();
            if k < s1.len {
                kani::assert(s1.buf[k] == s2.buf[k], "C13.debug: output equals the slice's under any format flags");
            }
            kani::cover!(true, "end reachable");
        }
    };
}

// ---------------------------------------------------------------------------------------------------------------
// C02 / C03: the twelve tuple conversions keep every element at its position
// ---------------------------------------------------------------------------------------------------------------
// @gen macro=tuple_h name=c02_tuple props=C02,C03 quick=U1,1,[0];U2,2,[0,1];U3,3,[0,1,2];U12,12,[0,1,2,3,4,5,6,7,8,9,10,11] thorough=U4,4,[0,1,2,3];U5,5,[0,1,2,3,4];U6,6,[0,1,2,3,4,5];U7,7,[0,1,2,3,4,5,6];U8,8,[0,1,2,3,4,5,6,7];U9,9,[0,1,2,3,4,5,6,7,8];U10,10,[0,1,2,3,4,5,6,7,8,9];U11,11,[0,1,2,3,4,5,6,7,8,9,10]
macro_rules! tuple_h {
    ($name:ident, $N:ty, $n:expr, [$($i:tt),*]) => {
        #[kani::proof]
        #[kani::unwind(16)]
        fn $name() {
            let v: [u32; $n] = kani::any();
            let k: usize = kani::any();
            let a: GenericArray<u32, $N> = ($(v[$i],)*).into();
            if k < $n {
                kani::assert(a[k] == v[k], "C02.tuple->array: component k becomes element k");
            }
            let t = <($(tuple_h!(@ty $i),)*)>::from(a);
            let back: [u32; $n] = [$(t.$i),*];
            if k < $n {
                kani::assert(back[k] == v[k], "C02.array->tuple: element k becomes component k");
            }
            // drop-tracked: moves only
            let d: GenericArray<D, $N> = ($(mk($i),)*).into();
            kani::assert(unsafe { DROPS } == 0 && all_live(0, $n), "C03.tuple->array: moves every component, drops none");
            if k < $n {
                kani::assert(d[k].0 == k, "C02.tuple->array(D): component k becomes element k");
            }
            let t = <($(tuple_h!(@tyd $i),)*)>::from(d);
            kani::assert(unsafe { DROPS } == 0 && all_live(0, $n), "C03.array->tuple: moves every element, drops none");
            let ids: [usize; $n] = [$(t.$i.0),*];
            if k < $n {
                kani::assert(ids[k] == k, "C02.array->tuple(D): element k becomes component k");
            }
            drop(t);
            kani::assert(unsafe { DROPS } == $n && all_dead(0, $n), "C03.tuple: in the end every element dropped exactly once");
            kani::cover!(true, "end reachable");
        }
    };
    (@ty $i:tt) => { u32 };
    (@tyd $i:tt) => { D };
}

// @file host=src/lib.rs mod=verif_zc features=zeroize,const-default flags=-Z+stubbing
//! Engine-K contracts for zeroize and const-default (C19): after zeroize() EVERY element (symbolic index, symbolic
//! prior contents) equals its zeroized value; the constant default read back through the slice view is T::DEFAULT at
//! every index and equals Default::default() where both exist.
//! `zeroize::optimization_barrier` is inline asm (not executable by Kani): stubbed by a no-op, i.e. assumed to have
//! no effect on memory.
#![allow(unused_imports, unused_mut, unused_variables, static_mut_refs, dead_code, arithmetic_overflow, unconditional_panic, unused_comparisons)]

use super::*;
use const_default::ConstDefault;
use typenum::consts::*;
use zeroize::Zeroize;

/// zero and default values are distinguishable per field
#[derive(Clone, Copy, PartialEq, Eq, Debug)]
pub struct Two {
    pub a: u8,
    pub b: u16,
}
impl ConstDefault for Two {
    const DEFAULT: Self = Two { a: 7, b: 9 };
}
impl Default for Two {
    fn default() -> Self {
        Two { a: 7, b: 9 }
    }
}
impl Zeroize for Two {
    fn zeroize(&mut self) {
        self.a.zeroize();
        self.b.zeroize();
    }
}
impl kani::Arbitrary for Two {
    fn any() -> Self {
        Two { a: kani::any(), b: kani::any() }
    }
}

/// no drop glue, and the zeroized state is NOT all-zero bytes: zeroize must go through the element's own impl
#[derive(Clone, Copy, PartialEq, Eq, Debug)]
pub struct Tomb {
    pub state: u8,
    pub key: u32,
}
impl Zeroize for Tomb {
    fn zeroize(&mut self) {
        self.key.zeroize();
        self.state = 0xA5;
    }
}
impl kani::Arbitrary for Tomb {
    fn any() -> Self {
        Tomb { state: kani::any(), key: kani::any() }
    }
}
const TOMB: Tomb = Tomb { state: 0xA5, key: 0 };

pub fn noop_barrier<T: ?Sized>(_val: &T) {}

// @gen macro=zeroize_h name=c19_zeroize props=C19 quick=u8,U0,0,0u8;u8,U1,1,0u8;u8,U2,2,0u8;u8,U3,3,0u8;u8,U5,5,0u8;u8,U6,6,0u8;u8,U7,7,0u8;u8,U8,8,0u8;u8,U13,13,0u8;u8,U16,16,0u8;u8,U31,31,0u8;u8,U32,32,0u8;u8,U33,33,0u8;u8,U48,48,0u8;u8,U63,63,0u8;u8,U64,64,0u8;u64,U4,4,0u64;u64,U9,9,0u64;Two,U3,3,TZ;Two,U5,5,TZ;Two,U6,6,TZ;Two,U10,10,TZ;Two,U15,15,TZ;Tomb,U1,1,TOMB;Tomb,U4,4,TOMB;Tomb,U7,7,TOMB thorough=u8,U4,4,0u8;u8,U9,9,0u8;u8,U10,10,0u8;u8,U11,11,0u8;u8,U12,12,0u8;u8,U14,14,0u8;u8,U15,15,0u8;u8,U17,17,0u8;u8,U24,24,0u8;u8,U40,40,0u8;u8,U47,47,0u8;u8,U56,56,0u8;u8,U65,65,0u8;Two,U7,7,TZ;Two,U12,12,TZ;Two,U21,21,TZ;u64,U17,17,0u64
macro_rules! zeroize_h {
    ($name:ident, $T:ty, $N:ty, $n:expr, $zero:expr) => {
        #[kani::proof]
        #[kani::unwind(70)]
        #[kani::stub(zeroize::optimization_barrier, noop_barrier)]
        fn $name() {
            let mut a: GenericArray<$T, $N> = GenericArray::from_array(kani::any::<[$T; $n]>());
            a.zeroize();
            let i: usize = kani::any();
            if i < $n {
                kani::assert(a[i] == $zero, "C19.zeroize: every element equals its zeroized value afterwards, whatever it held before");
            }
            kani::assert(a.len() == $n, "C19.zeroize: the array keeps its N elements");
            kani::cover!(true, "end reachable");
        }
    };
}
const TZ: Two = Two { a: 0, b: 0 };

// element types that are themselves arrays
// @gen macro=zeroize_nested name=c19_zeroize_nested props=C19 quick=U3,3;U5,5 thorough=U1,1;U6,6;U9,9
macro_rules! zeroize_nested {
    ($name:ident, $N:ty, $n:expr) => {
        #[kani::proof]
        #[kani::unwind(40)]
        #[kani::stub(zeroize::optimization_barrier, noop_barrier)]
        fn $name() {
            let (i, j): (usize, usize) = (kani::any(), kani::any());
            let mut a: GenericArray<[u8; 3], $N> = GenericArray::from_array(kani::any::<[[u8; 3]; $n]>());
            a.zeroize();
            if i < $n && j < 3 {
                kani::assert(a[i][j] == 0, "C19.zeroize([u8; 3]): every byte of every element is zero");
            }
            let mut g: GenericArray<GenericArray<u8, U3>, $N> = GenericArray::from_array(kani::any::<[[u8; 3]; $n]>().map(GenericArray::from_array));
            g.zeroize();
            if i < $n && j < 3 {
                kani::assert(g[i][j] == 0, "C19.zeroize(nested GenericArray): every byte of every inner array is zero");
            }
            kani::cover!(true, "end reachable");
        }
    };
}

// large lengths (the storage recursion is nine levels deep at 512; 1023 alone takes CBMC 700 s and 1024 exceeds any sensible budget - all N are engine V, unit layout)
// @gen macro=zeroize_big name=c19_zeroize_big props=C19 quick=U256,256;U257,257 thorough=U96,96;U127,127;U128,128;U255,255;U511,511;U512,512
macro_rules! zeroize_big {
    ($name:ident, $N:ty, $n:expr) => {
        #[kani::proof]
        #[kani::unwind(1030)]
        #[kani::stub(zeroize::optimization_barrier, noop_barrier)]
        fn $name() {
            let mut a: GenericArray<u8, $N> = GenericArray::from_array([0xA5u8; $n]);
            let (i, v): (usize, u8) = (kani::any(), kani::any());
            if i < $n {
                a[i] = v;
            }
            a.zeroize();
            let j: usize = kani::any();
            if j < $n {
                kani::assert(a[j] == 0, "C19.zeroize(large N): every element is zero afterwards");
            }
            kani::cover!(true, "end reachable");
        }
    };
}

// @gen macro=cdef_h name=c19_const_default props=C19,C18 quick=U0,0;U1,1;U2,2;U3,3;U5,5;U6,6;U7,7;U8,8;U10,10;U13,13;U16,16 thorough=U4,4;U9,9;U11,11;U12,12;U14,14;U15,15;U17,17;U21,21;U31,31;U32,32;U33,33;U63,63;U64,64
macro_rules! cdef_h {
    ($name:ident, $N:ty, $n:expr) => {
        #[kani::proof]
        #[kani::unwind(70)]
        fn $name() {
            const C: GenericArray<Two, $N> = GenericArray::<Two, $N>::DEFAULT; // evaluated by rustc's const evaluator
            let a: GenericArray<Two, $N> = GenericArray::const_default();
            let d: GenericArray<Two, $N> = Default::default();
            let i: usize = kani::any();
            kani::assert(a.len() == $n && C.len() == $n, "C19.const_default: N elements");
            if i < $n {
                kani::assert(a[i] == Two::DEFAULT, "C19.const_default: element i is T::DEFAULT (no slot skipped)");
                kani::assert(C[i] == Two::DEFAULT, "C19.DEFAULT (const item): element i is T::DEFAULT");
                kani::assert(a[i] == d[i], "C19.const_default: equals Default::default() where both exist");
            }
            let z: GenericArray<u64, $N> = GenericArray::const_default();
            if i < $n {
                kani::assert(z[i] == 0, "C19.const_default(u64): every element is 0");
            }
            let g: GenericArray<GenericArray<Two, U3>, $N> = GenericArray::const_default();
            let j: usize = kani::any();
            if i < $n && j < 3 {
                kani::assert(g[i][j] == Two::DEFAULT, "C19.const_default(nested): every leaf is T::DEFAULT");
            }
            kani::cover!(true, "end reachable");
        }
    };
}

// @gen macro=cdef_big name=c19_const_default_big props=C19 quick=U255,255;U256,256 thorough=U1023,1023;U1024,1024
macro_rules! cdef_big {
    ($name:ident, $N:ty, $n:expr) => {
        #[kani::proof]
        #[kani::unwind(8)]
        fn $name() {
            let a: GenericArray<Two, $N> = GenericArray::const_default();
            let i: usize = kani::any();
            kani::assert(a.len() == $n, "C19.const_default(large N): N elements");
            if i < $n {
                kani::assert(a[i] == Two::DEFAULT, "C19.const_default(large N): element i is T::DEFAULT for every i (no slot skipped or counted twice)");
            }
            kani::cover!(true, "end reachable");
        }
    };
}

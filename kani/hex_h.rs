// @file host=src/hex.rs mod=verif_hex
//! Engine-K contracts for hex formatting (C14): `{:x}` / `{:X}` / `{:.*x}` through the real `core::fmt` machinery into
//! a byte sink, for symbolic bytes and a symbolic precision.  Oracle (from the statement): character k of the output
//! is the hex digit of nibble k of the array (high nibble first), and there are exactly min(p, 2N) characters.
#![allow(unused_imports, unused_mut, unused_variables, static_mut_refs, dead_code, arithmetic_overflow, unconditional_panic, unused_comparisons)]

use super::*;
use core::fmt::Write;
use typenum::consts::*;

pub(crate) struct Sink<const C: usize> {
    pub buf: [u8; C],
    pub len: usize,
    pub writes: usize,
}
impl<const C: usize> fmt::Write for Sink<C> {
    fn write_str(&mut self, s: &str) -> fmt::Result {
        self.writes += 1;
        let b = s.as_bytes();
        let mut i = 0;
        while i < b.len() {
            if self.len < C {
                self.buf[self.len] = b[i];
            }
            self.len += 1;
            i += 1;
        }
        Ok(())
    }
}

fn digit(n: u8, upper: bool) -> u8 {
    if n < 10 {
        b'0' + n
    } else if upper {
        b'A' + n - 10
    } else {
        b'a' + n - 10
    }
}

// @gen macro=hex_h name=c14_hex props=C14 quick=U0,0,8;U1,1,8;U2,2,8;U4,4,12 thorough=U3,3,12;U15,15,36;U16,16,36;U17,17,40
macro_rules! hex_h {
    ($name:ident, $N:ty, $n:expr, $cap:expr) => {
        #[kani::proof]
        #[kani::unwind(48)]
        fn $name() {
            let bytes: [u8; $n] = kani::any();
            let arr: GenericArray<u8, $N> = GenericArray::from_array(bytes);
            let upper: bool = kani::any();
            let with_precision: bool = kani::any();
            let p: usize = kani::any();
            kani::assume(p <= 2 * $n + 2);
            let mut s = Sink::<$cap> { buf: [0; $cap], len: 0, writes: 0 };
            let r = match (upper, with_precision) {
                (false, false) => write!(s, "{:x}", arr),
                (true, false) => write!(s, "{:X}", arr),
                (false, true) => write!(s, "{:.*x}", p, arr),
                (true, true) => write!(s, "{:.*X}", p, arr),
            };
            kani::assert(r.is_ok(), "C14.hex: formatting into a working sink succeeds");
            let want = if with_precision && p < 2 * $n { p } else { 2 * $n };
            kani::assert(s.len == want, "C14.hex: exactly min(p, 2N) characters and nothing else");
            let k: usize = kani::any();
            if k < want {
                let byte = bytes[k / 2];
                let nib = if k % 2 == 0 { byte >> 4 } else { byte & 0xf };
                kani::assert(s.buf[k] == digit(nib, upper), "C14.hex: character k is the digit of nibble k (high nibble first), in the requested case");
            }
            kani::cover!(true, "end reachable");
        }
    };
}

// ---------------------------------------------------------------------------------------------------------------
// feature faster-hex: the SIMD encoder is an external dependency whose bodies (CPUID, intrinsics) Kani cannot
// execute.  It is replaced by its ASSUMED contract: requires dst.len() >= 2*src.len() (so the `unwrap_unchecked`
// in hex_encode is never reached with an Err), then writes the table encoding.
// ---------------------------------------------------------------------------------------------------------------
#[cfg(feature = "faster-hex")]
pub fn fh_contract_lower<'a>(src: &[u8], dst: &'a mut [u8]) -> Result<&'a mut str, faster_hex::Error> {
    fh_contract(src, dst, false)
}
#[cfg(feature = "faster-hex")]
pub fn fh_contract_upper<'a>(src: &[u8], dst: &'a mut [u8]) -> Result<&'a mut str, faster_hex::Error> {
    fh_contract(src, dst, true)
}
#[cfg(feature = "faster-hex")]
fn fh_contract<'a>(src: &[u8], dst: &'a mut [u8], upper: bool) -> Result<&'a mut str, faster_hex::Error> {
    kani::assert(dst.len() >= 2 * src.len(), "C14.faster-hex: the dependency's precondition dst.len() >= 2*src.len() holds (unwrap_unchecked never sees Err)");
    let mut i = 0;
    while i < src.len() {
        dst[2 * i] = digit(src[i] >> 4, upper);
        dst[2 * i + 1] = digit(src[i] & 0xf, upper);
        i += 1;
    }
    let n = 2 * src.len();
    Ok(unsafe { core::str::from_utf8_unchecked_mut(&mut dst[..n]) })
}

// @gen macro=hex_fh name=c14_hex_fasterhex props=C14 features=faster-hex flags=-Z+stubbing quick=U1,1,8;U16,16,36 thorough=U15,15,36;U17,17,40
macro_rules! hex_fh {
    ($name:ident, $N:ty, $n:expr, $cap:expr) => {
        #[cfg(feature = "faster-hex")]
        #[kani::proof]
        #[kani::unwind(48)]
        #[kani::stub(faster_hex::hex_encode, fh_contract_lower)]
        #[kani::stub(faster_hex::hex_encode_upper, fh_contract_upper)]
        fn $name() {
            let bytes: [u8; $n] = kani::any();
            let arr: GenericArray<u8, $N> = GenericArray::from_array(bytes);
            let upper: bool = kani::any();
            let p: usize = kani::any();
            kani::assume(p <= 2 * $n + 2);
            let mut s = Sink::<$cap> { buf: [0; $cap], len: 0, writes: 0 };
            let r = if upper { write!(s, "{:.*X}", p, arr) } else { write!(s, "{:.*x}", p, arr) };
            kani::assert(r.is_ok(), "C14.hex(faster-hex): formatting succeeds");
            let want = if p < 2 * $n { p } else { 2 * $n };
            kani::assert(s.len == want, "C14.hex(faster-hex): exactly min(p, 2N) characters");
            let k: usize = kani::any();
            if k < want {
                let byte = bytes[k / 2];
                let nib = if k % 2 == 0 { byte >> 4 } else { byte & 0xf };
                kani::assert(s.buf[k] == digit(nib, upper), "C14.hex(faster-hex): same output as without the feature: digit of nibble k in the requested case");
            }
            kani::cover!(true, "end reachable");
        }
    };
}

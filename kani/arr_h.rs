// @file host=src/lib.rs mod=verif_arr compileverdict=C20
//! Engine-K obligations for the arr! / box_arr! macros (C20).  What is PROVED is the functions the expansions call
//! (from_array, const_transmute: views_h.rs / layout_h.rs; try_from_vec, __from_vec_helper: alloc_h.rs and below);
//! macro expansion itself is outside any contract language, so the expansions are ENUMERATED: one generated
//! invocation per element count, with side-effecting element expressions and symbolic values.
#![allow(unused_imports, unused_mut, unused_variables, static_mut_refs, dead_code, arithmetic_overflow, unconditional_panic, unused_comparisons)]

use super::*;
use crate::verif_support::*;

fn type_len<T, N: ArrayLength>(_: &GenericArray<T, N>) -> usize {
    N::USIZE
}

// arr![e0, .., ek]: length from the element count, values in order, each expression evaluated exactly once, left to right
// @gen macro=arr_list name=c20_arr_list props=C20 quick=[],0;[x],1;[x,x],2;[x,x,x],3;[x,x,x,x],4;[x,x,x,x,x],5;[x,x,x,x,x,x],6;[x,x,x,x,x,x,x],7;[x,x,x,x,x,x,x,x],8;[x,x,x,x,x,x,x,x,x,x,x,x],12;[x,x,x,x,x,x,x,x,x,x,x,x,x,x,x,x,x,x,x,x,x,x,x,x,x,x,x,x,x,x,x,x,x],33;[x,x,x,x,x,x,x,x,x,x,x,x,x,x,x,x,x,x,x,x,x,x,x,x,x,x,x,x,x,x,x,x,x,x,x,x,x,x,x,x,x,x,x,x,x,x,x,x,x,x,x,x,x,x,x,x,x,x,x,x,x,x,x,x],64 thorough=[x,x,x,x,x,x,x,x,x],9;[x,x,x,x,x,x,x,x,x,x],10;[x,x,x,x,x,x,x,x,x,x,x],11;[x,x,x,x,x,x,x,x,x,x,x,x,x],13;[x,x,x,x,x,x,x,x,x,x,x,x,x,x,x,x],16;[x,x,x,x,x,x,x,x,x,x,x,x,x,x,x,x,x],17;[x,x,x,x,x,x,x,x,x,x,x,x,x,x,x,x,x,x,x,x,x,x,x,x,x,x,x,x,x,x,x],31;[x,x,x,x,x,x,x,x,x,x,x,x,x,x,x,x,x,x,x,x,x,x,x,x,x,x,x,x,x,x,x,x],32;[x,x,x,x,x,x,x,x,x,x,x,x,x,x,x,x,x,x,x,x,x,x,x,x,x,x,x,x,x,x,x,x,x,x,x,x,x,x,x,x,x,x,x,x,x,x,x,x,x,x,x,x,x,x,x,x,x,x,x,x,x,x,x],63;[x,x,x,x,x,x,x,x,x,x,x,x,x,x,x,x,x,x,x,x,x,x,x,x,x,x,x,x,x,x,x,x,x,x,x,x,x,x,x,x,x,x,x,x,x,x,x,x,x,x,x,x,x,x,x,x,x,x,x,x,x,x,x,x,x,x,x,x,x,x,x,x,x,x,x,x,x,x,x,x,x,x,x,x,x,x,x,x,x,x,x,x,x,x,x,x,x,x,x,x],100;[x,x,x,x,x,x,x,x,x,x,x,x,x,x,x,x,x,x,x,x,x,x,x,x,x,x,x,x,x,x,x,x,x,x,x,x,x,x,x,x,x,x,x,x,x,x,x,x,x,x,x,x,x,x,x,x,x,x,x,x,x,x,x,x,x,x,x,x,x,x,x,x,x,x,x,x,x,x,x,x,x,x,x,x,x,x,x,x,x,x,x,x,x,x,x,x,x,x,x,x,x,x,x,x,x,x,x,x,x,x,x,x,x,x,x,x,x,x,x,x,x,x,x,x,x,x,x,x],128;[x,x,x,x,x,x,x,x,x,x,x,x,x,x,x,x,x,x,x,x,x,x,x,x,x,x,x,x,x,x,x,x,x,x,x,x,x,x,x,x,x,x,x,x,x,x,x,x,x,x,x,x,x,x,x,x,x,x,x,x,x,x,x,x,x,x,x,x,x,x,x,x,x,x,x,x,x,x,x,x,x,x,x,x,x,x,x,x,x,x,x,x,x,x,x,x,x,x,x,x,x,x,x,x,x,x,x,x,x,x,x,x,x,x,x,x,x,x,x,x,x,x,x,x,x,x,x,x,x,x,x,x,x,x,x,x,x,x,x,x,x,x,x,x,x,x,x,x,x,x,x,x,x,x,x,x,x,x,x,x,x,x,x,x,x,x,x,x,x,x,x,x,x,x,x,x,x,x,x,x,x,x,x,x,x,x,x,x,x,x,x,x,x,x,x,x,x,x,x,x,x,x,x,x,x,x,x,x,x,x,x,x,x,x,x,x,x,x,x,x,x,x,x,x,x,x,x,x,x,x,x,x,x,x,x,x,x,x,x,x,x,x,x,x,x,x,x,x,x,x,x,x,x,x,x],255;[x,x,x,x,x,x,x,x,x,x,x,x,x,x,x,x,x,x,x,x,x,x,x,x,x,x,x,x,x,x,x,x,x,x,x,x,x,x,x,x,x,x,x,x,x,x,x,x,x,x,x,x,x,x,x,x,x,x,x,x,x,x,x,x,x,x,x,x,x,x,x,x,x,x,x,x,x,x,x,x,x,x,x,x,x,x,x,x,x,x,x,x,x,x,x,x,x,x,x,x,x,x,x,x,x,x,x,x,x,x,x,x,x,x,x,x,x,x,x,x,x,x,x,x,x,x,x,x,x,x,x,x,x,x,x,x,x,x,x,x,x,x,x,x,x,x,x,x,x,x,x,x,x,x,x,x,x,x,x,x,x,x,x,x,x,x,x,x,x,x,x,x,x,x,x,x,x,x,x,x,x,x,x,x,x,x,x,x,x,x,x,x,x,x,x,x,x,x,x,x,x,x,x,x,x,x,x,x,x,x,x,x,x,x,x,x,x,x,x,x,x,x,x,x,x,x,x,x,x,x,x,x,x,x,x,x,x,x,x,x,x,x,x,x,x,x,x,x,x,x,x,x,x,x,x,x],256
macro_rules! arr_list {
    ($name:ident, [$($x:tt),*], $n:expr) => {
        #[kani::proof]
        #[kani::unwind(260)]
        fn $name() {
            let base: u32 = kani::any();
            kani::assume(base < 1000);
            let mut c: usize = 0;
            let a: GenericArray<u32, _> = arr![$({ let _ = stringify!($x); let v = c; c += 1; base + v as u32 }),*];
            let native: [u32; $n] = core::array::from_fn(|k| base + k as u32);
            kani::assert(type_len(&a) == $n && a.len() == $n, "C20.arr![list]: the length type is inferred from the element count");
            kani::assert(c == $n, "C20.arr![list]: each element expression is evaluated exactly once");
            let i: usize = kani::any();
            if i < $n {
                kani::assert(a[i] == native[i], "C20.arr![list]: holds the values of e0..ek in order (evaluated left to right)");
            }
            kani::cover!(true, "end reachable");
        }
    };
}

// trailing commas, the empty list, non-Copy elements, const position
// @harness name=c20_arr_forms props=C20,C18 tier=quick scope=enumerated(forms)
#[kani::proof]
#[kani::unwind(50)]
fn c20_arr_forms() {
    let e0: GenericArray<u8, U0> = arr![];
    let e1: GenericArray<u8, U0> = arr![,];
    kani::assert(e0.len() == 0 && e1.len() == 0, "C20.arr![]: the empty list (with or without a comma) is the empty array");
    let v: u16 = kani::any();
    let t1 = arr![v,];
    let t3 = arr![v, 2, 3,];
    kani::assert(type_len(&t1) == 1 && t1[0] == v && type_len(&t3) == 3 && t3[0] == v && t3[2] == 3, "C20.arr![list,]: a trailing comma changes nothing");
    // elements without Copy: moved in, each once
    let d = arr![mk(0), mk(1), mk(2)];
    kani::assert(type_len(&d) == 3 && d[0].0 == 0 && d[1].0 == 1 && d[2].0 == 2 && unsafe { DROPS } == 0, "C20.arr![list](non-Copy): every value moved to its position, none dropped");
    drop(d);
    kani::assert(unsafe { DROPS } == 3 && all_dead(0, 3), "C20.arr![list](non-Copy): the array then drops each element once");
    // const position (evaluated by rustc's const evaluator) agrees with run time
    const C3: GenericArray<u32, U3> = arr![10, 20, 30];
    const CR: GenericArray<u8, U5> = arr![7; U5];
    const CN: GenericArray<u8, U4> = arr![9; 4];
    const CE: GenericArray<u32, U0> = arr![];
    let r3 = arr![10u32, 20, 30];
    kani::assert(C3 == r3 && C3[0] == 10 && C3[2] == 30 && CE.len() == 0, "C20.arr!(const): same value in const position as at run time");
    let i: usize = kani::any();
    if i < 5 {
        kani::assert(CR[i] == 7, "C20.arr![x; N](const): N copies");
    }
    if i < 4 {
        kani::assert(CN[i] == 9, "C20.arr![x; n](const): n copies");
    }
    // type-level lengths typenum does not name (operator-built) and every form inside a const fn
    type L1027 = typenum::Sum<U1024, U3>;
    type L1600 = typenum::Prod<U40, U40>;
    let big = arr![v; L1027];
    let big2 = arr![1u8; L1600];
    kani::assert(type_len(&big) == 1027 && type_len(&big2) == 1600 && big[1026] == v && big2[1599] == 1, "C20.arr![x; N]: any type-level length, not only those typenum names");
    const fn in_const_fn() -> (GenericArray<u8, U3>, GenericArray<u8, U2>, GenericArray<u8, U4>) {
        (arr![1, 2, 3], arr![5; U2], arr![6; 4])
    }
    const K: (GenericArray<u8, U3>, GenericArray<u8, U2>, GenericArray<u8, U4>) = in_const_fn();
    kani::assert(K.0[2] == 3 && K.1[1] == 5 && K.2[3] == 6, "C20.arr!(const fn): all three forms work in a const fn");
    static S: GenericArray<u16, U3> = arr![7; 3];
    kani::assert(S[2] == 7, "C20.arr!(static): the repeat form works in a static");
    kani::cover!(true, "end reachable");
}

// arr![x; N] with a type-level length and arr![x; n] with a constant: N copies of x
// @gen macro=arr_repeat name=c20_arr_repeat props=C20 quick=U0,0;U1,1;U5,5;U16,16;U255,255;U256,256;U300,300 thorough=U2,2;U64,64;U511,511;U512,512
macro_rules! arr_repeat {
    ($name:ident, $N:ty, $n:expr) => {
        #[kani::proof]
        #[kani::unwind(8)]
        fn $name() {
            let x: u16 = kani::any();
            let a = arr![x; $N];
            let b = arr![x; $n];
            kani::assert(type_len(&a) == $n && type_len(&b) == $n, "C20.arr![x; N]: has exactly N elements (type-level and constant form agree)");
            let i: usize = kani::any();
            if i < $n {
                kani::assert(a[i] == x && b[i] == x, "C20.arr![x; N]: every element is a copy of x");
            }
            kani::cover!(true, "end reachable");
        }
    };
}

// box_arr! with the same arguments yields a Box holding an equal array (feature alloc)
// @gen macro=box_list name=c20_box_arr_list props=C20 features=alloc quick=[],0;[x],1;[x,x,x],3;[x,x,x,x,x,x,x,x],8;[x,x,x,x,x,x,x,x,x,x,x,x,x,x,x,x,x,x,x,x,x,x,x,x,x,x,x,x,x,x,x,x,x],33 thorough=[x,x],2;[x,x,x,x,x],5;[x,x,x,x,x,x,x,x,x,x,x,x,x,x,x,x,x,x,x,x,x,x,x,x,x,x,x,x,x,x,x,x,x,x,x,x,x,x,x,x,x,x,x,x,x,x,x,x,x,x,x,x,x,x,x,x,x,x,x,x,x,x,x,x],64;[x,x,x,x,x,x,x,x,x,x,x,x,x,x,x,x,x,x,x,x,x,x,x,x,x,x,x,x,x,x,x,x,x,x,x,x,x,x,x,x,x,x,x,x,x,x,x,x,x,x,x,x,x,x,x,x,x,x,x,x,x,x,x,x,x,x,x,x,x,x,x,x,x,x,x,x,x,x,x,x,x,x,x,x,x,x,x,x,x,x,x,x,x,x,x,x,x,x,x,x],100
macro_rules! box_list {
    ($name:ident, [$($x:tt),*], $n:expr) => {
        #[cfg(feature = "alloc")]
        #[kani::proof]
        #[kani::unwind(110)]
        fn $name() {
            let base: u32 = kani::any();
            kani::assume(base < 1000);
            let mut c: usize = 0;
            let b: alloc::boxed::Box<GenericArray<u32, _>> = box_arr![$({ let _ = stringify!($x); let v = c; c += 1; base + v as u32 }),*];
            let mut c2: usize = 0;
            let a: GenericArray<u32, _> = arr![$({ let _ = stringify!($x); let v = c2; c2 += 1; base + v as u32 }),*];
            kani::assert(c == $n, "C20.box_arr![list]: each element expression is evaluated exactly once");
            kani::assert(type_len(&*b) == $n, "C20.box_arr![list]: the length type is inferred from the element count");
            let i: usize = kani::any();
            if i < $n {
                kani::assert(b[i] == a[i], "C20.box_arr![list]: the Box holds an array equal to arr! with the same arguments");
            }
            kani::cover!(true, "end reachable");
        }
    };
}

/// no drop glue, Clone but NOT Copy, with an observable clone: `box_arr![x; N]` must build its N values with Clone::clone
/// (x itself may be moved into one slot), never by copying bits
#[cfg(feature = "alloc")]
pub struct Cq(pub u32);
#[cfg(feature = "alloc")]
pub static mut CQ_CLONES: usize = 0;
#[cfg(feature = "alloc")]
impl Clone for Cq {
    fn clone(&self) -> Cq {
        unsafe { CQ_CLONES += 1 };
        Cq(self.0 ^ 0x5a5a)
    }
}

// @gen macro=box_repeat_clone name=c20_box_arr_repeat_clone props=C20 features=alloc quick=U0,0;U1,1;U3,3;U8,8 thorough=U2,2;U16,16
macro_rules! box_repeat_clone {
    ($name:ident, $N:ty, $n:expr) => {
        #[cfg(feature = "alloc")]
        #[kani::proof]
        #[kani::unwind(20)]
        fn $name() {
            let v: u32 = kani::any();
            let mut evals = 0usize;
            let a = box_arr![{ evals += 1; Cq(v) }; $N];
            let clones_a = unsafe { CQ_CLONES };
            let b = box_arr![Cq(v); $n];
            let clones_b = unsafe { CQ_CLONES } - clones_a;
            kani::assert(evals == 1, "C20.box_arr![x; N] (Clone, not Copy): x is evaluated exactly once");
            kani::assert(type_len(&*a) == $n && type_len(&*b) == $n, "C20.box_arr![x; N] (Clone, not Copy): exactly N elements");
            kani::assert(clones_a + 1 >= $n && clones_a <= $n && clones_b + 1 >= $n && clones_b <= $n, "C20.box_arr![x; N] (Clone, not Copy): the N values are made by Clone::clone (x itself may fill one slot), not by copying bits");
            let i: usize = kani::any();
            if i < $n {
                kani::assert((a[i].0 == v || a[i].0 == v ^ 0x5a5a) && (b[i].0 == v || b[i].0 == v ^ 0x5a5a), "C20.box_arr![x; N] (Clone, not Copy): every element is x or a clone of x");
            }
            kani::cover!(true, "end reachable");
        }
    };
}

// @gen macro=box_repeat name=c20_box_arr_repeat props=C20 features=alloc quick=U0,0;U3,3;U16,16 thorough=U1,1;U64,64;U256,256
macro_rules! box_repeat {
    ($name:ident, $N:ty, $n:expr) => {
        #[cfg(feature = "alloc")]
        #[kani::proof]
        #[kani::unwind(260)]
        fn $name() {
            let x: u16 = kani::any();
            let a = box_arr![x; $N];
            let b = box_arr![x; $n];
            kani::assert(type_len(&*a) == $n && type_len(&*b) == $n, "C20.box_arr![x; N]: has exactly N elements (type-level and constant form agree)");
            let i: usize = kani::any();
            if i < $n {
                kani::assert(a[i] == x && b[i] == x, "C20.box_arr![x; N]: every element is a copy of x");
            }
            let e: alloc::boxed::Box<GenericArray<u8, U0>> = box_arr![];
            kani::assert(e.len() == 0, "C20.box_arr![]: the empty list");
            let t = box_arr![x, 2,];
            kani::assert(type_len(&*t) == 2 && t[0] == x && t[1] == 2, "C20.box_arr![list,]: a trailing comma changes nothing");
            kani::cover!(true, "end reachable");
        }
    };
}

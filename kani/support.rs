// @file host=src/lib.rs mod=verif_support always=1
//! Shared vocabulary of the engine-K harnesses (DESIGN.md §3): the drop ledger, the drop-tracked element types,
//! the unwind monitor and the destructor monitor.  Compiled only under cfg(kani), into a scratch copy of the crate.
#![allow(dead_code, static_mut_refs, unused_imports)]

pub use core::mem::ManuallyDrop;
pub use typenum::consts::*;

/// Number of ledger ids.
pub const M: usize = 48;
/// 1 = the value with this id exists and has not been dropped; 0 = never created, or dropped.
pub static mut LIVE: [u8; M] = [0; M];
/// Total number of destructor runs of `D` values.
pub static mut DROPS: usize = 0;
/// Total number of `Clone::clone` calls on `D` values.
pub static mut CLONES: usize = 0;
/// Ids handed out by `D::clone` are `id + CLONE_OFF`.
pub const CLONE_OFF: usize = 16;

/// Destructor monitor (C05).  While armed, every `D` destructor run is taken to happen on a slot of a by-value
/// iterator's array (the harness arms it only around iterator methods): slot k holds id `WATCH_BASE + k`, so from
/// the address of the value being dropped the monitor finds the enclosing `GenericArrayIter` - wherever it has been
/// moved to - through the field offsets the harness measured with `offset_of!`, and reads its *current* indices.
pub static mut WATCH_ARMED: bool = false;
pub static mut WATCH_BASE: usize = 0;
/// offsets of (array, index, index_back) inside GenericArrayIter<D, N>
pub static mut WATCH_OFF: (usize, usize, usize) = (0, 0, 0);
/// > 0 while the iterator's own `Drop::drop` runs (injected scope marker): the guard is already being destroyed and
/// is never dropped again, so its indices no longer matter.
pub static mut IN_ITER_DROP: usize = 0;

pub struct IterDropScope;
impl IterDropScope {
    pub fn enter() -> Self {
        unsafe { IN_ITER_DROP += 1 };
        IterDropScope
    }
}
impl Drop for IterDropScope {
    fn drop(&mut self) {
        unsafe { IN_ITER_DROP -= 1 };
    }
}

pub fn arm_dtor_monitor(base_id: usize, off_array: usize, off_index: usize, off_back: usize) {
    unsafe {
        WATCH_BASE = base_id;
        WATCH_OFF = (off_array, off_index, off_back);
        WATCH_ARMED = true;
    }
}
pub fn disarm_dtor_monitor() {
    unsafe { WATCH_ARMED = false };
}

/// 8-byte drop-tracked element.
pub struct D(pub usize);

impl Drop for D {
    fn drop(&mut self) {
        unsafe {
            kani::assert(self.0 < M, "ledger: a dropped value carries a valid id (else: uninitialised or foreign slot dropped)");
            kani::assert(LIVE[self.0] == 1, "ledger: every element is dropped at most once (else: double drop / drop of a moved-out slot)");
            LIVE[self.0] = 0;
            DROPS += 1;
            if WATCH_ARMED && IN_ITER_DROP == 0 && self.0 >= WATCH_BASE {
                // A destructor may unwind.  The landing pad runs the iterator's own Drop with the *current* indices,
                // so the slot being dropped right now must already be outside [index, index_back).
                let k = self.0 - WATCH_BASE;
                let it = (self as *const D as *const u8).sub(k * core::mem::size_of::<D>() + WATCH_OFF.0);
                let i = *(it.add(WATCH_OFF.1) as *const usize);
                let b = *(it.add(WATCH_OFF.2) as *const usize);
                kani::assert(!(i <= k && k < b), "unwind@drop_in_place: slot being dropped is already outside the iterator's live range");
            }
        }
    }
}

pub fn mk(id: usize) -> D {
    unsafe {
        kani::assert(id < M && LIVE[id] == 0, "ledger: fresh id");
        LIVE[id] = 1;
    }
    D(id)
}

impl Clone for D {
    fn clone(&self) -> D {
        unsafe {
            CLONES += 1;
            kani::assert(LIVE[self.0] == 1, "ledger: clone reads a live element");
            clone_hook(self.0);
        }
        mk(self.0 + CLONE_OFF)
    }
}

/// Set by a harness: called at every `D::clone`, i.e. at every point where a caller-supplied `Clone` may panic.
pub static mut CLONE_HOOK: Option<fn(usize)> = None;
unsafe fn clone_hook(id: usize) {
    if let Some(f) = CLONE_HOOK {
        f(id)
    }
}

pub fn live(id: usize) -> bool {
    unsafe { LIVE[id] == 1 }
}

pub fn live_count_below(m: usize) -> usize {
    let mut n = 0;
    let mut i = 0;
    while i < m {
        if unsafe { LIVE[i] } == 1 {
            n += 1;
        }
        i += 1;
    }
    n
}

/// All ids in `lo..hi` are dead.
pub fn all_dead(lo: usize, hi: usize) -> bool {
    let mut i = lo;
    let mut ok = true;
    while i < hi {
        if unsafe { LIVE[i] } != 0 {
            ok = false;
        }
        i += 1;
    }
    ok
}

/// No id at all is live (word-wise, so the loop has M/8 iterations).
pub fn none_live() -> bool {
    let p = unsafe { core::ptr::addr_of!(LIVE) } as *const u64;
    let mut k = 0;
    let mut ok = true;
    while k < M / 8 {
        if unsafe { p.add(k).read_unaligned() } != 0 {
            ok = false;
        }
        k += 1;
    }
    ok
}

pub fn all_live(lo: usize, hi: usize) -> bool {
    let mut i = lo;
    let mut ok = true;
    while i < hi {
        if unsafe { LIVE[i] } != 1 {
            ok = false;
        }
        i += 1;
    }
    ok
}

/// Drop-tracked zero-sized element: the ledger is a counter.
pub static mut LIVE_Z: usize = 0;
pub static mut DROPS_Z: usize = 0;
pub struct Dz;
impl Drop for Dz {
    fn drop(&mut self) {
        unsafe {
            kani::assert(LIVE_Z > 0, "ledger(zst): no more drops than values created");
            LIVE_Z -= 1;
            DROPS_Z += 1;
        }
    }
}
pub fn mkz() -> Dz {
    unsafe {
        LIVE_Z += 1;
    }
    Dz
}

// ------------------------------------------------------------------------------------------------------------------
// Unwind monitor (C04): the injected registrations in src/internal.rs publish the address of each guard's `position`.
// ------------------------------------------------------------------------------------------------------------------
pub static mut CONS: [*const usize; 4] = [core::ptr::null(); 4];
pub static mut NCONS: usize = 0;
pub static mut BUILD: [*const usize; 4] = [core::ptr::null(); 4];
pub static mut NBUILD: usize = 0;

pub fn reg_consumer(p: *const usize) {
    unsafe {
        if NCONS < 4 {
            CONS[NCONS] = p;
        }
        NCONS += 1;
    }
}
pub fn reg_builder(p: *const usize) {
    unsafe {
        if NBUILD < 4 {
            BUILD[NBUILD] = p;
        }
        NBUILD += 1;
    }
}
/// true once `finish()` has forgotten the builder registered at this address (it no longer guards anything)
pub static mut BUILD_FIN: [bool; 4] = [false; 4];
pub fn fin_builder(p: *const usize) {
    unsafe {
        let mut k = 0;
        while k < 4 {
            if k < NBUILD && BUILD[k] == p {
                BUILD_FIN[k] = true;
            }
            k += 1;
        }
    }
}
/// compile-time twin of `fin_builder` for const evaluation of `finish` (const_eval_select)
pub const fn fin_builder_ct(_p: *const usize) {}
pub fn builder_finished(k: usize) -> bool {
    unsafe { BUILD_FIN[k] }
}
pub fn reset_monitor() {
    unsafe {
        NCONS = 0;
        NBUILD = 0;
        BUILD_FIN = [false; 4];
    }
}
pub fn consumer_pos(k: usize) -> usize {
    unsafe { *CONS[k] }
}
pub fn builder_pos(k: usize) -> usize {
    unsafe { *BUILD[k] }
}
pub fn n_consumers() -> usize {
    unsafe { NCONS }
}
pub fn n_builders() -> usize {
    unsafe { NBUILD }
}

/// A plain 24-byte element with padding-free content.
#[derive(Clone, Copy, PartialEq, Eq, Debug)]
pub struct W24(pub u64, pub u64, pub u64);

/// A padded element: size 4, align 2, one padding byte.
#[derive(Clone, Copy, PartialEq, Eq, Debug)]
pub struct Pad(pub u8, pub u16);

#[repr(align(64))]
#[derive(Clone, Copy, PartialEq, Eq, Debug)]
pub struct A64;

#[repr(align(16))]
#[derive(Clone, Copy, PartialEq, Eq, Debug)]
pub struct A16(pub u8);

#[repr(packed)]
#[derive(Clone, Copy)]
pub struct Packed(pub u8, pub u32);

impl kani::Arbitrary for Pad {
    fn any() -> Self {
        Pad(kani::any(), kani::any())
    }
}
impl kani::Arbitrary for W24 {
    fn any() -> Self {
        W24(kani::any(), kani::any(), kani::any())
    }
}

// @file host=src/lib.rs mod=verif_func needs=mon
//! Engine-K contracts for construction and the functional operations: try_from_iter / from_iter (C07),
//! generate / map / zip / fold / Clone / Default (C08), with the drop ledger (C03) and the unwind monitor (C04).
//! Oracles come from the property statements: the call log `0, 1, .., N-1`, result i at index i, the accounting
//! "built prefix + unconsumed inputs + values handed to the closure = all elements, each once".
#![allow(unused_imports, unused_mut, unused_variables, static_mut_refs, dead_code, arithmetic_overflow, unconditional_panic, unused_comparisons)]

use super::*;
use crate::verif_support::*;

/// ids of produced results
pub const OUT: usize = 32;
/// ids of the second operand
pub const RHS: usize = 8;

fn arr_d<N: ArrayLength, const K: usize>(base: usize) -> GenericArray<D, N>
where
    Const<K>: IntoArrayLength<ArrayLength = N>,
{
    GenericArray::from_array(core::array::from_fn::<D, K, _>(|i| mk(base + i)))
}

// ---------------------------------------------------------------------------------------------------------------
// C07: collecting from an arbitrary scripted source
// ---------------------------------------------------------------------------------------------------------------

/// A source iterator whose behaviour is completely symbolic: `script[k]` says whether poll k yields an item (so
/// it need not be fused), the size hint is arbitrary (truthful, loose, absent or lying).  It records how it was used.
pub struct Src<const K: usize> {
    pub script: [bool; K],
    pub pos: usize,
    pub polls: usize,
    pub yielded: usize,
    pub ended: bool,
    pub polled_after_none: bool,
    pub lo: usize,
    pub hi: Option<usize>,
    /// unwind monitor: when true, every poll checks the guard state a landing pad would see
    pub monitor: bool,
}

impl<const K: usize> Src<K> {
    pub fn any() -> Self {
        Src { script: kani::any(), pos: 0, polls: 0, yielded: 0, ended: false, polled_after_none: false, lo: kani::any(), hi: kani::any(), monitor: true }
    }
    /// number of items produced before the source first ends
    pub fn leading(&self) -> usize {
        let mut n = 0;
        while n < K && self.script[n] {
            n += 1;
        }
        n
    }
}

impl<const K: usize> Iterator for Src<K> {
    type Item = D;
    fn next(&mut self) -> Option<D> {
        if self.ended {
            self.polled_after_none = true;
        }
        self.polls += 1;
        if self.monitor && n_builders() >= 1 {
            // C04: `next` is caller-supplied code and may panic.  Everything yielded so far must be owned by the builder.
            kani::assert(n_builders() == 1, "C04.try_from_iter: exactly one builder guards the output");
            kani::assert(!builder_finished(0), "C04.try_from_iter unwind@next(): the builder still guards the collected items while the source is polled");
            kani::assert(builder_pos(0) == self.yielded, "C04.try_from_iter unwind@next(): builder position equals the number of items collected so far");
        }
        let y = self.pos < K && self.script[self.pos];
        self.pos += 1;
        if y {
            let d = mk(self.yielded);
            self.yielded += 1;
            Some(d)
        } else {
            self.ended = true;
            None
        }
    }
    fn size_hint(&self) -> (usize, Option<usize>) {
        (self.lo, self.hi)
    }
}

// @gen macro=tfi name=c07_try_from_iter props=C03,C04,C07 quick=U0,0,3;U1,1,4;U3,3,6 thorough=U2,2,5;U4,4,7;U5,5,8
macro_rules! tfi {
    ($name:ident, $N:ty, $n:expr, $k:expr) => {
        #[kani::proof]
        #[kani::unwind(12)]
        fn $name() {
            let mut src = Src::<$k>::any();
            let leading = src.leading();
            let ends_after_n = leading == $n; // produced exactly N items, then ended
            let hint_rules_out = src.lo > $n || matches!(src.hi, Some(h) if h < $n);
            let truthful = src.lo <= leading && !matches!(src.hi, Some(h) if h < leading);
            reset_monitor();
            let r = GenericArray::<D, $N>::try_from_iter(&mut src);
            kani::assert(src.polls <= $n + 1, "C07.try_from_iter: pulls at most N + 1 items");
            kani::assert(!src.polled_after_none, "C07.try_from_iter: never polls the source again after it returned None");
            match r {
                Ok(a) => {
                    kani::assert(ends_after_n, "C07.try_from_iter: Ok only if the source produced exactly N items before ending");
                    kani::assert(!hint_rules_out, "C07.try_from_iter: Ok never when the size hint already rules N out");
                    let i: usize = kani::any();
                    if i < $n {
                        kani::assert(a[i].0 == i, "C07.try_from_iter: element i is the i-th item produced");
                    }
                    kani::assert(unsafe { DROPS } == 0 && all_live(0, $n), "C03.try_from_iter: on Ok every item lives in the array, none dropped");
                    drop(a);
                }
                Err(_) => {
                    kani::assert(!ends_after_n || hint_rules_out, "C07.try_from_iter: LengthError only for a wrong count or a size hint that rules N out");
                    kani::assert(!(truthful && ends_after_n), "C07.try_from_iter: a truthful source with exactly N items is accepted");
                }
            }
            kani::assert(unsafe { DROPS } == src.yielded && all_dead(0, $k), "C07.try_from_iter: every item pulled is dropped exactly once");
            kani::cover!(true, "end reachable");
        }
    };
}

// from_iter / collect: returns exactly when try_from_iter would be Ok ...
// @gen macro=from_iter_ok name=c07_from_iter_ok props=C07 quick=U0,0,3;U3,3,6 thorough=U1,1,4;U5,5,8
macro_rules! from_iter_ok {
    ($name:ident, $N:ty, $n:expr, $k:expr) => {
        #[kani::proof]
        #[kani::unwind(12)]
        fn $name() {
            let mut src = Src::<$k>::any();
            let hint_rules_out = src.lo > $n || matches!(src.hi, Some(h) if h < $n);
            kani::assume(src.leading() == $n && !hint_rules_out);
            reset_monitor();
            let a: GenericArray<D, $N> = (&mut src).collect();
            let i: usize = kani::any();
            if i < $n {
                kani::assert(a[i].0 == i, "C07.from_iter: element i is the i-th item produced");
            }
            kani::assert(src.polls <= $n + 1 && !src.polled_after_none, "C07.from_iter: at most N + 1 polls, none after None");
            kani::cover!(true, "end reachable");
        }
    };
}

// ... and panics in every other case
// @gen macro=from_iter_panics name=c07_from_iter_panics props=C07 expect=panic quick=U0,0,3;U3,3,6 thorough=U1,1,4;U5,5,8
macro_rules! from_iter_panics {
    ($name:ident, $N:ty, $n:expr, $k:expr) => {
        #[kani::proof]
        #[kani::should_panic]
        #[kani::unwind(12)]
        fn $name() {
            let mut src = Src::<$k>::any();
            src.monitor = false;
            let hint_rules_out = src.lo > $n || matches!(src.hi, Some(h) if h < $n);
            kani::assume(!(src.leading() == $n && !hint_rules_out));
            let a: GenericArray<D, $N> = (&mut src).collect();
            core::mem::forget(a);
            kani::cover!(true, "returned without panicking");
        }
    };
}

// ---------------------------------------------------------------------------------------------------------------
// C08 / C04 / C03: generate, map, fold, zip (nine stack forms), Clone, Default
// ---------------------------------------------------------------------------------------------------------------

/// The state a landing pad would see if the closure panicked now, at its `k`-th call (0-based): every registered
/// consumer has already excluded the element(s) handed to this call, the builder holds exactly the k results stored.
fn unwind_point(k: usize, consumers: usize) {
    kani::assert(n_consumers() == consumers, "C04 unwind@closure: every owned operand is guarded by a consumer");
    let mut c = 0;
    while c < consumers {
        kani::assert(consumer_pos(c) == k + 1, "C04 unwind@closure: consumer position excludes exactly the elements already handed out");
        c += 1;
    }
    kani::assert(n_builders() == 1 && !builder_finished(0), "C04 unwind@closure: one live builder guards the output");
    kani::assert(builder_pos(0) == k, "C04 unwind@closure: builder position equals the number of results already stored");
}

// @gen macro=generate_h name=c08_generate props=C03,C04,C08 quick=U0,0;U1,1;U4,4 thorough=U2,2;U3,3;U7,7;U8,8
macro_rules! generate_h {
    ($name:ident, $N:ty, $n:expr) => {
        #[kani::proof]
        #[kani::unwind(12)]
        fn $name() {
            reset_monitor();
            let mut calls = 0usize;
            let a: GenericArray<D, $N> = GenericArray::generate(|i| {
                kani::assert(i == calls, "C08.generate: called with 0, 1, .., N-1 in ascending order");
                kani::assert(n_builders() == 1 && !builder_finished(0) && builder_pos(0) == i && all_live(OUT, OUT + i),
                    "C04.generate unwind@closure: the builder guards exactly the i results already stored");
                calls += 1;
                mk(OUT + i)
            });
            kani::assert(calls == $n, "C08.generate: calls the function exactly N times");
            let i: usize = kani::any();
            if i < $n {
                kani::assert(a[i].0 == OUT + i, "C08.generate: result i is stored at index i");
            }
            kani::assert(unsafe { DROPS } == 0, "C03.generate: drops nothing");
            drop(a);
            kani::assert(unsafe { DROPS } == $n && all_dead(OUT, OUT + $n), "C03.generate: the array then drops each element once");
            // Default is the element-wise instance
            let z: GenericArray<u32, $N> = Default::default();
            if i < $n {
                kani::assert(z[i] == 0, "C08.default: every element is T::default()");
            }
            kani::cover!(true, "end reachable");
        }
    };
}

// @gen macro=map_h name=c08_map props=C03,C04,C08 quick=U0,0;U1,1;U4,4 thorough=U2,2;U3,3;U7,7
macro_rules! map_h {
    ($name:ident, $N:ty, $n:expr) => {
        #[kani::proof]
        #[kani::unwind(12)]
        fn $name() {
            let a: GenericArray<D, $N> = arr_d::<$N, $n>(0);
            let form: u8 = kani::any();
            kani::assume(form < 3);
            reset_monitor();
            let mut calls = 0usize;
            let out: GenericArray<D, $N> = if form == 0 {
                // owned receiver: consumes the array
                let out = a.map(|d| {
                    kani::assert(d.0 == calls && live(d.0), "C08.map: k-th call receives element k (live), ascending");
                    unwind_point(calls, 1);
                    kani::assert(all_live(calls, $n) && all_live(OUT, OUT + calls), "C04.map: unconsumed inputs and stored results are all live at the call");
                    calls += 1;
                    let id = d.0;
                    drop(d);
                    mk(OUT + id)
                });
                kani::assert(unsafe { DROPS } == $n && all_dead(0, $n), "C03.map(owned): each input element dropped exactly once (by the closure)");
                out
            } else if form == 1 {
                let out = (&a).map(|d| {
                    kani::assert(d.0 == calls, "C08.map(&): k-th call receives a reference to element k");
                    unwind_point(calls, 0);
                    calls += 1;
                    mk(OUT + d.0)
                });
                kani::assert(unsafe { DROPS } == 0 && all_live(0, $n), "C03.map(&): the borrowed source is untouched");
                drop(a);
                out
            } else {
                let mut a = a;
                let out = (&mut a).map(|d| {
                    kani::assert(d.0 == calls, "C08.map(&mut): k-th call receives a reference to element k");
                    unwind_point(calls, 0);
                    calls += 1;
                    mk(OUT + d.0)
                });
                kani::assert(unsafe { DROPS } == 0 && all_live(0, $n), "C03.map(&mut): the borrowed source is untouched");
                drop(a);
                out
            };
            kani::assert(calls == $n, "C08.map: calls the function once per index");
            let i: usize = kani::any();
            if i < $n {
                kani::assert(out[i].0 == OUT + i, "C08.map: result i is f(a[i]) at index i");
            }
            kani::assert(all_live(OUT, OUT + $n), "C03.map: every result is live in the output");
            drop(out);
            kani::assert(none_live(), "C03.map: in the end every element is dead, none twice");
            kani::cover!(true, "end reachable");
        }
    };
}

// @gen macro=fold_h name=c08_fold props=C03,C04,C08 quick=U0,0;U1,1;U4,4 thorough=U2,2;U3,3;U7,7
macro_rules! fold_h {
    ($name:ident, $N:ty, $n:expr) => {
        #[kani::proof]
        #[kani::unwind(12)]
        fn $name() {
            let a: GenericArray<D, $N> = arr_d::<$N, $n>(0);
            let form: u8 = kani::any();
            kani::assume(form < 3);
            reset_monitor();
            let init: usize = kani::any();
            kani::assume(init < 1000);
            let mut calls = 0usize;
            let r = if form == 0 {
                let r = a.fold(init, |acc, d| {
                    kani::assert(acc == init + calls, "C08.fold: the accumulator is threaded left to right");
                    kani::assert(d.0 == calls && live(d.0), "C08.fold: k-th call receives element k");
                    kani::assert(n_consumers() == 1 && consumer_pos(0) == calls + 1, "C04.fold unwind@closure: consumer position excludes exactly the elements already handed out");
                    kani::assert(all_live(calls, $n), "C04.fold: unconsumed inputs are live at the call");
                    calls += 1;
                    acc + 1
                });
                kani::assert(unsafe { DROPS } == $n, "C03.fold(owned): every element dropped exactly once");
                r
            } else if form == 1 {
                let r = (&a).fold(init, |acc, d| {
                    kani::assert(acc == init + calls && d.0 == calls, "C08.fold(&): left fold over references in index order");
                    calls += 1;
                    acc + 1
                });
                kani::assert(unsafe { DROPS } == 0, "C03.fold(&): the borrowed source is untouched");
                drop(a);
                r
            } else {
                let mut a = a;
                let r = (&mut a).fold(init, |acc, d| {
                    kani::assert(acc == init + calls && d.0 == calls, "C08.fold(&mut): left fold over references in index order");
                    calls += 1;
                    acc + 1
                });
                kani::assert(unsafe { DROPS } == 0, "C03.fold(&mut): the borrowed source is untouched");
                drop(a);
                r
            };
            kani::assert(calls == $n && r == init + $n, "C08.fold: one call per index, returns the last accumulator");
            kani::assert(all_dead(0, $n), "C03.fold: in the end every element is dead, none twice");
            kani::cover!(true, "end reachable");
        }
    };
}

// zip: one harness per receiver x argument form (the forms are different monomorphic code paths)
macro_rules! zip_body {
    ($N:ty, $n:expr, $consumers:expr, |$a:ident, $b:ident, $f:ident| $call:expr, $la:expr, $lb:expr) => {{
        let mut $a: GenericArray<D, $N> = arr_d::<$N, $n>(0);
        let mut $b: GenericArray<D, $N> = arr_d::<$N, $n>(RHS);
        reset_monitor();
        let mut calls = 0usize;
        let out: GenericArray<D, $N> = {
            let mut $f = |x: usize, y: usize| {
                kani::assert(x == calls && y == RHS + calls, "C08.zip: k-th call receives (a[k], b[k]), ascending");
                kani::assert(live(x) && live(y), "C04.zip: both arguments are live when handed to the closure");
                unwind_point(calls, $consumers);
                kani::assert(all_live(calls, $n) && all_live(RHS + calls, RHS + $n) && all_live(OUT, OUT + calls), "C04.zip: unconsumed inputs and stored results are live at the call");
                calls += 1;
                mk(OUT + x)
            };
            $call
        };
        kani::assert(calls == $n, "C08.zip: calls the function once per index");
        let i: usize = kani::any();
        if i < $n {
            kani::assert(out[i].0 == OUT + i, "C08.zip: result i is f(a[i], b[i]) at index i");
        }
        kani::assert(all_live(0, $n) == ($la || $n == 0) || $n == 0, "C03.zip: left operand consumed iff owned");
        if $la { kani::assert(all_live(0, $n), "C03.zip: a borrowed left operand is untouched"); } else { kani::assert(all_dead(0, $n), "C03.zip: an owned left operand is fully consumed, each element once"); }
        if $lb { kani::assert(all_live(RHS, RHS + $n), "C03.zip: a borrowed right operand is untouched"); } else { kani::assert(all_dead(RHS, RHS + $n), "C03.zip: an owned right operand is fully consumed, each element once"); }
        drop(out);
        kani::assert(all_dead(OUT, OUT + $n), "C03.zip: the output drops each result once");
        kani::cover!(true, "end reachable");
    }};
}

// @gen macro=zip_h name=c08_zip props=C03,C04,C08 quick=oo,U0,0;oo,U3,3;or,U3,3;om,U3,3;ro,U3,3;rr,U3,3;rm,U3,3;mo,U3,3;mr,U3,3;mm,U3,3 thorough=oo,U1,1;oo,U5,5;or,U1,1;ro,U1,1;rr,U5,5;mm,U1,1
macro_rules! zip_h {
    ($name:ident, oo, $N:ty, $n:expr) => { #[kani::proof] #[kani::unwind(12)] fn $name() {
        zip_body!($N, $n, 2, |a, b, f| a.zip(b, |x: D, y: D| { let r = f(x.0, y.0); drop(x); drop(y); r }), false, false) } };
    ($name:ident, or, $N:ty, $n:expr) => { #[kani::proof] #[kani::unwind(12)] fn $name() {
        zip_body!($N, $n, 1, |a, b, f| a.zip(&b, |x: D, y: &D| { let r = f(x.0, y.0); drop(x); r }), false, true) } };
    ($name:ident, om, $N:ty, $n:expr) => { #[kani::proof] #[kani::unwind(12)] fn $name() {
        zip_body!($N, $n, 1, |a, b, f| a.zip(&mut b, |x: D, y: &mut D| { let r = f(x.0, y.0); drop(x); r }), false, true) } };
    ($name:ident, ro, $N:ty, $n:expr) => { #[kani::proof] #[kani::unwind(12)] fn $name() {
        zip_body!($N, $n, 1, |a, b, f| (&a).zip(b, |x: &D, y: D| { let r = f(x.0, y.0); drop(y); r }), true, false) } };
    ($name:ident, rr, $N:ty, $n:expr) => { #[kani::proof] #[kani::unwind(12)] fn $name() {
        zip_body!($N, $n, 0, |a, b, f| (&a).zip(&b, |x: &D, y: &D| f(x.0, y.0)), true, true) } };
    ($name:ident, rm, $N:ty, $n:expr) => { #[kani::proof] #[kani::unwind(12)] fn $name() {
        zip_body!($N, $n, 0, |a, b, f| (&a).zip(&mut b, |x: &D, y: &mut D| f(x.0, y.0)), true, true) } };
    ($name:ident, mo, $N:ty, $n:expr) => { #[kani::proof] #[kani::unwind(12)] fn $name() {
        zip_body!($N, $n, 1, |a, b, f| (&mut a).zip(b, |x: &mut D, y: D| { let r = f(x.0, y.0); drop(y); r }), true, false) } };
    ($name:ident, mr, $N:ty, $n:expr) => { #[kani::proof] #[kani::unwind(12)] fn $name() {
        zip_body!($N, $n, 0, |a, b, f| (&mut a).zip(&b, |x: &mut D, y: &D| f(x.0, y.0)), true, true) } };
    ($name:ident, mm, $N:ty, $n:expr) => { #[kani::proof] #[kani::unwind(12)] fn $name() {
        zip_body!($N, $n, 0, |a, b, f| (&mut a).zip(&mut b, |x: &mut D, y: &mut D| f(x.0, y.0)), true, true) } };
}

// the code path for element types WITHOUT drop glue (needs_drop == false selects the ManuallyDrop branches)
// @gen macro=zip_plain name=c08_zip_plain props=C08 quick=U0,0;U1,1;U4,4;U5,5 thorough=U3,3;U7,7;U9,9;U13,13
macro_rules! zip_plain {
    ($name:ident, $N:ty, $n:expr) => {
        #[kani::proof]
        #[kani::unwind(16)]
        fn $name() {
            let sa: [u32; $n] = kani::any();
            let sb: [u32; $n] = kani::any();
            let a: GenericArray<u32, $N> = GenericArray::from_array(sa);
            let b: GenericArray<u32, $N> = GenericArray::from_array(sb);
            let form: u8 = kani::any();
            kani::assume(form < 4);
            let mut calls = 0usize;
            let mut f = |x: u32, y: u32| {
                kani::assert(calls < $n && x == sa[calls] && y == sb[calls], "C08.zip(plain): k-th call receives (a[k], b[k]), ascending");
                calls += 1;
                (x as u64) << 32 | y as u64
            };
            let out: GenericArray<u64, $N> = match form {
                0 => a.zip(b, |x, y| f(x, y)),
                1 => a.zip(&b, |x, y| f(x, *y)),
                2 => (&a).zip(b, |x, y| f(*x, y)),
                _ => (&a).zip(&b, |x, y| f(*x, *y)),
            };
            kani::assert(calls == $n, "C08.zip(plain): calls the function once per index");
            let i: usize = kani::any();
            if i < $n {
                kani::assert(out[i] == (sa[i] as u64) << 32 | sb[i] as u64, "C08.zip(plain): result i is f(a[i], b[i])");
            }
            // map / fold on the plain path
            let mut mc = 0usize;
            let m: GenericArray<u64, $N> = GenericArray::<u32, $N>::from_array(sa).map(|x| {
                kani::assert(mc < $n && x == sa[mc], "C08.map(plain): k-th call receives element k");
                mc += 1;
                x as u64 + 1
            });
            if i < $n {
                kani::assert(m[i] == sa[i] as u64 + 1, "C08.map(plain): result i is f(a[i])");
            }
            kani::cover!(true, "end reachable");
        }
    };
}

// exactly ONE operand type has drop glue: both owned operands must still be guarded (needs_drop::<T>() || needs_drop::<B>())
// @gen macro=zip_mixed name=c08_zip_mixed props=C03,C04,C08 quick=dp,U3,3;pd,U3,3;rpd,U3,3;mpd,U3,3;odr,U3,3 thorough=dp,U1,1;pd,U1,1;dp,U5,5;pd,U5,5;rpd,U1,1;rpd,U5,5;mpd,U5,5;odr,U5,5
macro_rules! zip_mixed {
    ($name:ident, dp, $N:ty, $n:expr) => {
        #[kani::proof]
        #[kani::unwind(12)]
        fn $name() {
            let a: GenericArray<D, $N> = arr_d::<$N, $n>(0);
            let sb: [u32; $n] = kani::any();
            let b: GenericArray<u32, $N> = GenericArray::from_array(sb);
            reset_monitor();
            let mut calls = 0usize;
            let out: GenericArray<u32, $N> = a.zip(b, |x: D, y: u32| {
                kani::assert(x.0 == calls && y == sb[calls], "C08.zip(droppable, plain): k-th call receives (a[k], b[k]), ascending");
                kani::assert(n_consumers() >= 1 && consumer_pos(0) == calls + 1 && (n_consumers() < 2 || consumer_pos(1) == calls + 1),
                    "C04.zip(droppable, plain) unwind@closure: the droppable operand is guarded by a consumer whose position excludes exactly the elements handed out");
                kani::assert(all_live(calls, $n), "C04.zip(droppable, plain): unconsumed droppable inputs are live at the call");
                calls += 1;
                drop(x);
                y
            });
            kani::assert(calls == $n && all_dead(0, $n) && unsafe { DROPS } == $n, "C03.zip(droppable, plain): every droppable element consumed exactly once");
            kani::cover!(true, "end reachable");
        }
    };
    // a BORROWED plain operand zipped with an OWNED droppable one (GenericArray::inverted_zip2: only the owned side's drop glue decides)
    ($name:ident, rpd, $N:ty, $n:expr) => { zip_mixed!(@refpd $name, $N, $n, [&]); };
    ($name:ident, mpd, $N:ty, $n:expr) => { zip_mixed!(@refpd $name, $N, $n, [&mut]); };
    (@refpd $name:ident, $N:ty, $n:expr, [$($r:tt)+]) => {
        #[kani::proof]
        #[kani::unwind(12)]
        fn $name() {
            let sa: [u32; $n] = kani::any();
            let mut a: GenericArray<u32, $N> = GenericArray::from_array(sa);
            let b: GenericArray<D, $N> = arr_d::<$N, $n>(0);
            reset_monitor();
            let mut calls = 0usize;
            let out: GenericArray<u32, $N> = ($($r)+ a).zip(b, |x, y: D| {
                kani::assert(y.0 == calls && *x == sa[calls], "C08.zip(&plain, droppable): k-th call receives (a[k], b[k]), ascending");
                kani::assert(n_consumers() >= 1 && consumer_pos(0) == calls + 1,
                    "C04.zip(&plain, droppable) unwind@closure: the owned droppable operand is guarded by a consumer whose position excludes exactly the elements handed out");
                kani::assert(all_live(calls, $n), "C04.zip(&plain, droppable): unconsumed droppable inputs are live at the call");
                calls += 1;
                drop(y);
                *x
            });
            kani::assert(calls == $n && all_dead(0, $n) && unsafe { DROPS } == $n, "C03.zip(&plain, droppable): every droppable element consumed exactly once");
            kani::cover!(true, "end reachable");
        }
    };
    // an OWNED droppable operand zipped with a BORROWED plain one (trait default inverted_zip)
    ($name:ident, odr, $N:ty, $n:expr) => {
        #[kani::proof]
        #[kani::unwind(12)]
        fn $name() {
            let a: GenericArray<D, $N> = arr_d::<$N, $n>(0);
            let sb: [u32; $n] = kani::any();
            let b: GenericArray<u32, $N> = GenericArray::from_array(sb);
            reset_monitor();
            let mut calls = 0usize;
            let out: GenericArray<u32, $N> = a.zip(&b, |x: D, y: &u32| {
                kani::assert(x.0 == calls && *y == sb[calls], "C08.zip(droppable, &plain): k-th call receives (a[k], b[k]), ascending");
                kani::assert(n_consumers() >= 1 && consumer_pos(0) == calls + 1,
                    "C04.zip(droppable, &plain) unwind@closure: the owned droppable operand is guarded by a consumer whose position excludes exactly the elements handed out");
                kani::assert(all_live(calls, $n), "C04.zip(droppable, &plain): unconsumed droppable inputs are live at the call");
                calls += 1;
                drop(x);
                *y
            });
            kani::assert(calls == $n && all_dead(0, $n) && unsafe { DROPS } == $n, "C03.zip(droppable, &plain): every droppable element consumed exactly once");
            kani::cover!(true, "end reachable");
        }
    };
    ($name:ident, pd, $N:ty, $n:expr) => {
        #[kani::proof]
        #[kani::unwind(12)]
        fn $name() {
            let sa: [u32; $n] = kani::any();
            let a: GenericArray<u32, $N> = GenericArray::from_array(sa);
            let b: GenericArray<D, $N> = arr_d::<$N, $n>(0);
            reset_monitor();
            let mut calls = 0usize;
            let out: GenericArray<u32, $N> = a.zip(b, |x: u32, y: D| {
                kani::assert(y.0 == calls && x == sa[calls], "C08.zip(plain, droppable): k-th call receives (a[k], b[k]), ascending");
                kani::assert(n_consumers() >= 1 && consumer_pos(0) == calls + 1 && (n_consumers() < 2 || consumer_pos(1) == calls + 1),
                    "C04.zip(plain, droppable) unwind@closure: the droppable operand is guarded by a consumer whose position excludes exactly the elements handed out");
                kani::assert(all_live(calls, $n), "C04.zip(plain, droppable): unconsumed droppable inputs are live at the call");
                calls += 1;
                drop(y);
                x
            });
            kani::assert(calls == $n && all_dead(0, $n) && unsafe { DROPS } == $n, "C03.zip(plain, droppable): every droppable element consumed exactly once");
            kani::cover!(true, "end reachable");
        }
    };
}

/// no drop glue, but an observable, non-trivial Clone: "no drop glue" does not mean "Copy"
pub struct Cn(pub u32);
pub static mut CN_CLONES: usize = 0;
impl Clone for Cn {
    fn clone(&self) -> Cn {
        unsafe { CN_CLONES += 1 };
        Cn(self.0 ^ 0x5a5a)
    }
}

// @gen macro=clone_plain name=c08_clone_plain props=C08 quick=U0,0;U1,1;U4,4 thorough=U3,3;U7,7
macro_rules! clone_plain {
    ($name:ident, $N:ty, $n:expr) => {
        #[kani::proof]
        #[kani::unwind(12)]
        fn $name() {
            let sa: [u32; $n] = kani::any();
            let a: GenericArray<Cn, $N> = GenericArray::from_array(sa.map(Cn));
            let c = a.clone();
            kani::assert(unsafe { CN_CLONES } == $n, "C08.clone(no drop glue): Clone::clone is still called exactly once per element");
            let i: usize = kani::any();
            if i < $n {
                kani::assert(c[i].0 == sa[i] ^ 0x5a5a && a[i].0 == sa[i], "C08.clone(no drop glue): element i of the result is a[i].clone()");
            }
            kani::cover!(true, "end reachable");
        }
    };
}

// zero-sized drop-tracked elements (size 0, but drop glue): pointer arithmetic degenerates, the ledger is a counter
// @gen macro=zst_ops name=c03_zst_ops props=C03,C04,C08 quick=U0,0;U1,1;U4,4 thorough=U3,3;U7,7
macro_rules! zst_ops {
    ($name:ident, $N:ty, $n:expr) => {
        #[kani::proof]
        #[kani::unwind(12)]
        fn $name() {
            let mk_arr = || -> GenericArray<Dz, $N> { GenericArray::from_array(core::array::from_fn::<Dz, $n, _>(|_| mkz())) };
            let which: u8 = kani::any();
            kani::assume(which < 5);
            reset_monitor();
            let mut calls = 0usize;
            if which == 0 {
                let a = mk_arr();
                let out: GenericArray<Dz, $N> = a.map(|z| {
                    unwind_point(calls, 1);
                    calls += 1;
                    drop(z);
                    mkz()
                });
                kani::assert(calls == $n && unsafe { DROPS_Z } == $n && unsafe { LIVE_Z } == $n, "C03.map(ZST): every input dropped once (by the closure), every result live in the output");
                drop(out);
            } else if which == 1 {
                let (a, b) = (mk_arr(), mk_arr());
                let out: GenericArray<Dz, $N> = a.zip(b, |x, y| {
                    unwind_point(calls, 2);
                    calls += 1;
                    drop(x);
                    y
                });
                kani::assert(calls == $n && unsafe { DROPS_Z } == $n && unsafe { LIVE_Z } == $n, "C03.zip(ZST): one operand's elements dropped by the closure, the other's moved into the output");
                drop(out);
            } else if which == 2 {
                let a = mk_arr();
                let r = a.fold(0usize, |acc, z| {
                    kani::assert(n_consumers() == 1 && consumer_pos(0) == calls + 1, "C04.fold(ZST) unwind@closure: consumer position excludes exactly the elements handed out");
                    calls += 1;
                    core::mem::forget(z);
                    acc + 1
                });
                kani::assert(r == $n && unsafe { DROPS_Z } == 0 && unsafe { LIVE_Z } == $n, "C03.fold(ZST): every element handed to the closure, none dropped by fold itself");
                unsafe { LIVE_Z = 0 };
            } else if which == 3 {
                let g: GenericArray<Dz, $N> = GenericArray::generate(|i| {
                    kani::assert(i == calls && n_builders() == 1 && builder_pos(0) == i, "C08.generate(ZST): ascending indices, builder guards the results stored so far");
                    calls += 1;
                    mkz()
                });
                kani::assert(calls == $n && unsafe { LIVE_Z } == $n, "C08.generate(ZST): exactly N calls, N live results");
                drop(g);
            } else {
                let mut it = mk_arr().into_iter();
                let k: usize = kani::any();
                let x = it.nth(k);
                let skipped = if k < $n { k } else { $n };
                kani::assert(unsafe { DROPS_Z } == skipped && x.is_some() == (k < $n), "C03.nth(ZST): exactly the skipped elements dropped");
                let y = it.next_back();
                kani::assert(it.len() == $n - skipped - x.is_some() as usize - y.is_some() as usize, "C06.len(ZST): counts what is left");
                drop(it);
                drop(x);
                drop(y);
            }
            kani::assert(unsafe { LIVE_Z } == 0, "C03(ZST): in the end every element has been dropped exactly once");
            kani::cover!(true, "end reachable");
        }
    };
}

// @gen macro=clone_h name=c08_clone props=C03,C04,C08 quick=U0,0;U1,1;U4,4 thorough=U3,3;U7,7
macro_rules! clone_h {
    ($name:ident, $N:ty, $n:expr) => {
        #[kani::proof]
        #[kani::unwind(12)]
        fn $name() {
            let a: GenericArray<D, $N> = arr_d::<$N, $n>(0);
            reset_monitor();
            fn hook(id: usize) {
                // C04: Clone::clone is caller-supplied code and may panic: the clones made so far must be guarded
                let made = unsafe { CLONES } - 1;
                kani::assert(id == made, "C08.clone: elements are cloned once each in ascending order");
                kani::assert(n_builders() == 1 && !builder_finished(0) && builder_pos(0) == made, "C04.clone unwind@Clone::clone: the builder guards exactly the clones already stored");
            }
            unsafe { CLONE_HOOK = Some(hook) };
            let c = a.clone();
            unsafe { CLONE_HOOK = None };
            kani::assert(unsafe { CLONES } == $n, "C08.clone: Clone::clone called exactly N times");
            let i: usize = kani::any();
            if i < $n {
                kani::assert(c[i].0 == CLONE_OFF + i && a[i].0 == i, "C08.clone: clone i is at index i, the source is unchanged");
            }
            kani::assert(unsafe { DROPS } == 0, "C03.clone: drops nothing");
            drop(a);
            kani::assert(all_dead(0, $n) && all_live(CLONE_OFF, CLONE_OFF + $n), "C03.clone: source and clone own disjoint elements");
            drop(c);
            kani::assert(none_live(), "C03.clone: in the end every element is dead");
            kani::cover!(true, "end reachable");
        }
    };
}

// Drop of each guard at EVERY position: releases exactly its range (DESIGN.md §5 C04)
// @gen macro=guards_h name=c04_guards props=C03,C04,C05 quick=U0,0;U1,1;U4,4 thorough=U3,3;U7,7
macro_rules! guards_h {
    ($name:ident, $N:ty, $n:expr) => {
        #[kani::proof]
        #[kani::unwind(12)]
        fn $name() {
            let p: usize = kani::any();
            kani::assume(p <= $n);
            let which: u8 = kani::any();
            kani::assume(which < 3);
            if which == 0 {
                // consumer abandoned at position p: elements [p, N) are released, [0, p) were handed out
                let mut c = ArrayConsumer::new(arr_d::<$N, $n>(0));
                unsafe {
                    let (it, pos) = c.iter_position();
                    let mut k = 0;
                    for src in it {
                        if k == p { break; }
                        core::mem::forget(core::ptr::read(src));
                        *pos += 1;
                        k += 1;
                    }
                }
                drop(c);
                kani::assert(unsafe { DROPS } == $n - p && all_dead(p, $n) && all_live(0, p), "C04.ArrayConsumer::drop: releases exactly the unconsumed elements [position, N)");
            } else if which == 1 {
                // intrusive builder abandoned at position p
                unsafe {
                    let mut array = GenericArray::<D, $N>::uninit();
                    let mut b = IntrusiveArrayBuilder::new(&mut array);
                    {
                        let (it, pos) = b.iter_position();
                        let mut k = 0;
                        for dst in it {
                            if k == p { break; }
                            dst.write(mk(k));
                            *pos += 1;
                            k += 1;
                        }
                    }
                    kani::assert(b.is_full() == (p == $n), "C04.IntrusiveArrayBuilder::is_full: true exactly at position N");
                    drop(b);
                }
                kani::assert(unsafe { DROPS } == p && all_dead(0, $n), "C04.IntrusiveArrayBuilder::drop: releases exactly the initialised prefix [0, position)");
            } else {
                unsafe {
                    let mut b = crate::internal::ArrayBuilder::<D, $N>::new();
                    {
                        let (it, pos) = b.iter_position();
                        let mut k = 0;
                        for dst in it {
                            if k == p { break; }
                            dst.write(mk(k));
                            *pos += 1;
                            k += 1;
                        }
                    }
                    kani::assert(b.is_full() == (p == $n), "C04.ArrayBuilder::is_full: true exactly at position N");
                    if p == $n {
                        let a = b.assume_init();
                        kani::assert(unsafe { DROPS } == 0 && all_live(0, $n), "C04.ArrayBuilder::assume_init: hands over all N elements, drops none");
                        drop(a);
                    } else {
                        drop(b);
                    }
                }
                kani::assert(unsafe { DROPS } == p && all_dead(0, $n), "C04.ArrayBuilder::drop: releases exactly the initialised prefix [0, position)");
            }
            kani::cover!(true, "end reachable");
        }
    };
}

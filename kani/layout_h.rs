// @file host=src/lib.rs mod=verif_layout also_features=alloc,serde,zeroize,const-default
//! Engine-K obligations for the memory layout (C01), per instantiation: size_of / align_of of GenericArray<T, N>
//! equal those of [T; N] (computed by rustc for the very types the crate defines), element i lives at byte offset
//! i * size_of::<T>(), and a write through the slice view is read back through the native-array view.
//! rustc rejects any type larger than 2^61 bytes, so lengths above 2^60 are instantiated with zero-sized T only.
#![allow(unused_imports, unused_mut, unused_variables, static_mut_refs, dead_code, arithmetic_overflow, unconditional_panic, unused_comparisons)]

use super::*;
use crate::verif_support::*;
use core::mem::{align_of, size_of};

#[repr(align(32))]
#[derive(Clone, Copy, PartialEq, Eq)]
pub struct A32(pub u8);

#[repr(align(64))]
#[derive(Clone, Copy, PartialEq, Eq)]
pub struct B64(pub [u8; 3]);

pub const fn same<T, const K: usize>() -> bool
where
    Const<K>: IntoArrayLength,
{
    size_of::<GenericArray<T, ConstArrayLength<K>>>() == size_of::<[T; K]>()
        && align_of::<GenericArray<T, ConstArrayLength<K>>>() == align_of::<[T; K]>()
        && size_of::<GenericArray<T, ConstArrayLength<K>>>() == K * size_of::<T>()
        && align_of::<GenericArray<T, ConstArrayLength<K>>>() == align_of::<T>()
}

macro_rules! all_same {
    ($T:ty; $($k:expr),*) => { { const OK: bool = true $(&& same::<$T, { $k }>())*; OK } };
}

/// every N in 0..=66 (all even/odd digit patterns of depth <= 7), then boundary values and large powers
macro_rules! lattice {
    ($T:ty) => {
        all_same!($T; 0, 1, 2, 3, 4, 5, 6, 7, 8, 9, 10, 11, 12, 13, 14, 15, 16, 17, 18, 19, 20, 21, 22, 23, 24, 25, 26, 27, 28, 29, 30, 31, 32,
            33, 34, 35, 36, 37, 38, 39, 40, 41, 42, 43, 44, 45, 46, 47, 48, 49, 50, 51, 52, 53, 54, 55, 56, 57, 58, 59, 60, 61, 62, 63, 64, 65, 66,
            100, 127, 128, 129, 255, 256, 257, 511, 512, 1000, 1023, 1024, 2047, 2048, 4095, 4096, 10000, 65535, 65536, 100000, 1000000, 1048575, 1048576)
    };
}
macro_rules! huge {
    ($T:ty) => {
        all_same!($T; (1 << 24) - 1, 1 << 24, 10000000, (1 << 31) - 1, 1 << 31, 1 << 32, 10000000000, (1 << 40) - 1, 1 << 40, 1000000000000000, (1 << 50) - 1, 1 << 50)
    };
}
macro_rules! huge_zst {
    ($T:ty) => {
        all_same!($T; (1 << 60) - 1, 1 << 60, 1000000000000000000, (1 << 61) - 1, 1 << 61, (1 << 62) - 1, 1 << 62, (1 << 63) - 1, 1 << 63, 10000000000000000000)
    };
}

// @harness name=c01_layout_types props=C01 tier=quick scope=instantiation(lattice-of-T-and-N)
#[kani::proof]
fn c01_layout_types() {
    kani::assert(lattice!(u8) && huge!(u8) && all_same!(u8; (1 << 60) - 1, 1 << 60), "C01.layout(u8): size and alignment of [u8; N] for every listed N up to 2^60");
    kani::assert(lattice!(u16) && huge!(u16), "C01.layout(u16): size and alignment of [u16; N]");
    kani::assert(lattice!(u32) && huge!(u32), "C01.layout(u32): size and alignment of [u32; N]");
    kani::assert(lattice!(u64) && huge!(u64), "C01.layout(u64): size and alignment of [u64; N]");
    kani::assert(lattice!(u128) && huge!(u128), "C01.layout(u128): size and alignment of [u128; N] (align 16)");
    kani::assert(lattice!(()) && huge!(()) && huge_zst!(()), "C01.layout(()): zero size, align 1, for every listed N up to 10^19");
    kani::assert(lattice!(A64) && huge!(A64) && huge_zst!(A64), "C01.layout(aligned ZST): zero size, align 64, including N = 0");
    kani::assert(lattice!(Pad) && huge!(Pad), "C01.layout((u8,u16)-like padded struct): size and alignment of [Pad; N]");
    kani::assert(lattice!(W24) && huge!(W24), "C01.layout(24-byte struct): size and alignment of [W24; N]");
    kani::assert(lattice!([u8; 3]) && huge!([u8; 3]), "C01.layout([u8; 3]): size and alignment of [[u8; 3]; N]");
    kani::assert(lattice!(A16) && huge!(A16), "C01.layout(align 16, size 16): size and alignment of [A16; N]");
    kani::assert(lattice!(A32) && huge!(A32), "C01.layout(align 32, size 32): size and alignment of [A32; N]");
    kani::assert(lattice!(B64) && huge!(B64), "C01.layout(align 64, size 64): size and alignment of [B64; N]");
    kani::assert(lattice!(Packed) && huge!(Packed), "C01.layout(packed struct, size 5, align 1): size and alignment of [Packed; N]");
    kani::assert(lattice!(GenericArray<u16, U3>) && lattice!(GenericArray<A32, U2>) && lattice!(GenericArray<(), U5>), "C01.layout(nested GenericArray): size and alignment of [GenericArray<..>; N]");
    kani::assert(lattice!((u8, u16)) && lattice!((u64, u8)) && lattice!(*const u8) && lattice!(f64) && lattice!(bool), "C01.layout(tuples, pointers, floats, bool)");
    // lengths typenum does not name are built with its operators
    type U1025 = typenum::Add1<U1024>;
    type U1026 = typenum::Add1<U1025>;
    kani::assert(size_of::<GenericArray<Pad, U1025>>() == 1025 * size_of::<Pad>() && align_of::<GenericArray<Pad, U1025>>() == align_of::<Pad>()
        && size_of::<GenericArray<A32, U1026>>() == 1026 * 32 && align_of::<GenericArray<A32, U1026>>() == 32
        && size_of::<GenericArray<u8, typenum::Sub1<typenum::U1152921504606846976>>>() == (1usize << 60) - 1,
        "C01.layout: operator-built lengths 1025, 1026, 2^60 - 1");
    kani::cover!(true, "end reachable");
}

// @gen macro=elem_addr name=c01_elem_addr props=C01 quick=Pad,U1,1;Pad,U5,5;W24,U3,3;A16,U4,4;A32,U2,2;B64,U6,6;u8,U7,7;u128,U3,3 thorough=Pad,U8,8;W24,U7,7;A32,U6,6;B64,U3,3;u8,U17,17;u16,U33,33;A16,U9,9
macro_rules! elem_addr {
    ($name:ident, $T:ty, $N:ty, $n:expr) => {
        #[kani::proof]
        #[kani::unwind(40)]
        fn $name() {
            let mut a: GenericArray<$T, $N> = unsafe { core::mem::transmute::<[$T; $n], _>(any_arr::<$T, $n>()) };
            let i: usize = kani::any();
            kani::assume(i < $n);
            let base = &a as *const _ as usize;
            let p = &a.as_slice()[i] as *const $T as usize;
            kani::assert(p - base == i * size_of::<$T>(), "C01.elem: element i lives at byte offset i * size_of::<T>()");
            kani::assert(base % align_of::<$T>() == 0, "C01.elem: the array is aligned as T");
            kani::assert(p + size_of::<$T>() <= base + size_of::<GenericArray<$T, $N>>(), "C01.elem: every element lies inside the array (no padding or memory outside it is touched)");
            // a write through the slice view is read back through the native-array view, bit for bit
            let v: $T = any_one::<$T>();
            a.as_mut_slice()[i] = v;
            let native: &[$T; $n] = a.as_ref();
            kani::assert(native[i] == v, "C01.elem: slice view and native-array view address the same element");
            let back: [$T; $n] = a.into_array();
            kani::assert(back[i] == v, "C01.elem: by-value conversion to [T; N] keeps element i");
            kani::cover!(true, "end reachable");
        }
    };
}

pub(crate) fn any_arr<T: kani::Arbitrary, const K: usize>() -> [T; K] {
    kani::any::<[T; K]>()
}
pub(crate) fn any_one<T: kani::Arbitrary>() -> T {
    kani::any::<T>()
}
impl kani::Arbitrary for A16 {
    fn any() -> Self {
        A16(kani::any())
    }
}
impl kani::Arbitrary for A32 {
    fn any() -> Self {
        A32(kani::any())
    }
}
impl kani::Arbitrary for B64 {
    fn any() -> Self {
        B64(kani::any())
    }
}

// const_transmute: panics exactly when the sizes differ
// @harness name=c01_const_transmute_ok props=C01,C18 tier=quick scope=instantiation(u32x4)
#[kani::proof]
fn c01_const_transmute_ok() {
    let x: [u32; 4] = kani::any();
    let y: GenericArray<u32, U4> = unsafe { crate::const_transmute(x) };
    let i: usize = kani::any();
    kani::assume(i < 4);
    kani::assert(y[i] == x[i], "C01.const_transmute: equal sizes reinterpret the value bit for bit");
    let z: [u8; 16] = unsafe { crate::const_transmute(x) };
    kani::assert(z[4 * i] == x[i].to_ne_bytes()[0], "C01.const_transmute: bytes keep their positions");
    kani::cover!(true, "end reachable");
}

// @harness name=c01_const_transmute_panics props=C01,C18 tier=quick expect=panic scope=instantiation(u32x4->u32x3/u8x17)
#[kani::proof]
#[kani::should_panic]
fn c01_const_transmute_panics() {
    let x: [u32; 4] = kani::any();
    if kani::any() {
        let y: [u32; 3] = unsafe { crate::const_transmute(x) };
        core::mem::forget(y);
    } else {
        let y: [u8; 17] = unsafe { crate::const_transmute(x) };
        core::mem::forget(y);
    }
    kani::cover!(true, "returned without panicking");
}

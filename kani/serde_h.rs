// @file host=src/impl_serde.rs mod=verif_serde features=serde needs=mon
//! Engine-K contracts for the serde impls (C17): `serialize` against a recording Serializer (exactly
//! serialize_tuple(N), N elements in order, end - no length is ever written), `visit_seq` / `deserialize` against a
//! scripted SeqAccess / Deserializer with symbolic element count, size hints and error position.
#![allow(unused_imports, unused_mut, unused_variables, static_mut_refs, dead_code, arithmetic_overflow, unconditional_panic, unused_comparisons)]

use super::*;
use crate::verif_support::*;
use serde::de::{DeserializeSeed, IntoDeserializer};
use serde::ser;

#[derive(Debug)]
pub struct E;
impl fmt::Display for E {
    fn fmt(&self, f: &mut fmt::Formatter) -> fmt::Result {
        f.write_str("E")
    }
}
impl de::Error for E {
    fn custom<T: fmt::Display>(_m: T) -> Self {
        E
    }
}
impl ser::Error for E {
    fn custom<T: fmt::Display>(_m: T) -> Self {
        E
    }
}
impl serde::de::StdError for E {}

// ---------------------------------------------------------------------------------------------------------------
// Serialize
// ---------------------------------------------------------------------------------------------------------------
#[derive(Clone, Copy, PartialEq, Eq)]
pub enum Ev {
    None,
    Tuple(usize),
    U8(u8),
    U32(u32),
    End,
    Other,
}
pub struct Log {
    pub ev: [Ev; 12],
    pub n: usize,
    /// fail the k-th element (symbolic): the error must propagate
    pub fail_at: usize,
    pub elems: usize,
}
impl Log {
    fn push(&mut self, e: Ev) {
        if self.n < 12 {
            self.ev[self.n] = e;
        }
        self.n += 1;
    }
}
pub struct Rec<'a>(pub &'a mut Log);
pub struct TupleRec<'a>(pub &'a mut Log);

impl<'a> ser::SerializeTuple for TupleRec<'a> {
    type Ok = ();
    type Error = E;
    fn serialize_element<T: ?Sized + Serialize>(&mut self, value: &T) -> Result<(), E> {
        if self.0.elems == self.0.fail_at {
            return Err(E);
        }
        self.0.elems += 1;
        value.serialize(Rec(&mut *self.0))
    }
    fn end(self) -> Result<(), E> {
        self.0.push(Ev::End);
        Ok(())
    }
}

macro_rules! other {
    ($($f:ident($($t:ty),*);)*) => { $( fn $f(self $(, _: $t)*) -> Result<(), E> { self.0.push(Ev::Other); Ok(()) } )* };
}

impl<'a> Serializer for Rec<'a> {
    type Ok = ();
    type Error = E;
    type SerializeSeq = ser::Impossible<(), E>;
    type SerializeTuple = TupleRec<'a>;
    type SerializeTupleStruct = ser::Impossible<(), E>;
    type SerializeTupleVariant = ser::Impossible<(), E>;
    type SerializeMap = ser::Impossible<(), E>;
    type SerializeStruct = ser::Impossible<(), E>;
    type SerializeStructVariant = ser::Impossible<(), E>;
    fn serialize_u8(self, v: u8) -> Result<(), E> {
        self.0.push(Ev::U8(v));
        Ok(())
    }
    fn serialize_u32(self, v: u32) -> Result<(), E> {
        self.0.push(Ev::U32(v));
        Ok(())
    }
    fn serialize_tuple(self, len: usize) -> Result<TupleRec<'a>, E> {
        self.0.push(Ev::Tuple(len));
        Ok(TupleRec(self.0))
    }
    other! {
        serialize_bool(bool); serialize_i8(i8); serialize_i16(i16); serialize_i32(i32); serialize_i64(i64);
        serialize_u16(u16); serialize_u64(u64); serialize_f32(f32); serialize_f64(f64);
        serialize_char(char); serialize_str(&str); serialize_bytes(&[u8]); serialize_none(); serialize_unit();
        serialize_unit_struct(&'static str); serialize_unit_variant(&'static str, u32, &'static str);
    }
    fn serialize_some<T: ?Sized + Serialize>(self, _: &T) -> Result<(), E> {
        self.0.push(Ev::Other);
        Ok(())
    }
    fn serialize_newtype_struct<T: ?Sized + Serialize>(self, _: &'static str, _: &T) -> Result<(), E> {
        self.0.push(Ev::Other);
        Ok(())
    }
    fn serialize_newtype_variant<T: ?Sized + Serialize>(self, _: &'static str, _: u32, _: &'static str, _: &T) -> Result<(), E> {
        self.0.push(Ev::Other);
        Ok(())
    }
    fn serialize_seq(self, _: Option<usize>) -> Result<Self::SerializeSeq, E> {
        self.0.push(Ev::Other);
        Err(E)
    }
    fn serialize_tuple_struct(self, _: &'static str, _: usize) -> Result<Self::SerializeTupleStruct, E> {
        self.0.push(Ev::Other);
        Err(E)
    }
    fn serialize_tuple_variant(self, _: &'static str, _: u32, _: &'static str, _: usize) -> Result<Self::SerializeTupleVariant, E> {
        self.0.push(Ev::Other);
        Err(E)
    }
    fn serialize_map(self, _: Option<usize>) -> Result<Self::SerializeMap, E> {
        self.0.push(Ev::Other);
        Err(E)
    }
    fn serialize_struct(self, _: &'static str, _: usize) -> Result<Self::SerializeStruct, E> {
        self.0.push(Ev::Other);
        Err(E)
    }
    fn serialize_struct_variant(self, _: &'static str, _: u32, _: &'static str, _: usize) -> Result<Self::SerializeStructVariant, E> {
        self.0.push(Ev::Other);
        Err(E)
    }
    fn collect_str<T: ?Sized + fmt::Display>(self, _: &T) -> Result<(), E> {
        self.0.push(Ev::Other);
        Ok(())
    }
}

// @gen macro=ser_h name=c17_serialize props=C17 quick=U0,0;U1,1;U3,3 thorough=U2,2;U4,4;U8,8
macro_rules! ser_h {
    ($name:ident, $N:ty, $n:expr) => {
        #[kani::proof]
        #[kani::unwind(16)]
        fn $name() {
            let sa: [u8; $n] = kani::any();
            let a: GenericArray<u8, $N> = GenericArray::from_array(sa);
            let mut log = Log { ev: [Ev::None; 12], n: 0, fail_at: kani::any(), elems: 0 };
            let r = a.serialize(Rec(&mut log));
            if log.fail_at < $n {
                kani::assert(r.is_err(), "C17.serialize: an element error is propagated");
                kani::assert(log.elems == log.fail_at, "C17.serialize: stops at the failing element");
            } else {
                kani::assert(r.is_ok(), "C17.serialize: succeeds when the serializer does");
                kani::assert(log.n == $n + 2, "C17.serialize: exactly one tuple header, N elements and the end - nothing else (no length prefix)");
                kani::assert(log.ev[0] == Ev::Tuple($n), "C17.serialize: announces a tuple of exactly N elements");
                let i: usize = kani::any();
                if i < $n && i < 10 {
                    kani::assert(log.ev[1 + i] == Ev::U8(sa[i]), "C17.serialize: element i is written i-th, in index order");
                }
                if $n < 10 {
                    kani::assert(log.ev[$n + 1] == Ev::End, "C17.serialize: the tuple is closed after the N-th element");
                }
            }
            kani::cover!(true, "end reachable");
        }
    };
}

// ---------------------------------------------------------------------------------------------------------------
// Deserialize
// ---------------------------------------------------------------------------------------------------------------
/// number of drop-tracked elements produced by the scripted source
pub static mut CREATED: usize = 0;
impl<'de> Deserialize<'de> for D {
    fn deserialize<De: Deserializer<'de>>(d: De) -> Result<D, De::Error> {
        let id = u8::deserialize(d)?;
        unsafe { CREATED += 1 };
        Ok(mk(id as usize))
    }
}

/// A sequence source with symbolic behaviour: `count` elements are available (element k has id k), reading element
/// `err_at` fails, and `size_hint` answers `h0` before anything was read, `h_mid` while reading, `h_after` once N
/// elements were delivered (each an arbitrary Option<usize>: none, exact, too small, too large, contradicting).
pub struct Script {
    pub count: usize,
    pub given: usize,
    pub err_at: usize,
    pub n: usize,
    pub h0: Option<usize>,
    pub h_mid: Option<usize>,
    pub h_after: Option<usize>,
    pub ended: bool,
    pub polled_after_end: bool,
    pub polls: usize,
}
impl<'de> SeqAccess<'de> for Script {
    type Error = E;
    fn next_element_seed<S: DeserializeSeed<'de>>(&mut self, seed: S) -> Result<Option<S::Value>, E> {
        if self.ended {
            self.polled_after_end = true;
        }
        self.polls += 1;
        if n_builders() >= 1 {
            // C04-style unwind point: next_element may fail or panic; what was read so far must be guarded
            kani::assert(!builder_finished(0), "C17.visit_seq unwind@next_element: the builder still guards the elements read so far");
            kani::assert(builder_pos(0) == if self.given < self.n { self.given } else { self.n }, "C17.visit_seq unwind@next_element: builder position equals the number of elements stored");
        }
        if self.given == self.err_at {
            self.ended = true;
            return Err(E);
        }
        if self.given >= self.count {
            self.ended = true;
            return Ok(None);
        }
        let v = self.given as u8;
        self.given += 1;
        seed.deserialize(serde::de::value::U8Deserializer::<E>::new(v)).map(Some)
    }
    fn size_hint(&self) -> Option<usize> {
        if self.given == 0 {
            self.h0
        } else if self.given >= self.n {
            self.h_after
        } else {
            self.h_mid
        }
    }
}

/// A deserializer that only knows tuples: records the length it is asked for, then hands the script to the visitor.
pub struct TupleDe<'s> {
    pub script: &'s mut Script,
    pub asked_len: &'s mut Option<usize>,
}
impl<'de, 's> Deserializer<'de> for TupleDe<'s> {
    type Error = E;
    fn deserialize_any<V: Visitor<'de>>(self, _v: V) -> Result<V::Value, E> {
        Err(E)
    }
    fn deserialize_tuple<V: Visitor<'de>>(self, len: usize, visitor: V) -> Result<V::Value, E> {
        *self.asked_len = Some(len);
        visitor.visit_seq(&mut *self.script)
    }
    serde::forward_to_deserialize_any! {
        bool i8 i16 i32 i64 i128 u8 u16 u32 u64 u128 f32 f64 char str string bytes byte_buf option unit unit_struct
        newtype_struct seq tuple_struct map struct enum identifier ignored_any
    }
}

// @gen macro=de_h name=c17_deserialize props=C03,C04,C17 quick=U0,0;U1,1;U3,3 thorough=U2,2;U4,4
macro_rules! de_h {
    ($name:ident, $N:ty, $n:expr) => {
        #[kani::proof]
        #[kani::unwind(12)]
        fn $name() {
            let count: usize = kani::any();
            kani::assume(count <= $n + 2);
            let mut s = Script { count, given: 0, err_at: kani::any(), n: $n, h0: kani::any(), h_mid: kani::any(), h_after: kani::any(),
                                 ended: false, polled_after_end: false, polls: 0 };
            let (h0, h_after, err_at) = (s.h0, s.h_after, s.err_at);
            let mut asked = None;
            reset_monitor();
            let r = GenericArray::<D, $N>::deserialize(TupleDe { script: &mut s, asked_len: &mut asked });
            kani::assert(asked == Some($n), "C17.deserialize: asks the format for a tuple of exactly N elements");
            let hint_rejects = matches!(h0, Some(h) if h != $n);
            let elem_error = err_at < $n && err_at < count;         // the err_at-th element fails to parse
            let too_few = count < $n && !elem_error;
            let surplus = count > $n;                                // more than N offered ...
            let out_of_claim = (if $n == 0 { h0 } else { h_after }) == Some(0); // ... unless the source then reports "nothing left"
            match r {
                Ok(a) => {
                    kani::assert(!hint_rejects, "C17.visit_seq: an up-front size hint other than N is rejected");
                    kani::assert(!elem_error, "C17.visit_seq: an element that fails to parse is rejected");
                    kani::assert(count >= $n, "C17.visit_seq: fewer than N elements are rejected");
                    kani::assert(!surplus || out_of_claim, "C17.visit_seq: more than N elements are rejected");
                    let i: usize = kani::any();
                    if i < $n {
                        kani::assert(a[i].0 == i && live(i), "C17.visit_seq: element i of the result is the i-th element read");
                    }
                    kani::assert(unsafe { DROPS } == 0, "C03.visit_seq: on success nothing was dropped");
                    drop(a);
                }
                Err(_) => {
                    kani::assert(hint_rejects || elem_error || too_few || surplus || (count == $n && err_at == $n),
                        "C17.visit_seq: input with exactly N well-formed elements (and no contradicting up-front hint) is accepted");
                }
            }
            kani::assert(unsafe { DROPS == CREATED } && all_dead(0, $n + 2), "C17.visit_seq: every element read is dropped exactly once; no partially filled array escapes");
            kani::assert(s.polls <= $n + 1, "C17.visit_seq: reads at most N + 1 elements");
            kani::cover!(true, "end reachable");
        }
    };
}

// elements wider than one byte: the announced tuple length is the ELEMENT count
// @gen macro=ser_wide name=c17_serialize_u32 props=C17 quick=U0,0;U3,3 thorough=U1,1;U5,5
macro_rules! ser_wide {
    ($name:ident, $N:ty, $n:expr) => {
        #[kani::proof]
        #[kani::unwind(16)]
        fn $name() {
            let sa: [u32; $n] = kani::any();
            let a: GenericArray<u32, $N> = GenericArray::from_array(sa);
            let mut log = Log { ev: [Ev::None; 12], n: 0, fail_at: usize::MAX, elems: 0 };
            let r = a.serialize(Rec(&mut log));
            kani::assert(r.is_ok() && log.n == $n + 2, "C17.serialize(u32): one tuple header, N elements, end");
            kani::assert(log.ev[0] == Ev::Tuple($n), "C17.serialize(u32): announces exactly N elements (not a byte count)");
            let i: usize = kani::any();
            if i < $n {
                kani::assert(log.ev[1 + i] == Ev::U32(sa[i]), "C17.serialize(u32): element i written i-th");
            }
            // zero-sized elements: still N of them
            let z: GenericArray<(), $N> = GenericArray::from_array([(); $n]);
            let mut lz = Log { ev: [Ev::None; 12], n: 0, fail_at: usize::MAX, elems: 0 };
            let rz = z.serialize(Rec(&mut lz));
            kani::assert(rz.is_ok() && lz.ev[0] == Ev::Tuple($n) && lz.elems == $n, "C17.serialize(ZST): a tuple of exactly N (empty) elements");
            kani::cover!(true, "end reachable");
        }
    };
}

"""Anchored, add-only injections into the scratch copy of /repo (engine K).  `anchor` is a regex that must match exactly
once in `file`; `where` = 'after' inserts the text right after the match (anchors end at a body's opening brace),
'before' inserts it as new line(s) above the line containing the match.  Nothing is ever removed or rewritten.
Groups are requested by harness files through `needs=` in their @file line."""

INJECTIONS = [
    # ---- unwind monitor: publish the address of each guard's `position` (DESIGN.md §3) ----
    dict(group='mon', name='monitor: ArrayConsumer::iter_position', file='src/internal.rs', where='after',
         anchor=r'pub unsafe fn iter_position\(&mut self\) -> \(slice::Iter<T>, &mut usize\) \{',
         text='        #[cfg(kani)] crate::verif_support::reg_consumer(&self.position as *const usize);'),
    dict(group='mon', name='monitor: IntrusiveArrayBuilder::iter_position', file='src/internal.rs', where='after',
         anchor=r"impl<'a, T, N: ArrayLength> IntrusiveArrayBuilder<'a, T, N> \{(?:.|\n)*?pub unsafe fn iter_position\(&mut self\) -> \(slice::IterMut<MaybeUninit<T>>, &mut usize\) \{",
         text='        #[cfg(kani)] crate::verif_support::reg_builder(&self.position as *const usize);'),
    dict(group='mon', name='monitor: IntrusiveArrayBuilder::extend', file='src/internal.rs', where='after',
         anchor=r"impl<'a, T, N: ArrayLength> IntrusiveArrayBuilder<'a, T, N> \{(?:.|\n)*?pub unsafe fn extend\(&mut self, source: impl Iterator<Item = T>\) \{",
         text='        #[cfg(kani)] crate::verif_support::reg_builder(&self.position as *const usize);'),
]

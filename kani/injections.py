"""Anchored, add-only injections into the scratch copy of /repo (engine K).  `anchor` is a regex that must match exactly
once in `file`; `where` = 'after' inserts the text right after the match (anchors end at a body's opening brace),
'before' inserts it as new line(s) above the line containing the match.  Nothing is ever removed or rewritten.
Groups are requested by harness files through `needs=` in their @file line."""

INJECTIONS = [
    # ---- unwind monitor: publish the address of each guard's `position` (DESIGN.md §3) ----
    dict(group='mon', name='monitor: ArrayConsumer::iter_position', file='src/internal.rs', where='after',
         anchor=r'pub unsafe fn iter_position\(&mut self\) -> \(slice::Iter<T>, &mut usize\) \{',
         text='        #[cfg(kani)] crate::verif_support::reg_consumer(&self.position as *const usize);'),
    dict(group='mon', name='monitor: IntrusiveArrayBuilder::iter_position', file='src/internal.rs', where='after',
         anchor=r"impl<'a, T, N: ArrayLength> IntrusiveArrayBuilder<'a, T, N> \{(?:.|\n)*?pub unsafe fn iter_position\(&mut self\) -> \(slice::IterMut<MaybeUninit<T>>, &mut usize\) \{",
         text='        #[cfg(kani)] crate::verif_support::reg_builder(&self.position as *const usize);'),
    dict(group='mon', name='monitor: IntrusiveArrayBuilder::extend', file='src/internal.rs', where='after',
         anchor=r"impl<'a, T, N: ArrayLength> IntrusiveArrayBuilder<'a, T, N> \{(?:.|\n)*?pub unsafe fn extend\(&mut self, source: impl Iterator<Item = T>\) \{",
         text='        #[cfg(kani)] crate::verif_support::reg_builder(&self.position as *const usize);'),
]

# ---- attribute contracts on inherent const fns (engine K; proved with #[kani::proof_for_contract]) ----
# The postconditions are taken from the property statements (C02, C10), not from the bodies.
def _c(name, anchor, lines):
    return dict(group='contracts', name='contract: ' + name, file='src/lib.rs', where='before', anchor=anchor,
                text='\n'.join('    #[cfg_attr(kani, %s)]' % l for l in lines))


INJECTIONS += [
    _c('as_slice', r'pub const fn as_slice\(&self\) -> &\[T\] \{', [
        'kani::ensures(|r: &&[T]| r.len() == N::USIZE && r.as_ptr() as usize == self as *const Self as usize)']),
    _c('try_from_slice', r'pub const fn try_from_slice\(slice: &\[T\]\) -> Result<&GenericArray<T, N>, LengthError> \{', [
        'kani::ensures(|r: &Result<&GenericArray<T, N>, LengthError>| match r { '
        'Ok(a) => slice.len() == N::USIZE && (*a as *const GenericArray<T, N> as usize) == slice.as_ptr() as usize, '
        'Err(_) => slice.len() != N::USIZE })']),
    _c('from_slice', r'pub const fn from_slice\(slice: &\[T\]\) -> &GenericArray<T, N> \{', [
        'kani::requires(slice.len() == N::USIZE)',
        'kani::ensures(|r: &&GenericArray<T, N>| (*r as *const GenericArray<T, N> as usize) == slice.as_ptr() as usize)']),
    _c('chunks_from_slice', r'pub const fn chunks_from_slice\(slice: &\[T\]\) -> \(&\[GenericArray<T, N>\], &\[T\]\) \{', [
        'kani::requires(N::USIZE != 0 || slice.len() == 0)',
        'kani::ensures(|r: &(&[GenericArray<T, N>], &[T])| N::USIZE != 0 || (r.0.len() == 0 && r.1.len() == 0))',
        'kani::ensures(|r: &(&[GenericArray<T, N>], &[T])| N::USIZE == 0 || ('
        'r.0.len() == slice.len() / N::USIZE && r.1.len() == slice.len() % N::USIZE '
        # the address of an EMPTY part is not observable as "memory covered" (C10 says: together cover the source exactly)
        '&& (r.0.len() == 0 || r.0.as_ptr() as usize == slice.as_ptr() as usize) '
        '&& (r.1.len() == 0 || r.1.as_ptr() as usize == slice.as_ptr() as usize + (slice.len() / N::USIZE) * N::USIZE * core::mem::size_of::<T>())))']),
    _c('slice_from_chunks', r'pub const fn slice_from_chunks\(slice: &\[GenericArray<T, N>\]\) -> &\[T\] \{', [
        'kani::ensures(|r: &&[T]| r.len() == slice.len() * N::USIZE && (r.len() == 0 || r.as_ptr() as usize == slice.as_ptr() as usize))']),
]

# ---- scope marker: the by-value iterator's own Drop is running (destructor monitor, C05) ----
INJECTIONS += [
    dict(group='iterdrop', name='scope marker: Drop for GenericArrayIter', file='src/iter.rs', where='after',
         anchor=r'impl<T, N: ArrayLength> Drop for GenericArrayIter<T, N> \{\s*fn drop\(&mut self\) \{',
         text='        #[cfg(kani)] let _verif_scope = crate::verif_support::IterDropScope::enter();'),
]

# ---- unwind monitor: `finish()` forgets the builder, which from then on guards nothing.  `finish` is a const fn, so
# the run-time registration goes through const_eval_select (compile-time twin is a no-op). ----
INJECTIONS += [
    dict(group='mon', name='crate feature gate for const_eval_select (cfg(kani) only)', file='src/lib.rs', where='after',
         anchor=r'#!\[no_std\]',
         text='#![cfg_attr(kani, feature(core_intrinsics, const_eval_select))]\n#![cfg_attr(kani, allow(internal_features))]'),
    dict(group='mon', name='monitor: IntrusiveArrayBuilder::finish', file='src/internal.rs', where='after',
         anchor=r'pub const unsafe fn finish\(self\) \{',
         text='        #[cfg(kani)] core::intrinsics::const_eval_select((&self.position as *const usize,), crate::verif_support::fin_builder_ct, crate::verif_support::fin_builder);'),
]

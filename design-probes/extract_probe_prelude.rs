// DESIGN PROBE (not framework code): shape of the generated V-iter unit (C03/C04/C05/C06).
// Prelude = Slots<T,N> slot ledger + Foreign call log; bodies of len/next/next_back/fold/nth/drop are the
// real ones from src/iter.rs after rules R-trait, R-slots, R-read, R-dip, R-foreign, R-iter, R-forget, R-mutself;
// `nth` and `clone_fixed` are written in the *repaired* order (DESIGN.md section 6) - with today's order the two
// assertions marked "unwind obligation" fail, which is the C05 / C04 finding.
// Verified with: verus verus_iter_unit.rs --triggers-mode silent   (11 verified, 2.2 s)
use vstd::prelude::*;
verus! {

// =================== prelude (trusted) ===================
pub trait ArrayLength { spec fn n() -> usize; fn usize_() -> (r: usize) ensures r == Self::n(); }

#[verifier::external_body]
#[verifier::accept_recursive_types(T)]
#[verifier::accept_recursive_types(N)]
pub struct Slots<T, N> { _p: core::marker::PhantomData<(T, N)> }

impl<T, N: ArrayLength> Slots<T, N> {
    pub uninterp spec fn view(&self) -> Seq<Option<T>>;

    pub open spec fn ok(&self) -> bool { self.view().len() == N::n() }
    pub open spec fn live(&self, k: int) -> bool { self.view()[k].is_some() }
    pub open spec fn all_dead(&self) -> bool { forall|k: int| 0 <= k < N::n() ==> (#[trigger] self.view()[k]).is_none() }

    #[verifier::external_body]
    pub fn take(&mut self, i: usize) -> (r: T)
        requires old(self).ok(), i < N::n(), old(self).live(i as int),
        ensures final(self).view() == old(self).view().update(i as int, None), r == old(self).view()[i as int].unwrap(),
    { unimplemented!() }

    #[verifier::external_body]
    pub fn put(&mut self, i: usize, v: T)
        requires old(self).ok(), i < N::n(), !old(self).live(i as int),
        ensures final(self).view() == old(self).view().update(i as int, Some(v)),
    { unimplemented!() }

    #[verifier::external_body]
    pub fn peek(&self, i: usize) -> (r: &T)
        requires self.ok(), i < N::n(), self.live(i as int),
        ensures *r == self.view()[i as int].unwrap(),
    { unimplemented!() }

    #[verifier::external_body]
    pub fn drop_range(&mut self, lo: usize, hi: usize)
        requires old(self).ok(), lo <= hi <= N::n(), forall|k: int| lo <= k < hi ==> (#[trigger] old(self).view()[k]).is_some(),
        ensures final(self).ok(),
                forall|k: int| 0 <= k < N::n() ==> #[trigger] final(self).view()[k] == (if lo <= k < hi { None } else { old(self).view()[k] }),
    { unimplemented!() }

    // bitwise copy of the whole block with every slot considered un-owned (ptr::read of a ManuallyDrop array)
    #[verifier::external_body]
    pub fn bitcopy_dead(&self) -> (r: Self)
        requires self.ok(),
        ensures r.ok(), r.all_dead(),
    { unimplemented!() }

    // mem::forget of the owner: only fine when nothing is live
    #[verifier::external_body]
    pub fn forget(self)
        requires self.ok(), self.all_dead(),
    { unimplemented!() }
}

pub open spec fn min_spec(a: usize, b: usize) -> usize { if a <= b { a } else { b } }
pub fn cmp_min(a: usize, b: usize) -> (r: usize) ensures r == min_spec(a, b) { if a <= b { a } else { b } }

// opaque caller-supplied code: arbitrary result, logged
pub trait Foreign2<A, B, R> {
    spec fn log(&self) -> Seq<(A, B, R)>;
    fn call(&mut self, a: A, b: B) -> (r: R)
        ensures final(self).log() == old(self).log().push((a, b, r));
}
pub trait ForeignClone: Sized {
    spec fn cloned(&self, r: Self) -> bool;
    fn clone_(&self) -> (r: Self) ensures self.cloned(r);
}

// =================== extracted: src/iter.rs ===================
pub struct GenericArrayIter<T, N: ArrayLength> {
    pub array: Slots<T, N>,
    pub index: usize,
    pub index_back: usize,
}

impl<T, N: ArrayLength> GenericArrayIter<T, N> {
    pub open spec fn wf(&self) -> bool {
        &&& self.index <= self.index_back <= N::n()
        &&& self.array.ok()
        &&& forall|k: int| 0 <= k < N::n() ==> ((#[trigger] self.array.view()[k]).is_some() <==> self.index <= k < self.index_back)
    }
    pub open spec fn remaining(&self) -> Seq<T> {
        Seq::new((self.index_back - self.index) as nat, |j: int| self.array.view()[self.index + j].unwrap())
    }

/*@@EXTRACTED@@*/
}

} // verus!
fn main() {}

// DESIGN PROBES (not framework code, not compiled from here): Kani harness shapes that were run against a scratch
// copy of /repo while writing DESIGN.md. Each block was appended to the named source file under #[cfg(kani)];
// timings are wall-clock solver times on this sandbox. Kept so the framework phase starts from shapes known to work.
//
// Command used:  CARGO_NET_OFFLINE=true cargo kani [-j 16 --output-format terse] [--features ..] [-Z stubbing]
//                [-Z function-contracts] [-Z concrete-playback --concrete-playback=print] --harness <name>
//                [-Z unstable-options --cbmc-args --memory-leak-check]
//
// Lessons: (1) `GenericArray::from_array(kani::any())` cannot infer the const length - always write
// `kani::any::<[T; K]>()`; (2) use `kani::assert(c, "literal")`, not `assert!(c, "literal")` (run-time formatted messages
// become a placeholder); (3) `proof_for_contract` havocs statics and is ~200x slower once loops are involved;
// (4) trait-impl methods of generic types cannot carry attribute contracts; (5) zeroize::optimization_barrier is inline
// asm -> stub it; (6) an unwinding-assertion failure is reported as its own failed check -> classify as undecided.

// ---------------------------------------------------------------------------------------------------------------
// src/iter.rs : arbitrary wf state + Hoare triple for nth (1 s on U4)
// ---------------------------------------------------------------------------------------------------------------
#[cfg(kani)]
mod kani_iter_probe {
    use super::*;
    use typenum::consts::*;

    fn any_iter<N: ArrayLength>() -> GenericArrayIter<u8, N> {
        let arr: GenericArray<u8, N> =
            <GenericArray<u8, N> as crate::sequence::GenericSequence<u8>>::generate(|_| kani::any());
        let index: usize = kani::any();
        let index_back: usize = kani::any();
        kani::assume(index <= index_back && index_back <= N::USIZE);
        GenericArrayIter { array: ManuallyDrop::new(arr), index, index_back }
    }

    #[kani::proof]
    #[kani::unwind(10)]
    fn nth_u4() {
        let mut it = any_iter::<U4>();
        let (i0, b0) = (it.index, it.index_back);
        let n: usize = kani::any();
        let snapshot: [u8; 4] = [it.array[0], it.array[1], it.array[2], it.array[3]];
        let r = it.nth(n);
        let len = b0 - i0;
        if n < len {
            assert!(r == Some(snapshot[i0 + n]));
            assert!(it.index == i0 + n + 1 && it.index_back == b0);
        } else {
            assert!(r.is_none());
            assert!(it.index == b0 && it.index_back == b0);
        }
    }
}

// ---------------------------------------------------------------------------------------------------------------
// src/iter.rs : destructor-time monitor for C05 (fails on today's nth: cex front=0, back=4, n=1)
// ---------------------------------------------------------------------------------------------------------------
#[cfg(kani)]
mod kani_dtor_monitor_probe {
    use super::*;
    use typenum::consts::*;
    use crate::sequence::GenericSequence;

    static mut LIVE: [u8; 16] = [0; 16];
    static mut IT: *const GenericArrayIter<D, U5> = core::ptr::null();
    struct D(usize);
    impl Drop for D {
        fn drop(&mut self) {
            unsafe {
                kani::assert(LIVE[self.0] == 1, "double drop");
                LIVE[self.0] = 0;
                if !IT.is_null() {
                    // a destructor may unwind: the iterator's own Drop must not cover this slot any more
                    let (i, b) = ((*IT).index, (*IT).index_back);
                    kani::assert(!(i <= self.0 && self.0 < b), "slot being dropped is still inside the iterator's live range");
                }
            }
        }
    }
    fn mk(i: usize) -> D { unsafe { LIVE[i] = 1; } D(i) }

    #[kani::proof]
    #[kani::unwind(8)]
    fn nth_dtor_monitor_u5() {
        // (framework version builds the arbitrary state directly instead of looping; 32 s -> ~3 s)
        let arr: GenericArray<D, U5> = GenericArray::generate(mk);
        let mut it = arr.into_iter();
        let f: usize = kani::any();
        let b: usize = kani::any();
        kani::assume(f <= 5 && b <= 5 && f + b <= 5);
        for _ in 0..f { core::mem::forget(it.next()); }
        for _ in 0..b { core::mem::forget(it.next_back()); }
        let n: usize = kani::any();
        unsafe { IT = &it as *const _; }
        let r = it.nth(n);
        unsafe { IT = core::ptr::null(); }
        core::mem::forget(r);
        core::mem::forget(it);
    }
}

// ---------------------------------------------------------------------------------------------------------------
// src/internal.rs injections + src/lib.rs : unwind monitor for C04 (6 s on U4; fails when `*position += 1` is
// moved after `f(value)` in map)
// ---------------------------------------------------------------------------------------------------------------
// injected as first statement of ArrayConsumer::iter_position:
//     #[cfg(kani)] crate::verif_mon::reg_consumer(&self.position as *const usize);
// injected as first statement of IntrusiveArrayBuilder::{extend, iter_position}:
//     #[cfg(kani)] crate::verif_mon::reg_builder(&self.position as *const usize);
#[cfg(kani)]
pub(crate) mod verif_mon {
    pub static mut CONS: [*const usize; 4] = [core::ptr::null(); 4];
    pub static mut NCONS: usize = 0;
    pub static mut BUILD: [*const usize; 4] = [core::ptr::null(); 4];
    pub static mut NBUILD: usize = 0;
    pub fn reg_consumer(p: *const usize) { unsafe { CONS[NCONS] = p; NCONS += 1; } }
    pub fn reg_builder(p: *const usize) { unsafe { BUILD[NBUILD] = p; NBUILD += 1; } }
}
#[cfg(kani)]
mod kani_unwind_monitor_probe {
    use super::*;
    use typenum::consts::*;
    use crate::verif_mon::*;

    struct D(usize);
    static mut LIVE: [u8; 16] = [0; 16];
    impl Drop for D { fn drop(&mut self) { unsafe { kani::assert(LIVE[self.0] == 1, "double drop"); LIVE[self.0] = 0; } } }
    fn mk(i: usize) -> D { unsafe { LIVE[i] = 1; } D(i) }

    #[kani::proof]
    #[kani::unwind(8)]
    fn map_unwind_monitor_u4() {
        let arr: GenericArray<D, U4> = GenericArray::generate(mk);
        unsafe { NCONS = 0; NBUILD = 0; }
        let mut handed = 0usize;
        let mut returned = 0usize;
        let out: GenericArray<D, U4> = arr.map(|d| {
            kani::assert(d.0 == handed, "order");
            handed += 1;
            unsafe {
                kani::assert(NCONS == 1 && NBUILD == 1, "one consumer, one builder");
                kani::assert(*CONS[0] == handed, "consumer position must exclude exactly the handed-out elements");
                kani::assert(*BUILD[0] == returned, "builder position must equal the number of stored results");
            }
            returned += 1;
            d
        });
        assert!(handed == 4);
        drop(out);
        unsafe { let mut i = 0; while i < 4 { assert!(LIVE[i] == 0); i += 1; } }
    }
}

// ---------------------------------------------------------------------------------------------------------------
// src/lib.rs : attribute contract on an inherent const fn (0.4 s), injected above the signature
// ---------------------------------------------------------------------------------------------------------------
//    #[cfg_attr(kani, kani::requires(N::USIZE != 0 || slice.len() == 0))]
//    #[cfg_attr(kani, kani::ensures(|r: &(&[GenericArray<T, N>], &[T])| N::USIZE == 0 ||
//        (r.0.len() == slice.len() / N::USIZE && r.1.len() == slice.len() % N::USIZE
//         && r.0.as_ptr() as *const T == slice.as_ptr())))]
//    pub const fn chunks_from_slice(slice: &[T]) -> (&[GenericArray<T, N>], &[T]) {
#[cfg(kani)]
mod kani_contract_probe {
    use super::*;
    use typenum::consts::*;
    #[kani::proof_for_contract(GenericArray::<u8, U3>::chunks_from_slice)]
    fn contract_chunks() {
        let data: [u8; 14] = kani::any();
        let l: usize = kani::any();
        kani::assume(l <= 14);
        let _ = GenericArray::<u8, U3>::chunks_from_slice(&data[..l]);
    }
}

// ---------------------------------------------------------------------------------------------------------------
// src/lib.rs : try_from_iter against a scripted source (1.1 s as a plain harness)
// ---------------------------------------------------------------------------------------------------------------
#[cfg(kani)]
mod kani_tfi_probe {
    use super::*;
    use typenum::consts::*;
    pub struct Src { pub left: usize, pub polls: usize }
    impl Iterator for Src {
        type Item = u8;
        fn next(&mut self) -> Option<u8> { self.polls += 1; if self.left == 0 { None } else { self.left -= 1; Some(7) } }
    }
    #[kani::proof]
    #[kani::unwind(8)]
    fn tfi_u3() {
        let left: usize = kani::any();
        kani::assume(left <= 6);
        let r = GenericArray::<u8, U3>::try_from_iter(Src { left, polls: 0 });
        assert!(r.is_ok() == (left == 3));
    }
}

// ---------------------------------------------------------------------------------------------------------------
// src/impl_serde.rs (--features serde) : visit_seq against a scripted SeqAccess (1.7 s on U3)
// ---------------------------------------------------------------------------------------------------------------
#[cfg(kani)]
mod kani_serde_probe {
    use super::*;
    use typenum::consts::*;

    #[derive(Debug)]
    struct E;
    impl fmt::Display for E { fn fmt(&self, f: &mut fmt::Formatter) -> fmt::Result { f.write_str("E") } }
    impl de::Error for E { fn custom<T: fmt::Display>(_m: T) -> Self { E } }
    impl serde::de::StdError for E {}

    struct Script { count: usize, given: usize, hint: Option<usize>, err_at: usize, polled_after_end: bool, ended: bool }
    impl<'de> SeqAccess<'de> for Script {
        type Error = E;
        fn next_element_seed<S: de::DeserializeSeed<'de>>(&mut self, seed: S) -> Result<Option<S::Value>, E> {
            if self.ended { self.polled_after_end = true; }
            if self.given == self.err_at { return Err(E); }
            if self.given >= self.count { self.ended = true; return Ok(None); }
            let v = self.given as u8;
            self.given += 1;
            seed.deserialize(serde::de::value::U8Deserializer::<E>::new(v)).map(Some)
        }
        fn size_hint(&self) -> Option<usize> { self.hint }
    }

    #[kani::proof]
    #[kani::unwind(8)]
    fn visit_seq_u3() {
        let count: usize = kani::any();
        kani::assume(count <= 5);
        let err_at: usize = kani::any();
        let hint: Option<usize> = if kani::any() { Some(count) } else { None };
        let mut s = Script { count, given: 0, hint, err_at, polled_after_end: false, ended: false };
        let v = GAVisitor::<u8, U3> { _t: PhantomData, _n: PhantomData };
        let r = v.visit_seq(&mut s);
        if count == 3 && err_at > 3 {
            let a = r.unwrap();
            assert!(a[0] == 0 && a[1] == 1 && a[2] == 2);
        } else {
            assert!(r.is_err());
        }
    }
}

// ---------------------------------------------------------------------------------------------------------------
// src/hex.rs : formatting through core::fmt into a byte sink (U4: 8 s, U17: 97 s)
// ---------------------------------------------------------------------------------------------------------------
#[cfg(kani)]
mod kani_hex_probe {
    use super::*;
    use core::fmt::Write;
    use typenum::consts::*;

    struct Sink { buf: [u8; 80], len: usize }
    impl fmt::Write for Sink {
        fn write_str(&mut self, s: &str) -> fmt::Result {
            let b = s.as_bytes();
            let mut i = 0;
            while i < b.len() { self.buf[self.len] = b[i]; self.len += 1; i += 1; }
            Ok(())
        }
    }
    fn digit(n: u8) -> u8 { if n < 10 { b'0' + n } else { b'a' + n - 10 } }

    #[kani::proof]
    #[kani::unwind(40)]
    fn hex_u4() {
        let arr: GenericArray<u8, U4> = GenericArray::from_array(kani::any::<[u8; 4]>());
        let p: usize = kani::any();
        kani::assume(p <= 10);
        let mut s = Sink { buf: [0; 80], len: 0 };
        write!(s, "{:.*x}", p, arr).unwrap();
        let want = if p < 8 { p } else { 8 };
        assert!(s.len == want);
        let k: usize = kani::any();
        kani::assume(k < want);
        let byte = arr[k / 2];
        let d = if k % 2 == 0 { byte >> 4 } else { byte & 0xf };
        assert!(s.buf[k] == digit(d));
    }
}

// ---------------------------------------------------------------------------------------------------------------
// src/impl_alloc.rs (--features alloc) : allocator contract probes.  boxed_generate_u0 FAILS today
// ("__rust_alloc must be called with a size greater than 0"); boxed_generate_oom_u3 FAILS today
// ("null reference produced", impl_alloc.rs:183).
// ---------------------------------------------------------------------------------------------------------------
#[cfg(kani)]
mod kani_alloc_probe {
    use super::*;
    use typenum::consts::*;

    #[kani::proof]
    #[kani::unwind(6)]
    fn boxed_generate_u0() {
        let b = Box::<GenericArray<u32, U0>>::generate(|i| i as u32);
        drop(b);
    }

    unsafe fn alloc_may_fail(layout: core::alloc::Layout) -> *mut u8 {
        assert!(layout.size() > 0);
        if kani::any() { core::ptr::null_mut() } else { alloc::alloc::alloc_zeroed(layout) }
    }
    #[kani::proof]
    #[kani::unwind(6)]
    #[kani::stub(alloc::alloc::alloc, alloc_may_fail)]          // needs -Z stubbing
    fn boxed_generate_oom_u3() {
        let b = Box::<GenericArray<u32, U3>>::generate(|i| i as u32);
        assert!(b[2] == 2);
        drop(b);
    }
}

// ===============================================================================================================
// Blocks below are verbatim from the second scratch copy (zip forms 9 x ~20 s at -j 16 = 43 s wall; leak check;
// layout types / element address / f64 compare / hash stream 0.4-6.5 s; zeroize + const-default with the barrier stub)
// ===============================================================================================================

#[cfg(kani)]
mod kani_zip {
    use super::*;
    use typenum::consts::*;

    static mut LIVE: [u8; 32] = [0; 32];
    struct D(usize);
    impl Drop for D { fn drop(&mut self) { unsafe { kani::assert(LIVE[self.0] == 1, "double drop"); LIVE[self.0] = 0; } } }
    fn mk(i: usize) -> D { unsafe { LIVE[i] = 1; } D(i) }
    fn mk2(i: usize) -> D { unsafe { LIVE[i + 8] = 1; } D(i + 8) }
    type A = GenericArray<D, U3>;
    type P = GenericArray<(usize, usize), U3>;

    fn check(out: &P, calls: usize) {
        assert!(calls == 3);
        let i: usize = kani::any();
        kani::assume(i < 3);
        assert!(out[i] == (i, i + 8));
    }

    #[kani::proof] #[kani::unwind(6)]
    fn zip_own_own() { let a: A = A::generate(mk); let b: A = A::generate(mk2); let mut c = 0;
        let out: P = a.zip(b, |x, y| { assert!(x.0 == c); c += 1; (x.0, y.0) }); check(&out, c);
        unsafe { let mut i = 0; while i < 16 { assert!(LIVE[i] == 0); i += 1; } } }
    #[kani::proof] #[kani::unwind(6)]
    fn zip_own_ref() { let a: A = A::generate(mk); let b: A = A::generate(mk2); let mut c = 0;
        let out: P = a.zip(&b, |x, y| { assert!(x.0 == c); c += 1; (x.0, y.0) }); check(&out, c); }
    #[kani::proof] #[kani::unwind(6)]
    fn zip_own_mut() { let a: A = A::generate(mk); let mut b: A = A::generate(mk2); let mut c = 0;
        let out: P = a.zip(&mut b, |x, y| { assert!(x.0 == c); c += 1; (x.0, y.0) }); check(&out, c); }
    #[kani::proof] #[kani::unwind(6)]
    fn zip_ref_own() { let a: A = A::generate(mk); let b: A = A::generate(mk2); let mut c = 0;
        let out: P = (&a).zip(b, |x, y| { assert!(x.0 == c); c += 1; (x.0, y.0) }); check(&out, c); }
    #[kani::proof] #[kani::unwind(6)]
    fn zip_ref_ref() { let a: A = A::generate(mk); let b: A = A::generate(mk2); let mut c = 0;
        let out: P = (&a).zip(&b, |x, y| { assert!(x.0 == c); c += 1; (x.0, y.0) }); check(&out, c); }
    #[kani::proof] #[kani::unwind(6)]
    fn zip_ref_mut() { let a: A = A::generate(mk); let mut b: A = A::generate(mk2); let mut c = 0;
        let out: P = (&a).zip(&mut b, |x, y| { assert!(x.0 == c); c += 1; (x.0, y.0) }); check(&out, c); }
    #[kani::proof] #[kani::unwind(6)]
    fn zip_mut_own() { let mut a: A = A::generate(mk); let b: A = A::generate(mk2); let mut c = 0;
        let out: P = (&mut a).zip(b, |x, y| { assert!(x.0 == c); c += 1; (x.0, y.0) }); check(&out, c); }
    #[kani::proof] #[kani::unwind(6)]
    fn zip_mut_ref() { let mut a: A = A::generate(mk); let b: A = A::generate(mk2); let mut c = 0;
        let out: P = (&mut a).zip(&b, |x, y| { assert!(x.0 == c); c += 1; (x.0, y.0) }); check(&out, c); }
    #[kani::proof] #[kani::unwind(6)]
    fn zip_mut_mut() { let mut a: A = A::generate(mk); let mut b: A = A::generate(mk2); let mut c = 0;
        let out: P = (&mut a).zip(&mut b, |x, y| { assert!(x.0 == c); c += 1; (x.0, y.0) }); check(&out, c); }
}

#[cfg(kani)]
mod kani_misc {
    use super::*;
    use typenum::consts::*;
    use core::mem::{size_of, align_of};

    #[repr(align(64))] #[derive(Clone, Copy)] struct A64;
    #[derive(Clone, Copy)] struct Pad(u8, u16);

    const fn same<T, N: ArrayLength, const M: usize>() -> bool {
        size_of::<GenericArray<T, N>>() == size_of::<[T; M]>() && align_of::<GenericArray<T, N>>() == align_of::<[T; M]>()
    }
    type Big = typenum::U4611686018427387904; // 2^62
    type Big1 = typenum::Sub1<Big>;

    #[kani::proof]
    fn layout_types() {
        assert!(same::<u8, U0, 0>() && same::<u32, U0, 0>() && same::<A64, U0, 0>() && same::<A64, U5, 5>());
        assert!(same::<Pad, U1023, 1023>() && same::<Pad, U1024, 1024>());
        assert!(size_of::<GenericArray<u8, typenum::U1152921504606846976>>() == 1usize << 60);
        assert!(size_of::<GenericArray<u8, typenum::Sub1<typenum::U1152921504606846976>>>() == (1usize << 60) - 1);
        assert!(size_of::<GenericArray<(), Big1>>() == 0 && align_of::<GenericArray<A64, U0>>() == 64);
        assert!(size_of::<GenericArray<(), Big>>() == 0);
        assert!(size_of::<GenericArray<GenericArray<u16, U3>, U5>>() == 30);
    }

    #[kani::proof] #[kani::unwind(8)]
    fn elem_addr_u5() {
        let a: GenericArray<Pad, U5> = GenericArray::from_array(kani::any::<[(u8, u16); 5]>().map(|(x, y)| Pad(x, y)));
        let i: usize = kani::any();
        kani::assume(i < 5);
        let base = &a as *const _ as usize;
        let p = &a.as_slice()[i] as *const Pad as usize;
        assert!(p - base == i * size_of::<Pad>());
        let r: &[Pad; 5] = a.as_ref();
        assert!(r[i].1 == a[i].1);
    }

    // C13: comparisons vs slice on f64 incl NaN, and a recording hasher
    struct Rec { buf: [u8; 64], len: usize, calls: usize }
    impl core::hash::Hasher for Rec {
        fn finish(&self) -> u64 { 0 }
        fn write(&mut self, bytes: &[u8]) { self.calls += 1; let mut i = 0; while i < bytes.len() { self.buf[self.len] = bytes[i]; self.len += 1; i += 1; } }
    }
    #[kani::proof] #[kani::unwind(20)]
    fn cmp_f64_u3() {
        let a: GenericArray<f64, U3> = GenericArray::from_array(kani::any::<[f64; 3]>());
        let b: GenericArray<f64, U3> = GenericArray::from_array(kani::any::<[f64; 3]>());
        assert!(a.partial_cmp(&b) == a.as_slice().partial_cmp(b.as_slice()));
        assert!((a == b) == (a.as_slice() == b.as_slice()));
        assert!((a < b) == (a.as_slice() < b.as_slice()));
    }
    #[kani::proof] #[kani::unwind(40)]
    fn hash_u32_u3() {
        use core::hash::Hash;
        let a: GenericArray<u32, U3> = GenericArray::from_array(kani::any::<[u32; 3]>());
        let mut h1 = Rec { buf: [0; 64], len: 0, calls: 0 };
        let mut h2 = Rec { buf: [0; 64], len: 0, calls: 0 };
        a.hash(&mut h1);
        a.as_slice().hash(&mut h2);
        assert!(h1.len == h2.len && h1.calls == h2.calls);
        let k: usize = kani::any();
        kani::assume(k < h1.len);
        assert!(h1.buf[k] == h2.buf[k]);
        assert!(h1.len == 8 + 12);
    }
}

#[cfg(all(kani, feature = "zeroize", feature = "const-default"))]
mod kani_zc {
    use super::*;
    use typenum::consts::*;
    use zeroize::Zeroize;
    use const_default::ConstDefault;

    #[derive(Clone, Copy, PartialEq)]
    struct Two { a: u8, b: u16 }
    impl ConstDefault for Two { const DEFAULT: Self = Two { a: 7, b: 9 }; }
    impl Zeroize for Two { fn zeroize(&mut self) { self.a = 0; self.b = 0; } }

    fn noop_barrier<T: ?Sized>(_val: &T) {}
    #[kani::proof] #[kani::unwind(20)]
    #[kani::stub(zeroize::optimization_barrier, noop_barrier)]
    fn zeroize_u13() {
        let mut a: GenericArray<u64, U13> = GenericArray::from_array(kani::any::<[u64; 13]>());
        a.zeroize();
        let i: usize = kani::any(); kani::assume(i < 13);
        assert!(a[i] == 0);
    }
    #[kani::proof] #[kani::unwind(20)]
    fn const_default_u13() {
        let a: GenericArray<Two, U13> = GenericArray::const_default();
        const C: GenericArray<Two, U13> = GenericArray::<Two, U13>::DEFAULT;
        let i: usize = kani::any(); kani::assume(i < 13);
        assert!(a[i] == Two::DEFAULT && C[i] == Two::DEFAULT);
        let z: GenericArray<u8, U0> = GenericArray::const_default();
        assert!(z.len() == 0);
    }
}

#[cfg(kani)]
mod kani_leak {
    use super::*;
    use typenum::consts::*;
    #[kani::proof] #[kani::unwind(6)]
    fn leak_yes() { let b = Box::<GenericArray<u32, U3>>::generate(|i| i as u32); core::mem::forget(b); }
    #[kani::proof] #[kani::unwind(6)]
    fn leak_no() { let b = Box::<GenericArray<u32, U3>>::generate(|i| i as u32); drop(b); }
}

// DESIGN PROBE (not framework code): shape of the generated V-alloc unit for boxed `generate` (C16, all N, all element sizes).
// Prelude = allocator ledger: `alloc(layout)` requires size > 0 and may return null; a raw block must be non-null to be
// dereferenced; `Box::from_raw` requires the layout it will free with to equal the layout allocated; at every foreign
// call a live heap block must be owned by a guard.  `generate_today` is the body as it stands in impl_alloc.rs and is
// EXPECTED TO FAIL with exactly the three findings of DESIGN.md section 6 (zero-size request when N == 0, `&mut *ptr`
// on a possibly-null block, block owned by no guard while `f(i)` runs; the fourth error is the same zero-size block
// reaching Box::from_raw).  `generate_fixed` is the planned repair through Box::new_uninit and verifies, including the
// C08 postcondition (f called with 0,1,..,N-1 in order, result i stored at index i).
// Run: verus verus_alloc_unit.rs --triggers-mode silent --multiple-errors 8 --output-json --time
//      -> generate_fixed, box_from_raw, assume_init: success; generate_today: 4 errors.
use vstd::prelude::*;
verus! {

pub trait ArrayLength { spec fn n() -> usize; fn usize_() -> (r: usize) ensures r == Self::n(); }
pub trait Elem { spec fn size() -> usize; spec fn align() -> usize; fn size_of() -> (r: usize) ensures r == Self::size(); }

// ---------------- prelude: allocator ledger + slots living in a heap block ----------------
pub struct Layout { pub size: usize, pub align: usize }
pub open spec fn layout_of_array<T: Elem, N: ArrayLength>() -> Layout {
    Layout { size: (N::n() * T::size()) as usize, align: T::align() }           // C01 lemma: layout of GenericArray<_, N>
}
#[verifier::external_body]
pub fn layout_new<T: Elem, N: ArrayLength>() -> (l: Layout) ensures l == layout_of_array::<T, N>() { unimplemented!() }

// A raw heap block holding N slots.  `state`: 0 = null / dangling (nothing allocated), 1 = live block
pub struct RawBlock<T, N> { pub null: bool, pub dangling: bool, pub layout: Layout, pub slots: Slots<T, N> }

#[verifier::external_body]
#[verifier::accept_recursive_types(T)]
#[verifier::accept_recursive_types(N)]
pub struct Slots<T, N> { _p: core::marker::PhantomData<(T, N)> }
impl<T, N: ArrayLength> Slots<T, N> {
    pub uninterp spec fn view(&self) -> Seq<Option<T>>;
    pub open spec fn ok(&self) -> bool { self.view().len() == N::n() }
    pub open spec fn all_dead(&self) -> bool { forall|k: int| 0 <= k < N::n() ==> (#[trigger] self.view()[k]).is_none() }
    pub open spec fn all_live(&self) -> bool { forall|k: int| 0 <= k < N::n() ==> (#[trigger] self.view()[k]).is_some() }
    #[verifier::external_body]
    pub fn put(&mut self, i: usize, v: T)
        requires old(self).ok(), i < N::n(), old(self).view()[i as int].is_none(),
        ensures final(self).view() == old(self).view().update(i as int, Some(v)),
    { unimplemented!() }
    #[verifier::external_body]
    pub fn drop_range(&mut self, lo: usize, hi: usize)
        requires old(self).ok(), lo <= hi <= N::n(), forall|k: int| lo <= k < hi ==> (#[trigger] old(self).view()[k]).is_some(),
        ensures final(self).ok(),
                forall|k: int| 0 <= k < N::n() ==> #[trigger] final(self).view()[k] == (if lo <= k < hi { None } else { old(self).view()[k] }),
    { unimplemented!() }
}

// alloc::alloc::alloc(layout): GlobalAlloc contract
#[verifier::external_body]
pub fn alloc<T, N: ArrayLength>(layout: Layout) -> (b: RawBlock<T, N>)
    requires layout.size > 0,                                   // "undefined behavior can result if ... layout has a size of zero"
    ensures !b.dangling, b.layout == layout, !b.null ==> b.slots.ok() && b.slots.all_dead(),   // may be null
{ unimplemented!() }
// ptr::NonNull::dangling()
#[verifier::external_body]
pub fn dangling<T, N: ArrayLength>() -> (b: RawBlock<T, N>)
    ensures b.dangling, !b.null, b.slots.ok(), b.slots.all_dead(),
{ unimplemented!() }

pub trait ForeignGen<T> {
    spec fn log(&self) -> Seq<(usize, T)>;
    fn call(&mut self, i: usize) -> (r: T) ensures final(self).log() == old(self).log().push((i, r));
}

pub struct BoxedArray<T, N> { pub block: RawBlock<T, N> }
// Box::from_raw(ptr.cast()): the Box will later free with Layout::new::<GenericArray<T, N>>()
pub fn box_from_raw<T: Elem, N: ArrayLength>(b: RawBlock<T, N>) -> (r: BoxedArray<T, N>)
    requires !b.null, b.slots.ok(), b.slots.all_live(),
        // layout agreement: either nothing was allocated and Box<_> of a zero-sized type frees nothing, or the layouts match
        b.dangling ==> layout_of_array::<T, N>().size == 0,
        !b.dangling ==> b.layout == layout_of_array::<T, N>() && b.layout.size > 0,
    ensures r.block == b,
{ BoxedArray { block: b } }

// =================== extracted: boxed generate, as it is today (impl_alloc.rs:165-198) ===================
pub fn generate_today<T: Elem, N: ArrayLength, F: ForeignGen<T>>(f: &mut F) -> (ret: BoxedArray<T, N>)
    requires N::n() * T::size() <= usize::MAX, old(f).log().len() == 0,
{
    let mut ptr: RawBlock<T, N> = if T::size_of() == 0 {
        dangling()
    } else {
        alloc(layout_new::<T, N>())
    };
    assert(!ptr.null);                                  // `&mut *ptr`  (obligation: non-null)
    let mut position: usize = 0;                        // IntrusiveArrayBuilder::new(&mut *ptr)
    let mut i: usize = 0;
    while i < N::usize_()
        invariant !ptr.null, ptr.slots.ok(), position == i, i <= N::n(),
            forall|k: int| 0 <= k < N::n() ==> ((#[trigger] ptr.slots.view()[k]).is_some() <==> k < position),
        decreases N::n() - i,
    {
        assert(ptr.dangling);                           // unwind obligation @ f(i): a live heap block must be owned by a guard - none is
        let v = f.call(i);
        ptr.slots.put(i, v);                            // dst.write(f(i))
        position += 1;
        i += 1;
    }
    box_from_raw(ptr)
}


// ---------------- prelude: Box<MaybeUninit<GenericArray<T, N>>> (std contract, assumed) ----------------
// Box::new_uninit(): allocates with Layout::new::<GenericArray<T,N>>() unless that is zero-sized, diverts to
// handle_alloc_error on null, frees the block (without touching the contents) when dropped.
pub struct UninitBox<T, N> { pub slots: Slots<T, N> }
#[verifier::external_body]
pub fn box_new_uninit<T: Elem, N: ArrayLength>() -> (b: UninitBox<T, N>)
    ensures b.slots.ok(), b.slots.all_dead(),
{ unimplemented!() }
pub struct BoxedArray2<T, N> { pub slots: Slots<T, N> }
impl<T, N: ArrayLength> UninitBox<T, N> {
    // Box<MaybeUninit<_>>::assume_init
    pub fn assume_init(self) -> (r: BoxedArray2<T, N>)
        requires self.slots.ok(), self.slots.all_live(),
        ensures r.slots == self.slots,
    { BoxedArray2 { slots: self.slots } }
}

// =================== extracted: boxed generate after the planned fix ===================
pub fn generate_fixed<T: Elem, N: ArrayLength, F: ForeignGen<T>>(f: &mut F) -> (ret: BoxedArray2<T, N>)
    requires old(f).log().len() == 0,
    ensures ret.slots.ok(), ret.slots.all_live(),
        final(f).log().len() == N::n(),
        forall|k: int| 0 <= k < N::n() ==> (#[trigger] final(f).log()[k]).0 == k && ret.slots.view()[k] == Some(final(f).log()[k].1),
{
    let mut boxed: UninitBox<T, N> = box_new_uninit();  // guard #1: owns the block
    let mut position: usize = 0;                        // guard #2: IntrusiveArrayBuilder over the block's slots
    let mut i: usize = 0;
    while i < N::usize_()
        invariant boxed.slots.ok(), position == i, i <= N::n(),
            forall|k: int| 0 <= k < N::n() ==> ((#[trigger] boxed.slots.view()[k]).is_some() <==> k < position),
            f.log().len() == i,
            forall|k: int| 0 <= k < i ==> (#[trigger] f.log()[k]).0 == k && boxed.slots.view()[k] == Some(f.log()[k].1),
        decreases N::n() - i,
    {
        // unwind obligation @ f(i): block owned by `boxed` (a guard), slots [0,position) owned by the builder: holds by the invariant
        let v = f.call(i);
        boxed.slots.put(i, v);                          // dst.write(f(i))
        position += 1;
        i += 1;
    }
    boxed.assume_init()                                 // builder.finish(); boxed.assume_init()
}
} // verus!
fn main() {}

// DESIGN PROBE (not framework code): shape of the generated V-hex unit (C14).
// generic_hex's body is the real one from src/hex.rs after rules R-len, R-view, R-foreign (formatter sink), R-iter
// (`for chunk in input.chunks(1024)` -> while loop); proof blocks and the loop invariant are what the sidecar supplies.
// hex_encode is a contracted callee (proved on its own body without faster-hex; assumed dependency contract with it).
// Verified with: verus verus_hex_unit.rs --triggers-mode silent   (8 verified, 2.2 s); dropping `+ (max_digits & 1)` fails.
use vstd::prelude::*;
verus! {

pub trait ArrayLength { spec fn n() -> usize; fn usize_() -> (r: usize) ensures r == Self::n(); }

pub open spec fn digit(nib: u8, upper: bool) -> u8 {
    if nib < 10 { (48 + nib) as u8 } else if upper { (55 + nib) as u8 } else { (87 + nib) as u8 }
}
pub open spec fn hexdigits(s: Seq<u8>, upper: bool) -> Seq<u8> {
    Seq::new(2 * s.len(), |k: int| if k % 2 == 0 { digit(s[k / 2] >> 4, upper) } else { digit(s[k / 2] & 0xf, upper) })
}
pub open spec fn min_spec(a: usize, b: usize) -> usize { if a <= b { a } else { b } }
pub open spec fn mini(a: int, b: int) -> int { if a <= b { a } else { b } }
pub fn cmp_min(a: usize, b: usize) -> (r: usize) ensures r == min_spec(a, b) { if a <= b { a } else { b } }

// ---- prelude: formatter sink, byte slices/buffers ----
pub struct Fmt { pub precision: Option<usize>, pub out: Ghost<Seq<u8>> }
impl Fmt {
    pub fn precision(&self) -> (r: Option<usize>) ensures r == self.precision { self.precision }
    // f.write_str(unsafe { str::from_utf8_unchecked(buf.get_unchecked(..k)) })?   -- Err propagates (R-panic style: modelled as Ok; fmt errors abort the whole fmt call)
    #[verifier::external_body]
    pub fn write_prefix(&mut self, buf: &Vec<u8>, k: usize)
        requires k <= buf@.len(),
        ensures final(self).out@ == old(self).out@ + buf@.subrange(0, k as int), final(self).precision == old(self).precision,
    { unimplemented!() }
}

// contract of hex_encode_fallback / hex_encode (proved separately on its own body; with faster-hex: assumed)
#[verifier::external_body]
pub fn hex_encode(src: &[u8], dst: &mut Vec<u8>, upper: bool)
    requires old(dst)@.len() >= 2 * src@.len(),
    ensures final(dst)@.len() == old(dst)@.len(),
        final(dst)@.subrange(0, 2 * src@.len() as int) == hexdigits(src@, upper),
        final(dst)@.subrange(2 * src@.len() as int, old(dst)@.len() as int) == old(dst)@.subrange(2 * src@.len() as int, old(dst)@.len() as int),
{ unimplemented!() }

#[verifier::external_body]
pub fn zeroed(len: usize) -> (v: Vec<u8>) ensures v@.len() == len { unimplemented!() }   // GenericArray::<u8, Sum<N,N>>::default(), [0u8; 2048]

#[verifier::external_body]
pub fn subslice(s: &[u8], lo: usize, hi: usize) -> (r: &[u8])
    requires lo <= hi <= s@.len(), ensures r@ == s@.subrange(lo as int, hi as int)
{ unimplemented!() }

proof fn lemma_hex_prefix(s: Seq<u8>, k: int, upper: bool)
    requires 0 <= k <= s.len(),
    ensures hexdigits(s.subrange(0, k), upper) =~= hexdigits(s, upper).subrange(0, 2 * k),
{}
proof fn lemma_hex_concat(a: Seq<u8>, b: Seq<u8>, upper: bool)
    ensures hexdigits(a + b, upper) =~= hexdigits(a, upper) + hexdigits(b, upper),
{
    assert forall|k: int| 0 <= k < 2 * (a.len() + b.len()) implies hexdigits(a + b, upper)[k] == (hexdigits(a, upper) + hexdigits(b, upper))[k] by {
        if k < 2 * a.len() { assert((a + b)[k / 2] == a[k / 2]); }
        else { assert((k - 2 * a.len()) / 2 == k / 2 - a.len()); assert((k - 2 * a.len()) % 2 == k % 2); assert((a + b)[k / 2] == b[k / 2 - a.len()]); }
    }
}

// ---- extracted: generic_hex ----
pub fn generic_hex<N: ArrayLength>(arr: &[u8], f: &mut Fmt, upper: bool)
    requires arr@.len() == N::n(), N::n() * 2 <= usize::MAX, old(f).out@.len() == 0,
    ensures ({
        let want = match old(f).precision { Some(p) => if p < 2 * N::n() { p as int } else { 2 * N::n() as int }, None => 2 * N::n() as int };
        final(f).out@ == hexdigits(arr@, upper).subrange(0, want)
    }),
{
    let max_digits = N::usize_() * 2;
    let max_digits = match f.precision() {
        Some(precision) if precision < max_digits => precision,
        _ => max_digits,
    };

    // ceil(max_digits / 2)
    assert(max_digits >> 1 == max_digits / 2 && max_digits & 1 == max_digits % 2) by (bit_vector);
    let max_bytes = (max_digits >> 1) + (max_digits & 1);

    let input = {
        if max_bytes > N::usize_() {
            assert(false);      // unreachable_unchecked
        }
        subslice(arr, 0, max_bytes)
    };
    proof { lemma_hex_prefix(arr@, max_bytes as int, upper); }

    if N::usize_() <= 1024 {
        let mut buf = zeroed(N::usize_() + N::usize_());

        if N::usize_() < 16 {
            hex_encode(arr, &mut buf, upper);
        } else {
            hex_encode(input, &mut buf, upper);
        }

        f.write_prefix(&buf, max_digits);
        proof {
            assert(f.out@ =~= hexdigits(arr@, upper).subrange(0, max_digits as int));
        }
    } else {
        let mut buf = zeroed(2048);
        let mut digits_left = max_digits;

        let mut off: usize = 0;
        proof { assert(f.out@ =~= hexdigits(input@, upper).subrange(0, 0)); }
        while off < input.len()
            invariant
                input@ == arr@.subrange(0, max_bytes as int), max_bytes <= N::n(), arr@.len() == N::n(),
                max_bytes == (max_digits / 2) + (max_digits % 2), max_digits <= 2 * N::n(),
                off <= input@.len(), off % 1024 == 0 || off == input@.len(),
                buf@.len() == 2048,
                digits_left == max_digits - mini(2 * off, max_digits as int),
                f.out@ == hexdigits(input@, upper).subrange(0, mini(2 * off, max_digits as int) as int),
            decreases input@.len() - off,
        {
            let end = cmp_min(off + 1024, input.len());
            let chunk = subslice(input, off, end);          // input.chunks(1024)
            hex_encode(chunk, &mut buf, upper);

            let n = cmp_min(chunk.len() * 2, digits_left);
            proof {
                lemma_hex_concat(input@.subrange(0, off as int), chunk@, upper);
                assert(input@.subrange(0, off as int) + chunk@ =~= input@.subrange(0, end as int));
                lemma_hex_prefix(input@, off as int, upper);
                lemma_hex_prefix(input@, end as int, upper);
            }
            let ghost dl0 = digits_left as int;
            f.write_prefix(&buf, n);
            digits_left -= n;
            proof {
                let e0 = mini(2 * off, max_digits as int) as int;
                let e1 = mini(2 * end, max_digits as int) as int;
                assert(2 * off < 2 * max_bytes && 2 * max_bytes <= max_digits + 1);
                assert(off % 1024 == 0 && off < max_bytes);
                assert(2 * off <= max_digits);
                assert(e0 == 2 * off);
                assert(dl0 == max_digits - 2 * off);
                assert(n == mini(2 * (end - off), max_digits - 2 * off));
                assert(chunk@.len() == end - off);
                assert(e1 == e0 + n);
                assert(f.out@ =~= hexdigits(input@, upper).subrange(0, e1));
            }
            off = end;
        }
        proof {
            assert(mini(2 * max_bytes, max_digits as int) == max_digits);
            assert(f.out@ =~= hexdigits(arr@, upper).subrange(0, max_digits as int));
        }
    }
}

} // verus!
fn main() {}

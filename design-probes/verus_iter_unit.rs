// DESIGN PROBE (not framework code): shape of the generated V-iter unit (C03/C04/C05/C06).
// Prelude = Slots<T,N> slot ledger + Foreign call log; bodies of len/next/next_back/fold/nth/drop are the
// real ones from src/iter.rs after rules R-trait, R-slots, R-read, R-dip, R-foreign, R-iter, R-forget, R-mutself;
// `nth` and `clone_fixed` are written in the *repaired* order (DESIGN.md section 6) - with today's order the two
// assertions marked "unwind obligation" fail, which is the C05 / C04 finding.
// Verified with: verus verus_iter_unit.rs --triggers-mode silent   (11 verified, 2.2 s)
use vstd::prelude::*;
verus! {

// =================== prelude (trusted) ===================
pub trait ArrayLength { spec fn n() -> usize; fn usize_() -> (r: usize) ensures r == Self::n(); }

#[verifier::external_body]
#[verifier::accept_recursive_types(T)]
#[verifier::accept_recursive_types(N)]
pub struct Slots<T, N> { _p: core::marker::PhantomData<(T, N)> }

impl<T, N: ArrayLength> Slots<T, N> {
    pub uninterp spec fn view(&self) -> Seq<Option<T>>;

    pub open spec fn ok(&self) -> bool { self.view().len() == N::n() }
    pub open spec fn live(&self, k: int) -> bool { self.view()[k].is_some() }
    pub open spec fn all_dead(&self) -> bool { forall|k: int| 0 <= k < N::n() ==> (#[trigger] self.view()[k]).is_none() }

    #[verifier::external_body]
    pub fn take(&mut self, i: usize) -> (r: T)
        requires old(self).ok(), i < N::n(), old(self).live(i as int),
        ensures final(self).view() == old(self).view().update(i as int, None), r == old(self).view()[i as int].unwrap(),
    { unimplemented!() }

    #[verifier::external_body]
    pub fn put(&mut self, i: usize, v: T)
        requires old(self).ok(), i < N::n(), !old(self).live(i as int),
        ensures final(self).view() == old(self).view().update(i as int, Some(v)),
    { unimplemented!() }

    #[verifier::external_body]
    pub fn peek(&self, i: usize) -> (r: &T)
        requires self.ok(), i < N::n(), self.live(i as int),
        ensures *r == self.view()[i as int].unwrap(),
    { unimplemented!() }

    #[verifier::external_body]
    pub fn drop_range(&mut self, lo: usize, hi: usize)
        requires old(self).ok(), lo <= hi <= N::n(), forall|k: int| lo <= k < hi ==> (#[trigger] old(self).view()[k]).is_some(),
        ensures final(self).ok(),
                forall|k: int| 0 <= k < N::n() ==> #[trigger] final(self).view()[k] == (if lo <= k < hi { None } else { old(self).view()[k] }),
    { unimplemented!() }

    // bitwise copy of the whole block with every slot considered un-owned (ptr::read of a ManuallyDrop array)
    #[verifier::external_body]
    pub fn bitcopy_dead(&self) -> (r: Self)
        requires self.ok(),
        ensures r.ok(), r.all_dead(),
    { unimplemented!() }

    // mem::forget of the owner: only fine when nothing is live
    #[verifier::external_body]
    pub fn forget(self)
        requires self.ok(), self.all_dead(),
    { unimplemented!() }
}

pub open spec fn min_spec(a: usize, b: usize) -> usize { if a <= b { a } else { b } }
pub fn cmp_min(a: usize, b: usize) -> (r: usize) ensures r == min_spec(a, b) { if a <= b { a } else { b } }

// opaque caller-supplied code: arbitrary result, logged
pub trait Foreign2<A, B, R> {
    spec fn log(&self) -> Seq<(A, B, R)>;
    fn call(&mut self, a: A, b: B) -> (r: R)
        ensures final(self).log() == old(self).log().push((a, b, r));
}
pub trait ForeignClone: Sized {
    spec fn cloned(&self, r: Self) -> bool;
    fn clone_(&self) -> (r: Self) ensures self.cloned(r);
}

// =================== extracted: src/iter.rs ===================
pub struct GenericArrayIter<T, N: ArrayLength> {
    pub array: Slots<T, N>,
    pub index: usize,
    pub index_back: usize,
}

impl<T, N: ArrayLength> GenericArrayIter<T, N> {
    pub open spec fn wf(&self) -> bool {
        &&& self.index <= self.index_back <= N::n()
        &&& self.array.ok()
        &&& forall|k: int| 0 <= k < N::n() ==> ((#[trigger] self.array.view()[k]).is_some() <==> self.index <= k < self.index_back)
    }
    pub open spec fn remaining(&self) -> Seq<T> {
        Seq::new((self.index_back - self.index) as nat, |j: int| self.array.view()[self.index + j].unwrap())
    }

    fn len(&self) -> (r: usize)
        requires self.wf(),
        ensures r == self.remaining().len(),
    { self.index_back - self.index }

    fn next(&mut self) -> (r: Option<T>)
        requires old(self).wf(),
        ensures final(self).wf(),
            old(self).remaining().len() == 0 ==> r.is_none() && final(self).remaining() == old(self).remaining(),
            old(self).remaining().len() > 0 ==> r == Some(old(self).remaining().first()) && final(self).remaining() == old(self).remaining().drop_first(),
    {
        if self.index < self.index_back {
            let p = Some(self.array.take(self.index));
            self.index += 1;
            proof { assert(final(self).remaining() =~= old(self).remaining().drop_first()); }
            p
        } else { None }
    }

    fn next_back(&mut self) -> (r: Option<T>)
        requires old(self).wf(),
        ensures final(self).wf(),
            old(self).remaining().len() == 0 ==> r.is_none() && final(self).remaining() == old(self).remaining(),
            old(self).remaining().len() > 0 ==> r == Some(old(self).remaining().last()) && final(self).remaining() == old(self).remaining().drop_last(),
    {
        if self.index < self.index_back {
            self.index_back -= 1;
            let r = Some(self.array.take(self.index_back));
            proof { assert(final(self).remaining() =~= old(self).remaining().drop_last()); }
            r
        } else { None }
    }

    // fold, after R-trait/R-iter/R-foreign/R-read/R-forget
    fn fold<B, F: Foreign2<B, T, B>>(self, init: B, f: &mut F) -> (ret: B)
        requires self.wf(), old(f).log().len() == 0,
        ensures
            final(f).log().len() == self.remaining().len(),
            forall|k: int| 0 <= k < self.remaining().len() ==> (#[trigger] final(f).log()[k]).1 == self.remaining()[k],
            self.remaining().len() == 0 ==> ret == init,
            self.remaining().len() > 0 ==> final(f).log()[0].0 == init && ret == final(f).log().last().2,
            forall|k: int| 0 < k < self.remaining().len() ==> (#[trigger] final(f).log()[k]).0 == final(f).log()[k - 1].2,
    {
        let mut this = self;
        let ghost rem0 = this.remaining();
        let ghost i0 = this.index;
        let index_back = this.index_back;
        let mut acc = init;
        let mut k: usize = 0;
        let cnt = index_back - this.index;
        while k < cnt
            invariant
                this.wf(), this.index_back == index_back, this.index == i0 + k, k <= cnt, cnt == rem0.len(), i0 + cnt == index_back,
                forall|j: int| 0 <= j < cnt - k ==> this.remaining()[j] == rem0[k + j],
                f.log().len() == k,
                forall|j: int| 0 <= j < k ==> (#[trigger] f.log()[j]).1 == rem0[j],
                k == 0 ==> acc == init,
                k > 0 ==> f.log()[0].0 == init && acc == f.log().last().2,
                forall|j: int| 0 < j < k ==> (#[trigger] f.log()[j]).0 == f.log()[j - 1].2,
            decreases cnt - k,
        {
            let ghost before = this.remaining();
            let value = this.array.take(this.index);
            this.index += 1;
            proof {
                assert(this.wf());                 // unwind obligation @ f(acc, value)
                assert(value == before[0] && before[0] == rem0[k as int]);
                assert(this.remaining() =~= before.drop_first());
            }
            acc = f.call(acc, value);
            k += 1;
        }
        this.array.forget_check();
        acc
    }

    fn nth(&mut self, n: usize) -> (r: Option<T>)
        requires old(self).wf(),
        ensures final(self).wf(),
            n >= old(self).remaining().len() ==> r.is_none() && final(self).remaining().len() == 0,
            n < old(self).remaining().len() ==> r == Some(old(self).remaining()[n as int])
                && final(self).remaining() == old(self).remaining().subrange(n + 1, old(self).remaining().len() as int),
    {
        let next_index = self.index + cmp_min(n, self.len());
        let index = self.index;
        self.index = next_index;
        self.array.drop_range(index, next_index);
        proof {
            assert(self.wf());                     // unwind obligation @ drop_in_place
            if n < old(self).remaining().len() {
                assert(self.remaining() =~= old(self).remaining().subrange(n as int, old(self).remaining().len() as int));
            }
        }
        let r = self.next();
        proof {
            if n < old(self).remaining().len() {
                assert(final(self).remaining() =~= old(self).remaining().subrange(n + 1, old(self).remaining().len() as int));
            }
        }
        r
    }

    fn drop_impl(&mut self)
        requires old(self).wf(),
        ensures final(self).array.ok(), final(self).array.all_dead(),
    {
        self.array.drop_range(self.index, self.index_back);
    }
}

impl<T, N: ArrayLength> Slots<T, N> {
    // mem::forget(self) on the iterator: legal only if nothing is live (otherwise leak)
    pub fn forget_check(&self) requires self.ok(), self.all_dead() {}
}

impl<T: ForeignClone, N: ArrayLength> GenericArrayIter<T, N> {
    // clone, *fixed* shape: result iterator built first, its index_back bumped per element
    fn clone_fixed(&self) -> (r: Self)
        requires self.wf(),
        ensures r.wf(), r.index == 0, r.remaining().len() == self.remaining().len(),
            forall|k: int| 0 <= k < self.remaining().len() ==> self.remaining()[k].cloned(#[trigger] r.remaining()[k]),
    {
        let mut iter = GenericArrayIter { array: self.array.bitcopy_dead(), index: 0, index_back: 0 };
        let cnt = self.index_back - self.index;
        let mut k: usize = 0;
        while k < cnt
            invariant
                self.wf(), iter.wf(), iter.index == 0, iter.index_back == k, k <= cnt, cnt == self.index_back - self.index,
                forall|j: int| 0 <= j < k ==> self.remaining()[j].cloned(#[trigger] iter.remaining()[j]),
            decreases cnt - k,
        {
            proof { assert(iter.wf()); }           // unwind obligation @ src.clone()
            let c = self.array.peek(self.index + k).clone_();
            let ghost before = iter.remaining();
            iter.array.put(k, c);
            iter.index_back += 1;
            proof {
                assert forall|j: int| 0 <= j < k + 1 implies self.remaining()[j].cloned(#[trigger] iter.remaining()[j]) by {
                    if j < k { assert(iter.remaining()[j] == before[j]); }
                }
            }
            k += 1;
        }
        iter
    }
}

} // verus!
fn main() {}

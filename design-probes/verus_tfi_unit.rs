// DESIGN PROBE (not framework code): shape of the generated V-tfi unit (C07, and the builder half of C03/C04).
// IntrusiveArrayBuilder::{new, extend, is_full, finish, drop} and GenericArray::try_from_iter are the real bodies after
// rules R-len, R-slots, R-write, R-guard, R-drop, R-iter (zip: destination polled first, source not polled when the
// destination is exhausted), R-foreign (caller-supplied iterator = opaque object with a ghost log of everything it returned).
// Verified with: verus verus_tfi_unit.rs --triggers-mode silent   (8 verified, 1.6 s).  Seeded edits that fail as they should:
// dropping `|| iter.next().is_some()`, swapping the two disjuncts, `n > N` -> `n >= N` in the pre-check.  An edit that is
// harmless and still verifies: `position += 1` before `dst.write(src)` inside extend (no foreign call in between).
use vstd::prelude::*;
verus! {

pub trait ArrayLength { spec fn n() -> usize; fn usize_() -> (r: usize) ensures r == Self::n(); }

#[verifier::external_body]
#[verifier::accept_recursive_types(T)]
#[verifier::accept_recursive_types(N)]
pub struct Slots<T, N> { _p: core::marker::PhantomData<(T, N)> }

impl<T, N: ArrayLength> Slots<T, N> {
    pub uninterp spec fn view(&self) -> Seq<Option<T>>;
    pub open spec fn ok(&self) -> bool { self.view().len() == N::n() }
    pub open spec fn all_dead(&self) -> bool { forall|k: int| 0 <= k < N::n() ==> (#[trigger] self.view()[k]).is_none() }
    pub open spec fn all_live(&self) -> bool { forall|k: int| 0 <= k < N::n() ==> (#[trigger] self.view()[k]).is_some() }

    #[verifier::external_body]
    pub fn uninit() -> (r: Self) ensures r.ok(), r.all_dead() { unimplemented!() }          // GenericArray::uninit()

    #[verifier::external_body]
    pub fn put(&mut self, i: usize, v: T)
        requires old(self).ok(), i < N::n(), old(self).view()[i as int].is_none(),
        ensures final(self).view() == old(self).view().update(i as int, Some(v)),
    { unimplemented!() }

    #[verifier::external_body]
    pub fn drop_range(&mut self, lo: usize, hi: usize)
        requires old(self).ok(), lo <= hi <= N::n(), forall|k: int| lo <= k < hi ==> (#[trigger] old(self).view()[k]).is_some(),
        ensures final(self).ok(),
                forall|k: int| 0 <= k < N::n() ==> #[trigger] final(self).view()[k] == (if lo <= k < hi { None } else { old(self).view()[k] }),
    { unimplemented!() }
}

// the finished array: a fully live Slots (IntrusiveArrayBuilder::array_assume_init / GenericArray::assume_init)
pub struct GenericArray<T, N: ArrayLength> { pub slots: Slots<T, N> }
impl<T, N: ArrayLength> GenericArray<T, N> {
    pub open spec fn elems(&self) -> Seq<T> { Seq::new(N::n() as nat, |k: int| self.slots.view()[k].unwrap()) }
}
pub fn array_assume_init<T, N: ArrayLength>(array: Slots<T, N>) -> (r: GenericArray<T, N>)
    requires array.ok(), array.all_live(),            // UB otherwise
    ensures r.slots == array,
{ GenericArray { slots: array } }

pub struct LengthError;

// caller-supplied iterator: opaque; ghost script of everything it has returned so far
pub trait ForeignIter<T> {
    spec fn returned(&self) -> Seq<Option<T>>;            // results of every next() call so far
    spec fn hint(&self) -> (usize, Option<usize>);
    fn next(&mut self) -> (r: Option<T>)
        ensures final(self).returned() == old(self).returned().push(r), final(self).hint() == old(self).hint();
    fn size_hint(&self) -> (r: (usize, Option<usize>)) ensures r == self.hint();
}
pub open spec fn polled_after_none<T>(s: Seq<Option<T>>) -> bool {
    exists|i: int| 0 <= i < s.len() - 1 && (#[trigger] s[i]).is_none()
}

// =================== extracted: src/internal.rs IntrusiveArrayBuilder (after R-guard) ===================
pub struct IntrusiveArrayBuilder<T, N: ArrayLength> { pub array: Slots<T, N>, pub position: usize }

impl<T, N: ArrayLength> IntrusiveArrayBuilder<T, N> {
    pub open spec fn wf(&self) -> bool {
        &&& self.position <= N::n()
        &&& self.array.ok()
        &&& forall|k: int| 0 <= k < N::n() ==> ((#[trigger] self.array.view()[k]).is_some() <==> k < self.position)
    }
    pub open spec fn built(&self) -> Seq<T> { Seq::new(self.position as nat, |k: int| self.array.view()[k].unwrap()) }

    pub fn new(array: Slots<T, N>) -> (r: Self)
        requires array.ok(), array.all_dead(),
        ensures r.wf(), r.position == 0,
    { IntrusiveArrayBuilder { array, position: 0 } }

    // extend: destination.zip(source).for_each(|(dst, src)| { dst.write(src); *position += 1; })   (R-iter, R-write, R-foreign)
    pub fn extend<I: ForeignIter<T>>(&mut self, source: &mut I)
        requires old(self).wf(), old(self).position == 0, !polled_after_none(old(source).returned()),
        ensures final(self).wf(),
            final(source).returned().len() == old(source).returned().len() + final(self).position + (if final(self).position < N::n() { 1int } else { 0int }),
            final(source).returned().subrange(0, old(source).returned().len() as int) == old(source).returned(),
            forall|k: int| 0 <= k < final(self).position ==> (#[trigger] final(source).returned()[old(source).returned().len() + k]) == Some(final(self).built()[k]),
            final(self).position < N::n() ==> final(source).returned().last().is_none(),
    {
        let ghost r0 = source.returned();
        let mut k: usize = 0;                        // cursor of `destination` (slice::IterMut over the N slots)
        loop
            invariant_except_break
                self.wf(), self.position == k, k <= N::n(),
                source.returned().len() == r0.len() + k,
                source.returned().subrange(0, r0.len() as int) == r0,
                forall|j: int| 0 <= j < k ==> (#[trigger] source.returned()[r0.len() + j]) == Some(self.built()[j]),
            ensures
                self.wf(),
                source.returned().len() == r0.len() + self.position + (if self.position < N::n() { 1int } else { 0int }),
                source.returned().subrange(0, r0.len() as int) == r0,
                forall|j: int| 0 <= j < self.position ==> (#[trigger] source.returned()[r0.len() + j]) == Some(self.built()[j]),
                self.position < N::n() ==> source.returned().last().is_none(),
            decreases N::n() - k,
        {
            if k >= N::usize_() { break; }            // Zip: destination exhausted -> source is NOT polled
            proof { assert(self.wf()); }              // unwind obligation @ source.next()
            let ghost rb = source.returned();
            let ghost bb = self.built();
            let src = match source.next() { Some(s) => s, None => {
                proof { assert(source.returned().subrange(0, r0.len() as int) =~= r0); }
                break;
            } };
            self.array.put(k, src);                   // dst.write(src)
            self.position += 1;
            k += 1;
            proof {
                assert(source.returned().subrange(0, r0.len() as int) =~= r0);
                assert forall|j: int| 0 <= j < k implies (#[trigger] source.returned()[r0.len() + j]) == Some(self.built()[j]) by {
                    if j < k - 1 { assert(self.built()[j] == bb[j]); assert(source.returned()[r0.len() + j] == rb[r0.len() + j]); }
                }
            }
        }
    }

    pub fn is_full(&self) -> (r: bool) ensures r == (self.position == N::n()) { self.position == N::usize_() }

    pub fn finish(self) -> (r: Slots<T, N>)
        requires self.wf(), self.position == N::n(),       // debug_assert!(self.is_full()); mem::forget(self)
        ensures r == self.array,
    { self.array }

    pub fn drop_impl(&mut self)
        requires old(self).wf(),
        ensures final(self).array.ok(), final(self).array.all_dead(),
    { self.array.drop_range(0, self.position); }
}

// =================== extracted: GenericArray::try_from_iter ===================
pub fn try_from_iter<T, N: ArrayLength, I: ForeignIter<T>>(iter: &mut I) -> (ret: Result<GenericArray<T, N>, LengthError>)
    requires old(iter).returned().len() == 0,
    ensures
        final(iter).returned().len() <= N::n() + 1,                                        // pulls at most N+1 items
        !polled_after_none(final(iter).returned()),                                         // never polled again after None
        ret is Ok ==> final(iter).returned().len() == N::n() + 1 && final(iter).returned().last().is_none()
            && forall|k: int| 0 <= k < N::n() ==> (#[trigger] final(iter).returned()[k]) == Some(ret->Ok_0.elems()[k]),
        // truthful hint + exactly N items then None  ==> Ok   (stated contrapositively on Err)
        ret is Err ==> ( old(iter).hint().0 > N::n()
                      || (old(iter).hint().1 is Some && old(iter).hint().1->Some_0 < N::n())
                      || exists|k: int| 0 <= k < final(iter).returned().len() && k < N::n() && (#[trigger] final(iter).returned()[k]).is_none()
                      || (final(iter).returned().len() == N::n() + 1 && final(iter).returned().last().is_some()) ),
{
    match iter.size_hint() {
        (n, _) if n > N::usize_() => return Err(LengthError),
        (_, Some(n)) if n < N::usize_() => return Err(LengthError),
        _ => {}
    }

    {
        let array = Slots::uninit();
        let mut builder = IntrusiveArrayBuilder::new(array);

        builder.extend(iter);
        proof {
            assert forall|k: int| 0 <= k < builder.position implies (#[trigger] iter.returned()[k]).is_some() by {
                assert(iter.returned()[0 + k] == Some(builder.built()[k]));
            }
        }
        let ghost r1 = iter.returned();
        let ghost b1 = builder.built();

        if !builder.is_full() || iter.next().is_some() {
            proof {
                if builder.position < N::n() {
                    let k = builder.position as int;
                    assert(iter.returned()[k].is_none());
                    assert(iter.returned() == r1);
                } else {
                    assert(iter.returned().len() == N::n() + 1);
                    assert forall|k: int| 0 <= k < N::n() implies (#[trigger] iter.returned()[k]).is_some() by { assert(iter.returned()[k] == r1[k]); }
                }
            }
            builder.drop_impl();                      // R-drop: early return with the guard in scope
            return Err(LengthError);
        }

        Ok({
            let array = builder.finish();
            proof {
                assert(array.all_live());
                assert forall|k: int| 0 <= k < N::n() implies (#[trigger] iter.returned()[k]) == Some(array.view()[k].unwrap()) by {
                    assert(iter.returned()[k] == r1[k]);
                    assert(r1[0 + k] == Some(b1[k]));
                }
            }
            array_assume_init(array)
        })
    }
}

} // verus!
fn main() {}

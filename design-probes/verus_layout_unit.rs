// DESIGN PROBE (not framework code): shape of the generated V-layout unit for C01/C11/C19.
// `base/even/odd` are what the extractor would generate from the struct definitions and
// ArrayLength impls in src/lib.rs; `repr_c3` is the Rust Reference's repr(C) algorithm.
// Verified with: verus verus_layout_unit.rs --triggers-mode silent   (11 verified, 3.6 s)
use vstd::prelude::*;
verus! {

pub struct Layout { pub size: nat, pub align: nat }

pub open spec fn round_up(x: nat, a: nat) -> nat
    recommends a > 0
{ if x % a == 0 { x } else { (x + a - x % a) as nat } }

pub open spec fn max(a: nat, b: nat) -> nat { if a >= b { a } else { b } }

pub open spec fn repr_c3(f0: Layout, f1: Layout, f2: Layout) -> (Layout, nat, nat, nat) {
    let o0 = round_up(0, f0.align);
    let c0 = o0 + f0.size;
    let o1 = round_up(c0, f1.align);
    let c1 = o1 + f1.size;
    let o2 = round_up(c1, f2.align);
    let c2 = o2 + f2.size;
    let al = max(f0.align, max(f1.align, f2.align));
    (Layout { size: round_up(c2, al), align: al }, o0, o1, o2)
}

// ---- generated from src/lib.rs ----
pub open spec fn phantom() -> Layout { Layout { size: 0, align: 1 } }
pub open spec fn base(t: Layout) -> Layout { Layout { size: 0, align: t.align } }   // [T; 0]
pub open spec fn even(t: Layout, u: Layout) -> Layout { repr_c3(u, u, phantom()).0 }
pub open spec fn odd(t: Layout, u: Layout) -> Layout { repr_c3(u, u, t).0 }

pub open spec fn arr(n: nat, t: Layout) -> Layout
    decreases n
{
    if n == 0 { base(t) } else if n % 2 == 0 { even(t, arr(n / 2, t)) } else { odd(t, arr(n / 2, t)) }
}

pub open spec fn elem_off(n: nat, i: nat, t: Layout) -> nat
    recommends i < n
    decreases n
{
    if n == 0 { 0 } else {
        let h = n / 2;
        let u = arr(h, t);
        let offs = if n % 2 == 0 { repr_c3(u, u, phantom()) } else { repr_c3(u, u, t) };
        if i < h { offs.1 + elem_off(h, i, t) }
        else if i < 2 * h { offs.2 + elem_off(h, (i - h) as nat, t) }
        else { offs.3 }
    }
}

pub open spec fn valid_elem(t: Layout) -> bool { t.align > 0 && t.size % t.align == 0 }

// ---- hand-written lemmas ----
proof fn lemma_mul_mod(k: nat, s: nat, a: nat)
    requires a > 0, s % a == 0,
    ensures (k * s) % a == 0,
{
    vstd::arithmetic::div_mod::lemma_fundamental_div_mod(s as int, a as int);
    let q = s / a;
    assert(s == a * q);
    assert(k * s == a * (k * q)) by (nonlinear_arith) requires s == a * q;
    vstd::arithmetic::div_mod::lemma_mod_multiples_basic((k * q) as int, a as int);
    assert(a * (k * q) == (k * q) * a) by (nonlinear_arith);
}

proof fn lemma_layout(n: nat, t: Layout)
    requires valid_elem(t),
    ensures arr(n, t).size == n * t.size, arr(n, t).align == t.align,
    decreases n
{
    if n == 0 {
    } else {
        let h = n / 2;
        lemma_layout(h, t);
        lemma_mul_mod(h, t.size, t.align);
        lemma_mul_mod(2 * h, t.size, t.align);
        lemma_mul_mod(2 * h + 1, t.size, t.align);
        assert(h * t.size + h * t.size == (2 * h) * t.size) by (nonlinear_arith);
        assert((2 * h) * t.size + t.size == (2 * h + 1) * t.size) by (nonlinear_arith);
        assert(0nat % t.align == 0);
        if n % 2 == 0 { assert(n == 2 * h); } else { assert(n == 2 * h + 1); }
    }
}

proof fn lemma_elem_off(n: nat, i: nat, t: Layout)
    requires valid_elem(t), i < n,
    ensures elem_off(n, i, t) == i * t.size,
    decreases n
{
    let h = n / 2;
    lemma_layout(h, t);
    lemma_mul_mod(h, t.size, t.align);
    lemma_mul_mod(2 * h, t.size, t.align);
    assert(h * t.size + h * t.size == (2 * h) * t.size) by (nonlinear_arith);
    assert(0nat % t.align == 0);
    if i < h {
        lemma_elem_off(h, i, t);
    } else if i < 2 * h {
        lemma_elem_off(h, (i - h) as nat, t);
        assert(h * t.size + (i - h) * t.size == i * t.size) by (nonlinear_arith) requires i >= h;
    } else {
        assert(i == 2 * h);
    }
}

} // verus!
fn main() {}

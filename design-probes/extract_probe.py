#!/usr/bin/env python3
"""DESIGN PROBE (not framework code): can the straight-line methods of src/iter.rs be carried into Verus text by
anchored extraction + a handful of regex rewrite rules?  Usage: extract_probe.py /repo/src/iter.rs > out.rs"""
import re, sys

src = open(sys.argv[1]).read()

def find_fn(text, impl_pat, name):
    m = re.search(impl_pat, text)
    assert m, ("lost anchor: impl", impl_pat)
    # body of the impl block by brace matching
    i = text.index('{', m.end() - 1)
    depth, j = 0, i
    while True:
        if text[j] == '{': depth += 1
        elif text[j] == '}':
            depth -= 1
            if depth == 0: break
        j += 1
    block = text[i + 1:j]
    m = re.search(r'fn\s+' + name + r'\s*(<[^>]*>)?\s*\(', block)
    assert m, ("lost anchor: fn", name)
    k = block.index('{', m.end())
    depth, e = 0, k
    while True:
        if block[e] == '{': depth += 1
        elif block[e] == '}':
            depth -= 1
            if depth == 0: break
        e += 1
    sig = block[m.start():k].strip()
    body = block[k + 1:e]
    line = text[:text.index(block[m.start():m.start()+20])].count('\n') + 1
    return sig, body, line

RULES = [
    ('R-read',  r'ptr::read\(\s*(self\.array)\.get_unchecked\(\s*(.+?)\s*\)\s*\)', r'\1.take(\2)'),
    ('R-dip',   r'ptr::drop_in_place\(\s*(self\.array)\.get_unchecked_mut\(\s*(.+?)\s*\.\.\s*(.+?)\s*\)\s*\);',
                r'\1.drop_range(\2, \3); proof { assert(self.wf()); } /* unwind obligation @ drop_in_place */'),
    ('R-dip',   r'ptr::drop_in_place\(\s*self\.as_mut_slice\(\)\s*\);',
                r'self.array.drop_range(self.index, self.index_back);'),
    ('R-misc',  r'cmp::min\(', r'cmp_min('),
    ('R-misc',  r'\bunsafe\s*\{', r'{'),
    ('R-len',   r'\bN::USIZE\b', r'N::usize_()'),
    ('R-misc',  r'^\s*//.*$', r''),
]

def rewrite(body, stats):
    for rid, pat, rep in RULES:
        body, n = re.subn(pat, rep, body, flags=re.M)
        stats[rid] = stats.get(rid, 0) + n
    return body

UNSUPPORTED = re.compile(r'ptr::|get_unchecked|mem::|\.iter\(\)|\.zip\(|\bunsafe\b|as \*')

IMPL_ITER = r'impl<T, N: ArrayLength> Iterator for GenericArrayIter<T, N>\s*\{'
IMPL_DEI  = r'impl<T, N: ArrayLength> DoubleEndedIterator for GenericArrayIter<T, N>\s*\{'
IMPL_ESI  = r'impl<T, N: ArrayLength> ExactSizeIterator for GenericArrayIter<T, N>\s*\{'
IMPL_DROP = r'impl<T, N: ArrayLength> Drop for GenericArrayIter<T, N>\s*\{'

REM = 'old(self).remaining()'
CONTRACTS = {   # the sidecar: contracts come from the property statement (deque semantics), not from the code
 'len': ('fn len(&self) -> (r: usize)', 'requires self.wf(),', 'ensures r == self.remaining().len(),', ''),
 'next': ('fn next(&mut self) -> (r: Option<T>)', 'requires old(self).wf(),',
   f'ensures final(self).wf(), {REM}.len() == 0 ==> r.is_none() && final(self).remaining() == {REM},'
   f' {REM}.len() > 0 ==> r == Some({REM}.first()) && final(self).remaining() == {REM}.drop_first(),',
   f'proof {{ if {REM}.len() > 0 {{ assert(final(self).remaining() =~= {REM}.drop_first()); }} }}'),
 'next_back': ('fn next_back(&mut self) -> (r: Option<T>)', 'requires old(self).wf(),',
   f'ensures final(self).wf(), {REM}.len() == 0 ==> r.is_none() && final(self).remaining() == {REM},'
   f' {REM}.len() > 0 ==> r == Some({REM}.last()) && final(self).remaining() == {REM}.drop_last(),',
   f'proof {{ if {REM}.len() > 0 {{ assert(final(self).remaining() =~= {REM}.drop_last()); }} }}'),
 'nth': ('fn nth(&mut self, n: usize) -> (r: Option<T>)', 'requires old(self).wf(),',
   f'ensures final(self).wf(), n >= {REM}.len() ==> r.is_none() && final(self).remaining().len() == 0,'
   f' n < {REM}.len() ==> r == Some({REM}[n as int]) && final(self).remaining() == {REM}.subrange(n + 1, {REM}.len() as int),',
   ''),
 'nth_back': ('fn nth_back(&mut self, n: usize) -> (r: Option<T>)', 'requires old(self).wf(),',
   f'ensures final(self).wf(), n >= {REM}.len() ==> r.is_none() && final(self).remaining().len() == 0,'
   f' n < {REM}.len() ==> r == Some({REM}[{REM}.len() - 1 - n]) && final(self).remaining() == {REM}.subrange(0, {REM}.len() - 1 - n),',
   ''),
 'drop': ('fn drop_impl(&mut self)', 'requires old(self).wf(),', 'ensures final(self).array.ok(), final(self).array.all_dead(),', ''),
}

out, report = [], []
for impl, name in [(IMPL_ESI, 'len'), (IMPL_ITER, 'next'), (IMPL_DEI, 'next_back'), (IMPL_ITER, 'nth'), (IMPL_DEI, 'nth_back'), (IMPL_DROP, 'drop')]:
    sig, body, line = find_fn(src, impl, name)
    stats = {}
    new = rewrite(body, stats)
    if UNSUPPORTED.search(new):
        print("UNSUPPORTED construct left in", name, ":", UNSUPPORTED.search(new).group(0), file=sys.stderr); sys.exit(2)
    vsig, req, ens, tail_proof = CONTRACTS[name]
    # a trailing proof block must come before the tail expression: wrap body result
    if tail_proof:
        new = '\n        let __ret = {' + new + '};\n        ' + tail_proof + '\n        __ret\n    '
    out.append(f'    // extracted from src/iter.rs:{line}  `{sig}`\n    {vsig}\n        {req}\n        {ens}\n    {{{new}}}\n')
    nl = len([l for l in body.strip().splitlines() if l.strip()])
    report.append((name, line, nl, {k: v for k, v in stats.items() if v}))

PRELUDE = open(sys.argv[2]).read()
print(PRELUDE.replace('/*@@EXTRACTED@@*/', '\n'.join(out)))
for r in report: print('// extraction:', r, file=sys.stderr)

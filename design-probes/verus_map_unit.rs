// DESIGN PROBE (not framework code): shape of the generated V-func unit for `FunctionalSequence::map` (C04/C08, all N).
// Builds on the tfi unit. New pieces: ArrayConsumer (extracted), and the *closure conversion* of the lazy pipeline
//     FromIterator::from_iter(array_iter.map(|src| { let value = ptr::read(src); *position += 1; f(value) }))
// into a struct `MapPipe` implementing the ForeignIter protocol: fields = captured variables (the consumer that
// `iter_position()` aliases, the closure `f`), `k` = cursor of the slice iterator, `next()` = slice::Iter::next followed by
// the closure body verbatim.  `ForeignIter` gains `inv()` (carried through next()) and a ghost constant `konst()` so that a
// caller's facts survive the callee (`try_from_iter`) polling the iterator.  Result: `map` never takes the length-mismatch
// panic, calls f exactly N times on a[0], a[1], ... in order, stores result k at index k; unwind obligations hold at
// `f(value)` (consumer) and at `source.next()` (builder); the consumer's Drop at scope end releases nothing.
// Verified with: verus verus_map_unit.rs --triggers-mode silent   (14 verified, ~2 s).
// Moving `*position += 1` after `f(value)` fails the unwind obligation.
use vstd::prelude::*;
verus! {

pub trait ArrayLength { spec fn n() -> usize; fn usize_() -> (r: usize) ensures r == Self::n(); }

#[verifier::external_body]
#[verifier::accept_recursive_types(T)]
#[verifier::accept_recursive_types(N)]
pub struct Slots<T, N> { _p: core::marker::PhantomData<(T, N)> }

impl<T, N: ArrayLength> Slots<T, N> {
    pub uninterp spec fn view(&self) -> Seq<Option<T>>;
    pub open spec fn ok(&self) -> bool { self.view().len() == N::n() }
    pub open spec fn all_dead(&self) -> bool { forall|k: int| 0 <= k < N::n() ==> (#[trigger] self.view()[k]).is_none() }
    pub open spec fn all_live(&self) -> bool { forall|k: int| 0 <= k < N::n() ==> (#[trigger] self.view()[k]).is_some() }

    #[verifier::external_body]
    pub fn uninit() -> (r: Self) ensures r.ok(), r.all_dead() { unimplemented!() }          // GenericArray::uninit()

    #[verifier::external_body]
    pub fn put(&mut self, i: usize, v: T)
        requires old(self).ok(), i < N::n(), old(self).view()[i as int].is_none(),
        ensures final(self).view() == old(self).view().update(i as int, Some(v)),
    { unimplemented!() }

    #[verifier::external_body]
    pub fn drop_range(&mut self, lo: usize, hi: usize)
        requires old(self).ok(), lo <= hi <= N::n(), forall|k: int| lo <= k < hi ==> (#[trigger] old(self).view()[k]).is_some(),
        ensures final(self).ok(),
                forall|k: int| 0 <= k < N::n() ==> #[trigger] final(self).view()[k] == (if lo <= k < hi { None } else { old(self).view()[k] }),
    { unimplemented!() }
}

// the finished array: a fully live Slots (IntrusiveArrayBuilder::array_assume_init / GenericArray::assume_init)
pub struct GenericArray<T, N: ArrayLength> { pub slots: Slots<T, N> }
impl<T, N: ArrayLength> GenericArray<T, N> {
    pub open spec fn elems(&self) -> Seq<T> { Seq::new(N::n() as nat, |k: int| self.slots.view()[k].unwrap()) }
}
pub fn array_assume_init<T, N: ArrayLength>(array: Slots<T, N>) -> (r: GenericArray<T, N>)
    requires array.ok(), array.all_live(),            // UB otherwise
    ensures r.slots == array,
{ GenericArray { slots: array } }

pub struct LengthError;

// caller-supplied iterator: opaque; ghost script of everything it has returned so far
pub trait ForeignIter<T> {
    spec fn returned(&self) -> Seq<Option<T>>;            // results of every next() call so far
    spec fn hint(&self) -> (usize, Option<usize>);
    spec fn inv(&self) -> bool;                            // whatever the iterator's owner needs preserved
    type K;
    spec fn konst(&self) -> Self::K;                       // ghost data the owner needs to stay fixed
    fn next(&mut self) -> (r: Option<T>)
        requires old(self).inv(),
        ensures final(self).inv(), final(self).konst() == old(self).konst(), final(self).returned() == old(self).returned().push(r);
    fn size_hint(&self) -> (r: (usize, Option<usize>)) requires self.inv(), ensures r == self.hint();
}
pub open spec fn polled_after_none<T>(s: Seq<Option<T>>) -> bool {
    exists|i: int| 0 <= i < s.len() - 1 && (#[trigger] s[i]).is_none()
}

// =================== extracted: src/internal.rs IntrusiveArrayBuilder (after R-guard) ===================
pub struct IntrusiveArrayBuilder<T, N: ArrayLength> { pub array: Slots<T, N>, pub position: usize }

impl<T, N: ArrayLength> IntrusiveArrayBuilder<T, N> {
    pub open spec fn wf(&self) -> bool {
        &&& self.position <= N::n()
        &&& self.array.ok()
        &&& forall|k: int| 0 <= k < N::n() ==> ((#[trigger] self.array.view()[k]).is_some() <==> k < self.position)
    }
    pub open spec fn built(&self) -> Seq<T> { Seq::new(self.position as nat, |k: int| self.array.view()[k].unwrap()) }

    pub fn new(array: Slots<T, N>) -> (r: Self)
        requires array.ok(), array.all_dead(),
        ensures r.wf(), r.position == 0,
    { IntrusiveArrayBuilder { array, position: 0 } }

    // extend: destination.zip(source).for_each(|(dst, src)| { dst.write(src); *position += 1; })   (R-iter, R-write, R-foreign)
    pub fn extend<I: ForeignIter<T>>(&mut self, source: &mut I)
        requires old(self).wf(), old(self).position == 0, !polled_after_none(old(source).returned()), old(source).inv(),
        ensures final(self).wf(), final(source).inv(), final(source).konst() == old(source).konst(),
            final(source).returned().len() == old(source).returned().len() + final(self).position + (if final(self).position < N::n() { 1int } else { 0int }),
            final(source).returned().subrange(0, old(source).returned().len() as int) == old(source).returned(),
            forall|k: int| 0 <= k < final(self).position ==> (#[trigger] final(source).returned()[old(source).returned().len() + k]) == Some(final(self).built()[k]),
            final(self).position < N::n() ==> final(source).returned().last().is_none(),
    {
        let ghost r0 = source.returned();
        let mut k: usize = 0;                        // cursor of `destination` (slice::IterMut over the N slots)
        loop
            invariant_except_break
                self.wf(), self.position == k, k <= N::n(),
                source.returned().len() == r0.len() + k,
                source.returned().subrange(0, r0.len() as int) == r0,
                forall|j: int| 0 <= j < k ==> (#[trigger] source.returned()[r0.len() + j]) == Some(self.built()[j]),
            invariant
                source.inv(), source.konst() == old(source).konst(),
            ensures
                self.wf(),
                source.returned().len() == r0.len() + self.position + (if self.position < N::n() { 1int } else { 0int }),
                source.returned().subrange(0, r0.len() as int) == r0,
                forall|j: int| 0 <= j < self.position ==> (#[trigger] source.returned()[r0.len() + j]) == Some(self.built()[j]),
                self.position < N::n() ==> source.returned().last().is_none(),
            decreases N::n() - k,
        {
            if k >= N::usize_() { break; }            // Zip: destination exhausted -> source is NOT polled
            proof { assert(self.wf()); }              // unwind obligation @ source.next()
            let ghost rb = source.returned();
            let ghost bb = self.built();
            let src = match source.next() { Some(s) => s, None => {
                proof { assert(source.returned().subrange(0, r0.len() as int) =~= r0); }
                break;
            } };
            self.array.put(k, src);                   // dst.write(src)
            self.position += 1;
            k += 1;
            proof {
                assert(source.returned().subrange(0, r0.len() as int) =~= r0);
                assert forall|j: int| 0 <= j < k implies (#[trigger] source.returned()[r0.len() + j]) == Some(self.built()[j]) by {
                    if j < k - 1 { assert(self.built()[j] == bb[j]); assert(source.returned()[r0.len() + j] == rb[r0.len() + j]); }
                }
            }
        }
    }

    pub fn is_full(&self) -> (r: bool) ensures r == (self.position == N::n()) { self.position == N::usize_() }

    pub fn finish(self) -> (r: Slots<T, N>)
        requires self.wf(), self.position == N::n(),       // debug_assert!(self.is_full()); mem::forget(self)
        ensures r == self.array,
    { self.array }

    pub fn drop_impl(&mut self)
        requires old(self).wf(),
        ensures final(self).array.ok(), final(self).array.all_dead(),
    { self.array.drop_range(0, self.position); }
}

// =================== extracted: GenericArray::try_from_iter ===================
pub fn try_from_iter<T, N: ArrayLength, I: ForeignIter<T>>(iter: &mut I) -> (ret: Result<GenericArray<T, N>, LengthError>)
    requires old(iter).returned().len() == 0, old(iter).inv(),
    ensures
        final(iter).inv(), final(iter).konst() == old(iter).konst(),
        final(iter).returned().len() <= N::n() + 1,                                        // pulls at most N+1 items
        !polled_after_none(final(iter).returned()),                                         // never polled again after None
        ret is Ok ==> final(iter).returned().len() == N::n() + 1 && final(iter).returned().last().is_none()
            && forall|k: int| 0 <= k < N::n() ==> (#[trigger] final(iter).returned()[k]) == Some(ret->Ok_0.elems()[k]),
        // truthful hint + exactly N items then None  ==> Ok   (stated contrapositively on Err)
        ret is Err ==> ( old(iter).hint().0 > N::n()
                      || (old(iter).hint().1 is Some && old(iter).hint().1->Some_0 < N::n())
                      || exists|k: int| 0 <= k < final(iter).returned().len() && k < N::n() && (#[trigger] final(iter).returned()[k]).is_none()
                      || (final(iter).returned().len() == N::n() + 1 && final(iter).returned().last().is_some()) ),
{
    match iter.size_hint() {
        (n, _) if n > N::usize_() => return Err(LengthError),
        (_, Some(n)) if n < N::usize_() => return Err(LengthError),
        _ => {}
    }

    {
        let array = Slots::uninit();
        let mut builder = IntrusiveArrayBuilder::new(array);

        builder.extend(iter);
        proof {
            assert forall|k: int| 0 <= k < builder.position implies (#[trigger] iter.returned()[k]).is_some() by {
                assert(iter.returned()[0 + k] == Some(builder.built()[k]));
            }
        }
        let ghost r1 = iter.returned();
        let ghost b1 = builder.built();

        if !builder.is_full() || iter.next().is_some() {
            proof {
                if builder.position < N::n() {
                    let k = builder.position as int;
                    assert(iter.returned()[k].is_none());
                    assert(iter.returned() == r1);
                } else {
                    assert(iter.returned().len() == N::n() + 1);
                    assert forall|k: int| 0 <= k < N::n() implies (#[trigger] iter.returned()[k]).is_some() by { assert(iter.returned()[k] == r1[k]); }
                }
            }
            builder.drop_impl();                      // R-drop: early return with the guard in scope
            return Err(LengthError);
        }

        Ok({
            let array = builder.finish();
            proof {
                assert(array.all_live());
                assert forall|k: int| 0 <= k < N::n() implies (#[trigger] iter.returned()[k]) == Some(array.view()[k].unwrap()) by {
                    assert(iter.returned()[k] == r1[k]);
                    assert(r1[0 + k] == Some(b1[k]));
                }
            }
            array_assume_init(array)
        })
    }
}


// opaque caller-supplied closure FnMut(T) -> U with a ghost call log
pub trait Foreign1<A, R> {
    spec fn log(&self) -> Seq<(A, R)>;
    fn call(&mut self, a: A) -> (r: R) ensures final(self).log() == old(self).log().push((a, r));
}

impl<T, N: ArrayLength> Slots<T, N> {
    #[verifier::external_body]
    pub fn take(&mut self, i: usize) -> (r: T)
        requires old(self).ok(), i < N::n(), old(self).view()[i as int].is_some(),
        ensures final(self).view() == old(self).view().update(i as int, None), r == old(self).view()[i as int].unwrap(),
    { unimplemented!() }
}

// =================== extracted: src/internal.rs ArrayConsumer ===================
pub struct ArrayConsumer<T, N: ArrayLength> { pub array: Slots<T, N>, pub position: usize }
impl<T, N: ArrayLength> ArrayConsumer<T, N> {
    pub open spec fn wf(&self) -> bool {
        &&& self.position <= N::n()
        &&& self.array.ok()
        &&& forall|k: int| 0 <= k < N::n() ==> ((#[trigger] self.array.view()[k]).is_some() <==> k >= self.position)
    }
    pub fn new(array: GenericArray<T, N>) -> (r: Self)
        requires array.slots.ok(), array.slots.all_live(),
        ensures r.wf(), r.position == 0, r.array == array.slots,
    { ArrayConsumer { array: array.slots, position: 0 } }      // ManuallyDrop::new(array)
    pub fn drop_impl(&mut self)
        requires old(self).wf(),
        ensures final(self).array.ok(), final(self).array.all_dead(),
    { self.array.drop_range(self.position, N::usize_()); }
}

// =================== closure conversion of the pipeline in FunctionalSequence::map ===================
//   let (array_iter, position) = source.iter_position();
//   FromIterator::from_iter(array_iter.map(|src| { let value = ptr::read(src); *position += 1; f(value) }))
// array_iter : slice::Iter over the N slots of `source.array`  -> cursor `k`
pub struct MapPipe<T, U, N: ArrayLength, F: Foreign1<T, U>> {
    pub source: ArrayConsumer<T, N>,           // owns `position` and the slots (iter_position() aliases); moved in and out
    pub k: usize,                              // slice::Iter cursor
    pub f: F,
    pub ret: Ghost<Seq<Option<U>>>,
    pub elems0: Ghost<Seq<T>>,                 // the input array's elements (ghost snapshot)
    pub _u: core::marker::PhantomData<U>,
}
impl<T, U, N: ArrayLength, F: Foreign1<T, U>> ForeignIter<U> for MapPipe<T, U, N, F> {
    type K = Seq<T>;
    open spec fn konst(&self) -> Seq<T> { self.elems0@ }
    open spec fn returned(&self) -> Seq<Option<U>> { self.ret@ }
    open spec fn hint(&self) -> (usize, Option<usize>) { ((N::n() - self.k) as usize, Some((N::n() - self.k) as usize)) }
    open spec fn inv(&self) -> bool {
        &&& self.source.wf() && self.k <= N::n() && self.elems0@.len() == N::n()
        &&& (self.k < N::n() ==> self.source.position == self.k)          // consumed prefix == handed-out prefix
        &&& (self.k == N::n() ==> self.source.position == N::n())
        &&& forall|j: int| self.source.position <= j < N::n() ==> (#[trigger] self.source.array.view()[j]) == Some(self.elems0@[j])
        // call log of f: one call per consumed element, in order, results are what was returned
        &&& self.f.log().len() == self.source.position
        &&& forall|j: int| 0 <= j < self.source.position ==> (#[trigger] self.f.log()[j]).0 == self.elems0@[j]
        &&& self.ret@.len() >= self.source.position
        &&& forall|j: int| 0 <= j < self.source.position ==> (#[trigger] self.ret@[j]) == Some(self.f.log()[j].1)
        &&& forall|j: int| self.source.position <= j < self.ret@.len() ==> (#[trigger] self.ret@[j]).is_none()
        &&& (self.ret@.len() > self.source.position ==> self.k == N::n())
    }
    fn next(&mut self) -> (r: Option<U>)
    {
        // slice::Iter::next
        if self.k >= N::usize_() {
            proof { self.ret = Ghost(self.ret@.push(None)); }
            return None;
        }
        let src = self.k;
        self.k += 1;
        // closure body, verbatim modulo R-read / alias substitution
        let value = self.source.array.take(src);          // ptr::read(src)
        self.source.position += 1;                         // *position += 1
        proof { assert(self.source.wf()); }                // unwind obligation @ f(value)
        let r = self.f.call(value);                        // f(value)
        proof { self.ret = Ghost(self.ret@.push(Some(r))); }
        Some(r)
    }
    fn size_hint(&self) -> (r: (usize, Option<usize>)) { (N::usize_() - self.k, Some(N::usize_() - self.k)) }
}


pub enum PanicOr<R> { Panic, Ret(R) }

// FromIterator::from_iter for GenericArray
pub fn from_iter<T, N: ArrayLength, I: ForeignIter<T>>(iter: &mut I) -> (ret: PanicOr<GenericArray<T, N>>)
    requires old(iter).returned().len() == 0, old(iter).inv(),
    ensures final(iter).inv(), final(iter).konst() == old(iter).konst(), final(iter).returned().len() <= N::n() + 1, !polled_after_none(final(iter).returned()),
        ret is Ret ==> final(iter).returned().len() == N::n() + 1 && final(iter).returned().last().is_none()
            && forall|k: int| 0 <= k < N::n() ==> (#[trigger] final(iter).returned()[k]) == Some(ret->Ret_0.elems()[k]),
        ret is Panic ==> ( old(iter).hint().0 > N::n()
                      || (old(iter).hint().1 is Some && old(iter).hint().1->Some_0 < N::n())
                      || exists|k: int| 0 <= k < final(iter).returned().len() && k < N::n() && (#[trigger] final(iter).returned()[k]).is_none()
                      || (final(iter).returned().len() == N::n() + 1 && final(iter).returned().last().is_some()) ),
{
    match try_from_iter(iter) {
        Ok(res) => PanicOr::Ret(res),
        Err(_) => PanicOr::Panic,          // from_iter_length_fail(N::USIZE)
    }
}

// =================== extracted: FunctionalSequence::map for GenericArray ===================
pub fn map<T, U, N: ArrayLength, F: Foreign1<T, U>>(this: GenericArray<T, N>, f: F) -> (ret: (PanicOr<GenericArray<U, N>>, F))
    requires this.slots.ok(), this.slots.all_live(), f.log().len() == 0,
    ensures
        ret.0 is Ret,                                                      // never the length-mismatch panic
        ret.1.log().len() == N::n(),                                       // f applied exactly N times ...
        forall|k: int| 0 <= k < N::n() ==> (#[trigger] ret.1.log()[k]).0 == this.elems()[k],          // ... to a[0], a[1], ... in order
        forall|k: int| 0 <= k < N::n() ==> (#[trigger] ret.0->Ret_0.elems()[k]) == ret.1.log()[k].1,  // result k stored at index k
{
    let ghost e0 = this.elems();
    let source = ArrayConsumer::new(this);
    let mut pipe = MapPipe { source: source, k: 0, f: f, ret: Ghost(Seq::empty()), elems0: Ghost(e0), _u: core::marker::PhantomData };
    proof { assert(pipe.inv()); }
    let r = from_iter::<U, N, MapPipe<T, U, N, F>>(&mut pipe);
    proof {
        assert(pipe.elems0@ == e0);
        assert(pipe.source.position == N::n());
        assert forall|k: int| 0 <= k < N::n() implies (#[trigger] r->Ret_0.elems()[k]) == pipe.f.log()[k].1 by {
            assert(pipe.returned()[k] == Some(r->Ret_0.elems()[k]));
            assert(pipe.ret@[k] == Some(pipe.f.log()[k].1));
        }
    }
    let MapPipe { source, k: _, f, ret: _, elems0: _, _u: _ } = pipe;
    let mut source = source;
    source.drop_impl();                 // R-drop: `source` goes out of scope
    (r, f)
}

} // verus!
fn main() {}

// DESIGN PROBE (not framework code): shape of the generated V-chunks unit for C10.
// Prelude = provenance-carrying pointer/slice abstraction (rule R-ptr); the body of
// chunks_from_slice is the real one after rules R-len, R-ptr, R-panic.
// Verified with: verus verus_chunks_unit.rs --triggers-mode silent   (5 verified, 0.9 s)
use vstd::prelude::*;
verus! {

pub trait ArrayLength { spec fn n() -> usize; fn usize_() -> (r: usize) ensures r == Self::n(); }

pub struct Sl { pub base: int, pub off: usize, pub len: usize, pub stride: usize }
pub struct Ptr { pub base: int, pub off: usize, pub stride: usize, pub lo: usize, pub hi: usize }

impl Sl {
    pub open spec fn start(&self) -> int { self.off as int }
    pub open spec fn end(&self) -> int { self.off + self.len * self.stride }
    pub fn len(&self) -> (r: usize) ensures r == self.len { self.len }
    pub fn is_empty(&self) -> (r: bool) ensures r == (self.len == 0) { self.len == 0 }
    #[verifier::external_body]
    pub fn as_ptr(&self) -> (p: Ptr)
        ensures p.base == self.base, p.off == self.off, p.stride == self.stride, p.lo == self.off, p.hi as int == self.end(),
    { unimplemented!() }
    #[verifier::external_body]
    pub fn empty() -> (s: Sl) ensures s.len == 0, s.base == -1 { unimplemented!() }
}
impl Ptr {
    #[verifier::external_body]
    pub fn cast(self, stride: usize) -> (p: Ptr) ensures p == (Ptr { stride: stride, ..self }) { unimplemented!() }
    #[verifier::external_body]
    pub fn add(self, k: usize) -> (p: Ptr)
        requires self.off + k * self.stride <= self.hi,
        ensures p == (Ptr { off: (self.off + k * self.stride) as usize, ..self })
    { unimplemented!() }
}
#[verifier::external_body]
pub fn from_raw_parts(p: Ptr, n: usize) -> (s: Sl)
    requires p.lo <= p.off, p.off + n * p.stride <= p.hi,
    ensures s.base == p.base, s.off == p.off, s.len == n, s.stride == p.stride,
{ unimplemented!() }

pub enum PanicOr<R> { Panic, Ret(R) }

proof fn lemma_chunks(l: usize, n: usize)
    requires n > 0,
    ensures (l / n) * n <= l, l - (l / n) * n == l % n,
{
    vstd::arithmetic::div_mod::lemma_fundamental_div_mod(l as int, n as int);
    assert((l / n) * n == n * (l / n)) by (nonlinear_arith);
}

pub fn chunks_from_slice<N: ArrayLength>(slice: Sl) -> (ret: PanicOr<(Sl, Sl)>)
    requires slice.stride == 1, slice.end() <= usize::MAX,
    ensures
        N::n() == 0 ==> (ret is Panic <==> slice.len != 0),
        N::n() == 0 && slice.len == 0 ==> ret->Ret_0.0.len == 0 && ret->Ret_0.1.len == 0,
        N::n() > 0 ==> ret is Ret && ({
            let (c, r) = ret->Ret_0;
            &&& c.base == slice.base && r.base == slice.base
            &&& c.stride == N::n() && r.stride == 1
            &&& c.len == slice.len / N::n() && r.len == slice.len % N::n()
            &&& c.start() == slice.start() && c.end() == r.start() && r.end() == slice.end()
        }),
{
    if N::usize_() == 0 {
        if !(slice.is_empty()) { return PanicOr::Panic; }
        return PanicOr::Ret((Sl::empty(), Sl::empty()));
    }

    let num_chunks = slice.len() / N::usize_(); // integer division
    proof { lemma_chunks(slice.len, N::n()); }
    let num_in_chunks = num_chunks * N::usize_();
    let num_remainder = slice.len() - num_in_chunks;

    {
        PanicOr::Ret((
            from_raw_parts(slice.as_ptr().cast(N::usize_()), num_chunks),
            from_raw_parts(slice.as_ptr().add(num_in_chunks), num_remainder),
        ))
    }
}

} // verus!
fn main() {}

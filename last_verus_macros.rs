use vstd::prelude::*;
verus! {

// ===================== engine-V prelude: common (TRUSTED; the only place external_body may appear) =====================
// Type-level lengths: rule R-len maps `N::USIZE` to `N::usize_()`; `n()` is the mathematical length.
pub trait ArrayLength { spec fn n() -> usize; fn usize_() -> (r: usize) ensures r == Self::n(); }

pub open spec fn min_spec(a: usize, b: usize) -> usize { if a <= b { a } else { b } }
// core::cmp::min on usize (rule R-misc)
pub fn cmp_min(a: usize, b: usize) -> (r: usize) ensures r == min_spec(a, b) { if a <= b { a } else { b } }

// rule R-panic: a function that may panic returns PanicOr; `ret is Panic <==> ..` is then an ordinary postcondition
pub enum PanicOr<R> { Panic, Ret(R) }

// ===================== engine-V prelude: provenance-carrying pointers and slices (TRUSTED) =====================
// Rule R-ptr.  All offsets are in ELEMENTS of T (bytes = elements * size_of::<T>() is exactly C01's lemma).
//   Sl  = a slice / array reference: `len` items of `stride` elements each, starting `off` elements into allocation `base`
//         (stride 1: &[T];  stride N, len 1: &GenericArray<T,N> or &[T;N];  stride N, len k: &[GenericArray<T,N>])
//   Ptr = a raw pointer with the provenance [lo, hi) it was derived from
pub struct Sl { pub base: int, pub off: usize, pub len: usize, pub stride: usize }
#[derive(Clone, Copy)]
pub struct Ptr { pub base: int, pub off: usize, pub stride: usize, pub lo: usize, pub hi: usize }

impl Sl {
    pub open spec fn start(&self) -> int { self.off as int }
    pub open spec fn end(&self) -> int { self.off + self.len * self.stride }
    // a reference is valid only if its extent fits the address space
    pub open spec fn valid(&self) -> bool { self.end() <= usize::MAX }
    pub fn len(&self) -> (r: usize) ensures r == self.len { self.len }
    pub fn is_empty(&self) -> (r: bool) ensures r == (self.len == 0) { self.len == 0 }
    // slice.as_ptr() / as_mut_ptr() / `self as *const Self`: provenance is the whole referent
    #[verifier::external_body]
    pub fn as_ptr(&self) -> (p: Ptr)
        ensures p.base == self.base, p.off == self.off, p.stride == self.stride, p.lo == self.off, p.hi as int == self.end(),
    { unimplemented!() }
    // &[] / &mut []: an empty slice somewhere else
    #[verifier::external_body]
    pub fn empty() -> (s: Sl) ensures s.len == 0 { unimplemented!() }
}
impl Ptr {
    // `p as *const X`: same address and provenance, the pointee now spans `stride` elements
    #[verifier::external_body]
    pub fn cast(self, stride: usize) -> (p: Ptr) ensures p == (Ptr { stride: stride, ..self }) { unimplemented!() }
    // p.add(k): must stay inside (or one past) the provenance
    #[verifier::external_body]
    pub fn add(self, k: usize) -> (p: Ptr)
        requires self.lo <= self.off, self.off + k * self.stride <= self.hi,
        ensures p == (Ptr { off: (self.off + k * self.stride) as usize, ..self })
    { unimplemented!() }
}
// slice::from_raw_parts(_mut)(p, n): all n items must lie inside the provenance
#[verifier::external_body]
pub fn from_raw_parts(p: Ptr, n: usize) -> (s: Sl)
    requires p.lo <= p.off, p.off + n * p.stride <= p.hi,
    ensures s.base == p.base, s.off == p.off, s.len == n, s.stride == p.stride,
{ unimplemented!() }
// &*p / &mut *p: one whole pointee must lie inside the provenance
#[verifier::external_body]
pub fn deref(p: Ptr) -> (s: Sl)
    requires p.lo <= p.off, p.off + p.stride <= p.hi,
    ensures s.base == p.base, s.off == p.off, s.len == 1, s.stride == p.stride,
{ unimplemented!() }

pub struct LengthError;

proof fn lemma_chunks(l: usize, n: usize)
    requires n > 0,
    ensures (l / n) * n <= l, l - (l / n) * n == l % n,
{
    vstd::arithmetic::div_mod::lemma_fundamental_div_mod(l as int, n as int);
    assert((l / n) * n == n * (l / n)) by (nonlinear_arith);
}

// const_transmute: reading field `b` of `union { a: A, b: B }` after writing `a` reinterprets size_of::<B>() bytes, of which only
// size_of::<A>() were written: defined only when the sizes agree (what mem::transmute checks at compile time)
// `elems`: the element values stored in those bytes, in address order
pub struct Bits { pub size: usize, pub ghost elems: Seq<int> }
#[verifier::external_body]
pub fn union_reinterpret(a: Bits, size_b: usize) -> (b: Bits)
    requires a.size == size_b,
    ensures b.size == size_b, b.elems == a.elems,
{ unimplemented!() }

// mem::transmute of a reference to a reference of another type with the same total extent: the address is unchanged
impl Sl {
    #[verifier::external_body]
    pub fn retype_ref(self, len: usize, stride: usize) -> (r: Sl)
        requires len * stride == self.len * self.stride,        // mem::transmute checks the (thin) pointer size only; the extents must agree
        ensures r.base == self.base, r.off == self.off, r.len == len, r.stride == stride,
    { unimplemented!() }
}

// ===================== engine-V prelude: heap blocks (TRUSTED) =====================
// A heap block is identified by `id` and was requested with room for `elems` elements of T at T's alignment (by C01 a
// GenericArray<T, N> has exactly the layout of N elements of T).  Box::from_raw frees - eventually - with the layout of
// the pointee type it is given, so that layout must be the one the block was requested with (size AND alignment).
// `content`: the values of the initialised elements the block holds, in order (ids of abstract values)
pub struct Block { pub id: int, pub elems: nat, pub content: Seq<int> }
pub struct BoxArr { pub block: Block }                    // Box<GenericArray<T, N>>: block.elems == N
pub struct BoxSlice { pub block: Block, pub len: usize }  // Box<[T]>: block.elems == len
pub struct VecT { pub block: Block, pub len: usize, pub cap: usize }   // Vec<T>: block.elems == cap
pub struct RawPtr { pub block: Block }

impl BoxSlice {
    pub open spec fn wf(&self) -> bool { self.block.elems == self.len }
    pub fn len(&self) -> (r: usize) ensures r == self.len { self.len }
}
impl VecT {
    pub open spec fn wf(&self) -> bool { self.block.elems == self.cap && self.len <= self.cap }
    pub fn len(&self) -> (r: usize) ensures r == self.len { self.len }
    // Vec::into_boxed_slice (std, assumed contract): shrinks to fit - the same block when len == capacity
    #[verifier::external_body]
    pub fn into_boxed_slice(self) -> (r: BoxSlice)
        requires self.wf(),
        ensures r.wf(), r.len == self.len, self.len == self.cap ==> r.block == self.block, r.block.content == self.block.content,
    { unimplemented!() }
}
// Box::into_raw: the caller now owns the block
#[verifier::external_body]
pub fn box_arr_into_raw<N: ArrayLength>(b: BoxArr) -> (p: RawPtr) requires b.block.elems == N::n(), ensures p.block == b.block { unimplemented!() }
#[verifier::external_body]
pub fn box_slice_into_raw(b: BoxSlice) -> (p: RawPtr) requires b.wf(), ensures p.block == b.block { unimplemented!() }
// Box::from_raw(slice_from_raw_parts_mut(p as *mut T, len)): the new Box<[T]> will free `len` elements
#[verifier::external_body]
pub fn box_slice_from_raw(p: RawPtr, len: usize) -> (r: BoxSlice)
    requires p.block.elems == len,
    ensures r.block == p.block, r.len == len, r.wf(),
{ unimplemented!() }
// Box::from_raw(p as *mut GenericArray<T, N>): the new Box will free N elements
#[verifier::external_body]
pub fn box_arr_from_raw<N: ArrayLength>(p: RawPtr) -> (r: BoxArr)
    requires p.block.elems == N::n(),
    ensures r.block == p.block,
{ unimplemented!() }
// Vec::from(Box<[T]>) (std, assumed contract): same block, len == capacity
#[verifier::external_body]
pub fn vec_from_box_slice(b: BoxSlice) -> (v: VecT) requires b.wf(), ensures v.wf(), v.block == b.block, v.len == b.len, v.cap == b.len { unimplemented!() }
// dropping a Box<[T]> whose elements nobody else owns (the error path of the conversions)
pub fn drop_box_slice(b: BoxSlice) requires b.wf() {}


// ===================== engine-V prelude: macro expansions (TRUSTED) =====================
// One element expression of a macro invocation.  Evaluating expression number i is a foreign computation: it appends i to the
// evaluation log and yields the abstract value number i.  (An expression that is evaluated twice, or out of order, shows in the log.)
pub struct Val { pub id: usize }
pub struct Log { pub ghost order: Seq<int> }
#[verifier::external_body]
pub fn ev(log: &mut Log, i: usize) -> (v: Val)
    ensures final(log).order == old(log).order.push(i as int), v.id == i,
{ unimplemented!() }

// A native array [T; U]: its length and the values it holds, in index order.  A native array LITERAL is read by Verus itself
// (elements evaluated left to right, as in Rust); `arr_lit` only forgets the const-generic length.
pub struct Arr { pub len: usize, pub ghost elems: Seq<int> }
#[verifier::external_body]
pub fn arr_lit<const U: usize>(a: [Val; U]) -> (r: Arr)
    ensures r.len == U, r.elems == Seq::new(U as nat, |i: int| a@[i].id as int),
{ unimplemented!() }
// [x; n] with x: Copy - x is evaluated once, the array holds n bitwise copies
#[verifier::external_body]
pub fn arr_repeat(x: Val, n: usize) -> (r: Arr)
    ensures r.len == n, r.elems == Seq::new(n as nat, |i: int| x.id as int),
{ unimplemented!() }
// the bytes of a native array: `len` elements (sizes are in elements of T; bytes are factored out by C01)
#[verifier::external_body]
pub fn bits_of_arr(a: Arr) -> (b: Bits)
    ensures b.size == a.len, b.elems == a.elems,
{ unimplemented!() }
// GenericArray<T, N> is N elements of T and nothing else (C01, unit layout)
pub struct GA { pub ghost elems: Seq<int> }
#[verifier::external_body]
pub fn ga_of_bits<N: ArrayLength>(b: Bits) -> (g: GA)
    requires b.size == N::n(),
    ensures g.elems == b.elems,
{ unimplemented!() }

// alloc::vec![e0, .., ek] and alloc::vec![x; n] (alloc, assumed contracts): a fresh block holding exactly those values
#[verifier::external_body]
pub fn vec_lit<const U: usize>(a: [Val; U]) -> (v: VecT)
    ensures v.wf(), v.len == U, v.cap == U, v.block.content == Seq::new(U as nat, |i: int| a@[i].id as int),
{ unimplemented!() }
#[verifier::external_body]
pub fn vec_repeat(x: Val, n: usize) -> (v: VecT)
    ensures v.wf(), v.len == n, v.cap >= n, v.block.content == Seq::new(n as nat, |i: int| x.id as int),
{ unimplemented!() }
// Result::unwrap_unchecked: undefined behaviour unless the value is Ok
#[verifier::external_body]
pub fn unwrap_unchecked(r: Result<BoxArr, LengthError>) -> (b: BoxArr)
    requires r is Ok,
    ensures b == r->Ok_0,
{ unimplemented!() }


// ===== extracted: the functions the macro arms call =====

    // extracted from src/lib.rs:997  `pub const unsafe fn const_transmute<A, B>(a: A) -> B`
    pub fn const_transmute(a: Bits, size_b: usize) -> (ret: PanicOr<Bits>)
        ensures
            ret is Panic <==> a.size != size_b, /*OB:const_transmute.post.panics-iff-sizes-differ:C20*/
            ret is Ret ==> ret->Ret_0.size == size_b && ret->Ret_0.elems == a.elems, /*OB:const_transmute.post.reinterprets-the-same-bytes:C20*/
    {
        if a.size != size_b {
            return PanicOr::Panic;
        }
        PanicOr::Ret(union_reinterpret(a, size_b))
    }

    // extracted from src/impl_alloc.rs:54  `fn try_from_boxed_slice(slice: Box<[T]>) -> Result<Box<GenericArray<T, N>>, LengthError>`
    pub fn try_from_boxed_slice<N: ArrayLength>(slice: BoxSlice) -> (r: Result<BoxArr, LengthError>)
        requires
            slice.wf(),
        ensures
            r is Ok <==> slice.len == N::n(), /*OB:try_from_boxed_slice.post.ok-iff-length-N:C15,C20*/
            r is Ok ==> r->Ok_0.block == slice.block, /*OB:try_from_boxed_slice.post.same-block:C15,C20*/
            r is Ok ==> r->Ok_0.block.elems == N::n(), /*OB:try_from_boxed_slice.post.frees-with-its-layout:C16,C20*/
    {
        if slice.len() != N::usize_() {
            {
                drop_box_slice(slice);
                return Err(LengthError);
            }
        }
        Ok({ box_arr_from_raw::<N>(box_slice_into_raw(slice)) })
    }
    proof fn reach_try_from_boxed_slice<N: ArrayLength>(slice: BoxSlice) requires slice.wf(), { assert(false); } /*OB:canary.try_from_boxed_slice:*/

    // extracted from src/impl_alloc.rs:68  `fn try_from_vec(vec: Vec<T>) -> Result<Box<GenericArray<T, N>>, LengthError>`
    pub fn try_from_vec<N: ArrayLength>(vec: VecT) -> (r: Result<BoxArr, LengthError>)
        requires
            vec.wf(),
        ensures
            r is Ok <==> vec.len == N::n(), /*OB:try_from_vec.post.ok-iff-length-N:C15,C20*/
            r is Ok && vec.len == vec.cap ==> r->Ok_0.block == vec.block, /*OB:try_from_vec.post.same-block-when-len-eq-cap:C15,C20*/
            r is Ok ==> r->Ok_0.block.content == vec.block.content, /*OB:try_from_vec.post.same-elements:C15,C20*/
            r is Ok ==> r->Ok_0.block.elems == N::n(), /*OB:try_from_vec.post.frees-with-its-layout:C16,C20*/
    {
        try_from_boxed_slice::<N>(vec.into_boxed_slice())
    }
    proof fn reach_try_from_vec<N: ArrayLength>(vec: VecT) requires vec.wf(), { assert(false); } /*OB:canary.try_from_vec:*/

    // extracted from src/lib.rs:824  `fn from_array<const U: usize>(value: [T; U]) -> Self where Const<U>: IntoArrayLength<ArrayLength = N>,`
    pub fn from_array<N: ArrayLength>(value: Arr) -> (ret: PanicOr<GA>)
        requires
            value.len == N::n()  /* where Const<U>: IntoArrayLength<ArrayLength = N> */,
        ensures
            ret is Ret, /*OB:from_array.post.never-panics:C20*/
            ret->Ret_0.elems == value.elems, /*OB:from_array.post.same-elements-in-order:C20*/
    {
        {
            match const_transmute(bits_of_arr(value), N::usize_()) {
                PanicOr::Ret(__b) => PanicOr::Ret(ga_of_bits::<N>(__b)), PanicOr::Panic => PanicOr::Panic
            }
        }
    }
    proof fn reach_from_array<N: ArrayLength>(value: Arr) requires value.len == N::n()  /* where Const<U>: IntoArrayLength<ArrayLength = N> */, { assert(false); } /*OB:canary.from_array:*/

    // extracted from src/arr.rs:78  `fn __from_vec_helper<const U: usize>( _empty: [(); U], vec: alloc::vec::Vec<T>, ) -> alloc::boxed::Box<GenericArray<T, N>> where typenum::Const<U>: IntoArrayLength<ArrayLength = N>,`
    pub fn from_vec_helper<N: ArrayLength, const U: usize>(_empty: [(); U], vec: VecT) -> (r: BoxArr)
        requires
            vec.wf(),
            vec.len == U  /* the macro passes one () per element of the vec! */,
            U == N::n()  /* where Const<U>: IntoArrayLength<ArrayLength = N> */,
        ensures
            r.block.content == vec.block.content, /*OB:from_vec_helper.post.same-elements-in-order:C20*/
            r.block.elems == N::n(), /*OB:from_vec_helper.post.n-elements:C20*/
    {
        {
            unwrap_unchecked(try_from_vec::<N>(vec))
        }
    }
    proof fn reach_from_vec_helper<N: ArrayLength, const U: usize>(_empty: [(); U], vec: VecT) requires vec.wf(), vec.len == U  /* the macro passes one () per element of the vec! */, U == N::n()  /* where Const<U>: IntoArrayLength<ArrayLength = N> */, { assert(false); } /*OB:canary.from_vec_helper:*/

    pub fn try_from_vec_checked<N: ArrayLength>(Ghost(len): Ghost<usize>, vec: VecT) -> (r: Result<BoxArr, LengthError>)
        requires vec.wf(), N::n() == len,
        ensures r is Ok <==> vec.len == N::n(), r is Ok ==> r->Ok_0.block.content == vec.block.content && r->Ok_0.block.elems == N::n(),
    { try_from_vec::<N>(vec) }


// ===== transcribed: macro_rules! arr / box_arr / box_arr_helper (src/arr.rs) =====

    // extracted from src/arr.rs:26  `macro_rules! arr arm `($($x:expr),* $(,)*)``
    pub fn arr_list_0<N: ArrayLength>(log: &mut Log) -> (ret: PanicOr<GA>)
        requires
            N::n() == 0  /* the length inferred from Const<0> */,
            old(log).order == Seq::<int>::empty(),
        ensures
            ret is Ret, /*OB:arr_list_0.post.never-panics:C20*/
            ret is Ret ==> ret->Ret_0.elems =~= Seq::new(0 as nat, |i: int| i), /*OB:arr_list_0.post.holds-e0-to-ek-in-order:C20*/
            final(log).order =~= Seq::new(0 as nat, |i: int| i), /*OB:arr_list_0.post.each-expression-once-left-to-right:C20*/
    {
        from_array::<N>(arr_lit([]))
    }
    proof fn reach_arr_list_0<N: ArrayLength>(log: Log) requires N::n() == 0  /* the length inferred from Const<0> */, log.order == Seq::<int>::empty(), { assert(false); } /*OB:canary.arr_list_0:*/

    // extracted from src/arr.rs:59  `macro_rules! box_arr arm `($($x:expr),* $(,)*)``
    pub fn box_list_0<N: ArrayLength>(log: &mut Log) -> (r: BoxArr)
        requires
            N::n() == 0  /* the length inferred from Const<0> */,
            old(log).order == Seq::<int>::empty(),
        ensures
            r.block.content =~= Seq::new(0 as nat, |i: int| i), /*OB:box_list_0.post.holds-e0-to-ek-in-order:C20*/
            r.block.elems == N::n(), /*OB:box_list_0.post.n-elements:C20*/
            final(log).order =~= Seq::new(0 as nat, |i: int| i), /*OB:box_list_0.post.each-expression-once-left-to-right:C20*/
    {
        {
            from_vec_helper::<N, _>([], vec_lit([]))
        }
    }
    proof fn reach_box_list_0<N: ArrayLength>(log: Log) requires N::n() == 0  /* the length inferred from Const<0> */, log.order == Seq::<int>::empty(), { assert(false); } /*OB:canary.box_list_0:*/

    // extracted from src/arr.rs:26  `macro_rules! arr arm `($($x:expr),* $(,)*)``
    pub fn arr_list_1<N: ArrayLength>(log: &mut Log) -> (ret: PanicOr<GA>)
        requires
            N::n() == 1  /* the length inferred from Const<1> */,
            old(log).order == Seq::<int>::empty(),
        ensures
            ret is Ret, /*OB:arr_list_1.post.never-panics:C20*/
            ret is Ret ==> ret->Ret_0.elems =~= Seq::new(1 as nat, |i: int| i), /*OB:arr_list_1.post.holds-e0-to-ek-in-order:C20*/
            final(log).order =~= Seq::new(1 as nat, |i: int| i), /*OB:arr_list_1.post.each-expression-once-left-to-right:C20*/
    {
        from_array::<N>(arr_lit([ev(log, 0)]))
    }
    proof fn reach_arr_list_1<N: ArrayLength>(log: Log) requires N::n() == 1  /* the length inferred from Const<1> */, log.order == Seq::<int>::empty(), { assert(false); } /*OB:canary.arr_list_1:*/

    // extracted from src/arr.rs:59  `macro_rules! box_arr arm `($($x:expr),* $(,)*)``
    pub fn box_list_1<N: ArrayLength>(log: &mut Log) -> (r: BoxArr)
        requires
            N::n() == 1  /* the length inferred from Const<1> */,
            old(log).order == Seq::<int>::empty(),
        ensures
            r.block.content =~= Seq::new(1 as nat, |i: int| i), /*OB:box_list_1.post.holds-e0-to-ek-in-order:C20*/
            r.block.elems == N::n(), /*OB:box_list_1.post.n-elements:C20*/
            final(log).order =~= Seq::new(1 as nat, |i: int| i), /*OB:box_list_1.post.each-expression-once-left-to-right:C20*/
    {
        {
            from_vec_helper::<N, _>([()], vec_lit([ev(log, 0)]))
        }
    }
    proof fn reach_box_list_1<N: ArrayLength>(log: Log) requires N::n() == 1  /* the length inferred from Const<1> */, log.order == Seq::<int>::empty(), { assert(false); } /*OB:canary.box_list_1:*/

    // extracted from src/arr.rs:26  `macro_rules! arr arm `($($x:expr),* $(,)*)``
    pub fn arr_list_2<N: ArrayLength>(log: &mut Log) -> (ret: PanicOr<GA>)
        requires
            N::n() == 2  /* the length inferred from Const<2> */,
            old(log).order == Seq::<int>::empty(),
        ensures
            ret is Ret, /*OB:arr_list_2.post.never-panics:C20*/
            ret is Ret ==> ret->Ret_0.elems =~= Seq::new(2 as nat, |i: int| i), /*OB:arr_list_2.post.holds-e0-to-ek-in-order:C20*/
            final(log).order =~= Seq::new(2 as nat, |i: int| i), /*OB:arr_list_2.post.each-expression-once-left-to-right:C20*/
    {
        from_array::<N>(arr_lit([ev(log, 0), ev(log, 1)]))
    }
    proof fn reach_arr_list_2<N: ArrayLength>(log: Log) requires N::n() == 2  /* the length inferred from Const<2> */, log.order == Seq::<int>::empty(), { assert(false); } /*OB:canary.arr_list_2:*/

    // extracted from src/arr.rs:59  `macro_rules! box_arr arm `($($x:expr),* $(,)*)``
    pub fn box_list_2<N: ArrayLength>(log: &mut Log) -> (r: BoxArr)
        requires
            N::n() == 2  /* the length inferred from Const<2> */,
            old(log).order == Seq::<int>::empty(),
        ensures
            r.block.content =~= Seq::new(2 as nat, |i: int| i), /*OB:box_list_2.post.holds-e0-to-ek-in-order:C20*/
            r.block.elems == N::n(), /*OB:box_list_2.post.n-elements:C20*/
            final(log).order =~= Seq::new(2 as nat, |i: int| i), /*OB:box_list_2.post.each-expression-once-left-to-right:C20*/
    {
        {
            from_vec_helper::<N, _>([(), ()], vec_lit([ev(log, 0), ev(log, 1)]))
        }
    }
    proof fn reach_box_list_2<N: ArrayLength>(log: Log) requires N::n() == 2  /* the length inferred from Const<2> */, log.order == Seq::<int>::empty(), { assert(false); } /*OB:canary.box_list_2:*/

    // extracted from src/arr.rs:26  `macro_rules! arr arm `($($x:expr),* $(,)*)``
    pub fn arr_list_3<N: ArrayLength>(log: &mut Log) -> (ret: PanicOr<GA>)
        requires
            N::n() == 3  /* the length inferred from Const<3> */,
            old(log).order == Seq::<int>::empty(),
        ensures
            ret is Ret, /*OB:arr_list_3.post.never-panics:C20*/
            ret is Ret ==> ret->Ret_0.elems =~= Seq::new(3 as nat, |i: int| i), /*OB:arr_list_3.post.holds-e0-to-ek-in-order:C20*/
            final(log).order =~= Seq::new(3 as nat, |i: int| i), /*OB:arr_list_3.post.each-expression-once-left-to-right:C20*/
    {
        from_array::<N>(arr_lit([ev(log, 0), ev(log, 1), ev(log, 2)]))
    }
    proof fn reach_arr_list_3<N: ArrayLength>(log: Log) requires N::n() == 3  /* the length inferred from Const<3> */, log.order == Seq::<int>::empty(), { assert(false); } /*OB:canary.arr_list_3:*/

    // extracted from src/arr.rs:59  `macro_rules! box_arr arm `($($x:expr),* $(,)*)``
    pub fn box_list_3<N: ArrayLength>(log: &mut Log) -> (r: BoxArr)
        requires
            N::n() == 3  /* the length inferred from Const<3> */,
            old(log).order == Seq::<int>::empty(),
        ensures
            r.block.content =~= Seq::new(3 as nat, |i: int| i), /*OB:box_list_3.post.holds-e0-to-ek-in-order:C20*/
            r.block.elems == N::n(), /*OB:box_list_3.post.n-elements:C20*/
            final(log).order =~= Seq::new(3 as nat, |i: int| i), /*OB:box_list_3.post.each-expression-once-left-to-right:C20*/
    {
        {
            from_vec_helper::<N, _>([(), (), ()], vec_lit([ev(log, 0), ev(log, 1), ev(log, 2)]))
        }
    }
    proof fn reach_box_list_3<N: ArrayLength>(log: Log) requires N::n() == 3  /* the length inferred from Const<3> */, log.order == Seq::<int>::empty(), { assert(false); } /*OB:canary.box_list_3:*/

    // extracted from src/arr.rs:26  `macro_rules! arr arm `($($x:expr),* $(,)*)``
    pub fn arr_list_4<N: ArrayLength>(log: &mut Log) -> (ret: PanicOr<GA>)
        requires
            N::n() == 4  /* the length inferred from Const<4> */,
            old(log).order == Seq::<int>::empty(),
        ensures
            ret is Ret, /*OB:arr_list_4.post.never-panics:C20*/
            ret is Ret ==> ret->Ret_0.elems =~= Seq::new(4 as nat, |i: int| i), /*OB:arr_list_4.post.holds-e0-to-ek-in-order:C20*/
            final(log).order =~= Seq::new(4 as nat, |i: int| i), /*OB:arr_list_4.post.each-expression-once-left-to-right:C20*/
    {
        from_array::<N>(arr_lit([ev(log, 0), ev(log, 1), ev(log, 2), ev(log, 3)]))
    }
    proof fn reach_arr_list_4<N: ArrayLength>(log: Log) requires N::n() == 4  /* the length inferred from Const<4> */, log.order == Seq::<int>::empty(), { assert(false); } /*OB:canary.arr_list_4:*/

    // extracted from src/arr.rs:59  `macro_rules! box_arr arm `($($x:expr),* $(,)*)``
    pub fn box_list_4<N: ArrayLength>(log: &mut Log) -> (r: BoxArr)
        requires
            N::n() == 4  /* the length inferred from Const<4> */,
            old(log).order == Seq::<int>::empty(),
        ensures
            r.block.content =~= Seq::new(4 as nat, |i: int| i), /*OB:box_list_4.post.holds-e0-to-ek-in-order:C20*/
            r.block.elems == N::n(), /*OB:box_list_4.post.n-elements:C20*/
            final(log).order =~= Seq::new(4 as nat, |i: int| i), /*OB:box_list_4.post.each-expression-once-left-to-right:C20*/
    {
        {
            from_vec_helper::<N, _>([(), (), (), ()], vec_lit([ev(log, 0), ev(log, 1), ev(log, 2), ev(log, 3)]))
        }
    }
    proof fn reach_box_list_4<N: ArrayLength>(log: Log) requires N::n() == 4  /* the length inferred from Const<4> */, log.order == Seq::<int>::empty(), { assert(false); } /*OB:canary.box_list_4:*/

    // extracted from src/arr.rs:26  `macro_rules! arr arm `($($x:expr),* $(,)*)``
    pub fn arr_list_5<N: ArrayLength>(log: &mut Log) -> (ret: PanicOr<GA>)
        requires
            N::n() == 5  /* the length inferred from Const<5> */,
            old(log).order == Seq::<int>::empty(),
        ensures
            ret is Ret, /*OB:arr_list_5.post.never-panics:C20*/
            ret is Ret ==> ret->Ret_0.elems =~= Seq::new(5 as nat, |i: int| i), /*OB:arr_list_5.post.holds-e0-to-ek-in-order:C20*/
            final(log).order =~= Seq::new(5 as nat, |i: int| i), /*OB:arr_list_5.post.each-expression-once-left-to-right:C20*/
    {
        from_array::<N>(arr_lit([ev(log, 0), ev(log, 1), ev(log, 2), ev(log, 3), ev(log, 4)]))
    }
    proof fn reach_arr_list_5<N: ArrayLength>(log: Log) requires N::n() == 5  /* the length inferred from Const<5> */, log.order == Seq::<int>::empty(), { assert(false); } /*OB:canary.arr_list_5:*/

    // extracted from src/arr.rs:59  `macro_rules! box_arr arm `($($x:expr),* $(,)*)``
    pub fn box_list_5<N: ArrayLength>(log: &mut Log) -> (r: BoxArr)
        requires
            N::n() == 5  /* the length inferred from Const<5> */,
            old(log).order == Seq::<int>::empty(),
        ensures
            r.block.content =~= Seq::new(5 as nat, |i: int| i), /*OB:box_list_5.post.holds-e0-to-ek-in-order:C20*/
            r.block.elems == N::n(), /*OB:box_list_5.post.n-elements:C20*/
            final(log).order =~= Seq::new(5 as nat, |i: int| i), /*OB:box_list_5.post.each-expression-once-left-to-right:C20*/
    {
        {
            from_vec_helper::<N, _>([(), (), (), (), ()], vec_lit([ev(log, 0), ev(log, 1), ev(log, 2), ev(log, 3), ev(log, 4)]))
        }
    }
    proof fn reach_box_list_5<N: ArrayLength>(log: Log) requires N::n() == 5  /* the length inferred from Const<5> */, log.order == Seq::<int>::empty(), { assert(false); } /*OB:canary.box_list_5:*/

    // extracted from src/arr.rs:26  `macro_rules! arr arm `($($x:expr),* $(,)*)``
    pub fn arr_list_6<N: ArrayLength>(log: &mut Log) -> (ret: PanicOr<GA>)
        requires
            N::n() == 6  /* the length inferred from Const<6> */,
            old(log).order == Seq::<int>::empty(),
        ensures
            ret is Ret, /*OB:arr_list_6.post.never-panics:C20*/
            ret is Ret ==> ret->Ret_0.elems =~= Seq::new(6 as nat, |i: int| i), /*OB:arr_list_6.post.holds-e0-to-ek-in-order:C20*/
            final(log).order =~= Seq::new(6 as nat, |i: int| i), /*OB:arr_list_6.post.each-expression-once-left-to-right:C20*/
    {
        from_array::<N>(arr_lit([ev(log, 0), ev(log, 1), ev(log, 2), ev(log, 3), ev(log, 4), ev(log, 5)]))
    }
    proof fn reach_arr_list_6<N: ArrayLength>(log: Log) requires N::n() == 6  /* the length inferred from Const<6> */, log.order == Seq::<int>::empty(), { assert(false); } /*OB:canary.arr_list_6:*/

    // extracted from src/arr.rs:59  `macro_rules! box_arr arm `($($x:expr),* $(,)*)``
    pub fn box_list_6<N: ArrayLength>(log: &mut Log) -> (r: BoxArr)
        requires
            N::n() == 6  /* the length inferred from Const<6> */,
            old(log).order == Seq::<int>::empty(),
        ensures
            r.block.content =~= Seq::new(6 as nat, |i: int| i), /*OB:box_list_6.post.holds-e0-to-ek-in-order:C20*/
            r.block.elems == N::n(), /*OB:box_list_6.post.n-elements:C20*/
            final(log).order =~= Seq::new(6 as nat, |i: int| i), /*OB:box_list_6.post.each-expression-once-left-to-right:C20*/
    {
        {
            from_vec_helper::<N, _>([(), (), (), (), (), ()], vec_lit([ev(log, 0), ev(log, 1), ev(log, 2), ev(log, 3), ev(log, 4), ev(log, 5)]))
        }
    }
    proof fn reach_box_list_6<N: ArrayLength>(log: Log) requires N::n() == 6  /* the length inferred from Const<6> */, log.order == Seq::<int>::empty(), { assert(false); } /*OB:canary.box_list_6:*/

    // extracted from src/arr.rs:26  `macro_rules! arr arm `($($x:expr),* $(,)*)``
    pub fn arr_list_7<N: ArrayLength>(log: &mut Log) -> (ret: PanicOr<GA>)
        requires
            N::n() == 7  /* the length inferred from Const<7> */,
            old(log).order == Seq::<int>::empty(),
        ensures
            ret is Ret, /*OB:arr_list_7.post.never-panics:C20*/
            ret is Ret ==> ret->Ret_0.elems =~= Seq::new(7 as nat, |i: int| i), /*OB:arr_list_7.post.holds-e0-to-ek-in-order:C20*/
            final(log).order =~= Seq::new(7 as nat, |i: int| i), /*OB:arr_list_7.post.each-expression-once-left-to-right:C20*/
    {
        from_array::<N>(arr_lit([ev(log, 0), ev(log, 1), ev(log, 2), ev(log, 3), ev(log, 4), ev(log, 5), ev(log, 6)]))
    }
    proof fn reach_arr_list_7<N: ArrayLength>(log: Log) requires N::n() == 7  /* the length inferred from Const<7> */, log.order == Seq::<int>::empty(), { assert(false); } /*OB:canary.arr_list_7:*/

    // extracted from src/arr.rs:59  `macro_rules! box_arr arm `($($x:expr),* $(,)*)``
    pub fn box_list_7<N: ArrayLength>(log: &mut Log) -> (r: BoxArr)
        requires
            N::n() == 7  /* the length inferred from Const<7> */,
            old(log).order == Seq::<int>::empty(),
        ensures
            r.block.content =~= Seq::new(7 as nat, |i: int| i), /*OB:box_list_7.post.holds-e0-to-ek-in-order:C20*/
            r.block.elems == N::n(), /*OB:box_list_7.post.n-elements:C20*/
            final(log).order =~= Seq::new(7 as nat, |i: int| i), /*OB:box_list_7.post.each-expression-once-left-to-right:C20*/
    {
        {
            from_vec_helper::<N, _>([(), (), (), (), (), (), ()], vec_lit([ev(log, 0), ev(log, 1), ev(log, 2), ev(log, 3), ev(log, 4), ev(log, 5), ev(log, 6)]))
        }
    }
    proof fn reach_box_list_7<N: ArrayLength>(log: Log) requires N::n() == 7  /* the length inferred from Const<7> */, log.order == Seq::<int>::empty(), { assert(false); } /*OB:canary.box_list_7:*/

    // extracted from src/arr.rs:26  `macro_rules! arr arm `($($x:expr),* $(,)*)``
    pub fn arr_list_8<N: ArrayLength>(log: &mut Log) -> (ret: PanicOr<GA>)
        requires
            N::n() == 8  /* the length inferred from Const<8> */,
            old(log).order == Seq::<int>::empty(),
        ensures
            ret is Ret, /*OB:arr_list_8.post.never-panics:C20*/
            ret is Ret ==> ret->Ret_0.elems =~= Seq::new(8 as nat, |i: int| i), /*OB:arr_list_8.post.holds-e0-to-ek-in-order:C20*/
            final(log).order =~= Seq::new(8 as nat, |i: int| i), /*OB:arr_list_8.post.each-expression-once-left-to-right:C20*/
    {
        from_array::<N>(arr_lit([ev(log, 0), ev(log, 1), ev(log, 2), ev(log, 3), ev(log, 4), ev(log, 5), ev(log, 6), ev(log, 7)]))
    }
    proof fn reach_arr_list_8<N: ArrayLength>(log: Log) requires N::n() == 8  /* the length inferred from Const<8> */, log.order == Seq::<int>::empty(), { assert(false); } /*OB:canary.arr_list_8:*/

    // extracted from src/arr.rs:59  `macro_rules! box_arr arm `($($x:expr),* $(,)*)``
    pub fn box_list_8<N: ArrayLength>(log: &mut Log) -> (r: BoxArr)
        requires
            N::n() == 8  /* the length inferred from Const<8> */,
            old(log).order == Seq::<int>::empty(),
        ensures
            r.block.content =~= Seq::new(8 as nat, |i: int| i), /*OB:box_list_8.post.holds-e0-to-ek-in-order:C20*/
            r.block.elems == N::n(), /*OB:box_list_8.post.n-elements:C20*/
            final(log).order =~= Seq::new(8 as nat, |i: int| i), /*OB:box_list_8.post.each-expression-once-left-to-right:C20*/
    {
        {
            from_vec_helper::<N, _>([(), (), (), (), (), (), (), ()], vec_lit([ev(log, 0), ev(log, 1), ev(log, 2), ev(log, 3), ev(log, 4), ev(log, 5), ev(log, 6), ev(log, 7)]))
        }
    }
    proof fn reach_box_list_8<N: ArrayLength>(log: Log) requires N::n() == 8  /* the length inferred from Const<8> */, log.order == Seq::<int>::empty(), { assert(false); } /*OB:canary.box_list_8:*/

    // extracted from src/arr.rs:27  `local `const fn __do_transmute` of macro_rules! arr arm `($x:expr; $N:ty)``
    pub fn do_transmute<N: ArrayLength>(arr: Arr, __INPUT_LENGTH: usize) -> (ret: PanicOr<GA>)
        requires
            arr.len == __INPUT_LENGTH  /* parameter type [T; __INPUT_LENGTH] */,
        ensures
            ret is Panic <==> __INPUT_LENGTH != N::n(), /*OB:do_transmute.post.panics-iff-lengths-differ:C20*/
            ret is Ret ==> ret->Ret_0.elems == arr.elems, /*OB:do_transmute.post.same-elements-in-order:C20*/
    {
        {
            match const_transmute(bits_of_arr(arr), N::usize_()) {
                PanicOr::Ret(__b) => PanicOr::Ret(ga_of_bits::<N>(__b)), PanicOr::Panic => PanicOr::Panic
            }
        }
    }
    proof fn reach_do_transmute<N: ArrayLength>(arr: Arr, __INPUT_LENGTH: usize) requires arr.len == __INPUT_LENGTH  /* parameter type [T; __INPUT_LENGTH] */, { assert(false); } /*OB:canary.do_transmute:*/

    // extracted from src/arr.rs:27  `macro_rules! arr arm `($x:expr; $N:ty)``
    pub fn arr_repeat_ty<N: ArrayLength>(log: &mut Log) -> (ret: PanicOr<GA>)
        requires
            old(log).order == Seq::<int>::empty(),
        ensures
            ret is Ret, /*OB:arr_repeat_ty.post.never-panics-for-any-N:C20*/
            ret is Ret ==> ret->Ret_0.elems =~= Seq::new(N::n() as nat, |i: int| 0int), /*OB:arr_repeat_ty.post.n-copies-of-x:C20*/
            final(log).order =~= seq![0int], /*OB:arr_repeat_ty.post.x-evaluated-once:C20*/
    {
        {
            let __INPUT_LENGTH: usize = N::usize_();
            do_transmute::<N>(arr_repeat(ev(log, 0), __INPUT_LENGTH), __INPUT_LENGTH)
        }
    }
    proof fn reach_arr_repeat_ty<N: ArrayLength>(log: Log) requires log.order == Seq::<int>::empty(), { assert(false); } /*OB:canary.arr_repeat_ty:*/

    // extracted from src/arr.rs:38  `macro_rules! arr arm `($x:expr; $n:expr)``
    pub fn arr_repeat_expr<N: ArrayLength>(log: &mut Log, n: usize) -> (ret: PanicOr<GA>)
        requires
            N::n() == n  /* the length inferred from Const<n> */,
            old(log).order == Seq::<int>::empty(),
        ensures
            ret is Ret, /*OB:arr_repeat_expr.post.never-panics:C20*/
            ret is Ret ==> ret->Ret_0.elems =~= Seq::new(n as nat, |i: int| 0int), /*OB:arr_repeat_expr.post.n-copies-of-x:C20*/
            final(log).order =~= seq![0int], /*OB:arr_repeat_expr.post.x-evaluated-once:C20*/
    {
        from_array::<N>(arr_repeat(ev(log, 0), n))
    }
    proof fn reach_arr_repeat_expr<N: ArrayLength>(log: Log, n: usize) requires N::n() == n  /* the length inferred from Const<n> */, log.order == Seq::<int>::empty(), { assert(false); } /*OB:canary.arr_repeat_expr:*/

    // extracted from src/arr.rs:63  `macro_rules! box_arr arm `($x:expr; $N:ty)``
    pub fn box_repeat_ty<N: ArrayLength>(log: &mut Log) -> (ret: PanicOr<BoxArr>)
        requires
            old(log).order == Seq::<int>::empty(),
        ensures
            ret is Ret, /*OB:box_repeat_ty.post.never-panics-for-any-N:C20*/
            ret is Ret ==> ret->Ret_0.block.content =~= Seq::new(N::n() as nat, |i: int| 0int), /*OB:box_repeat_ty.post.n-copies-of-x:C20*/
            ret is Ret ==> ret->Ret_0.block.elems == N::n(), /*OB:box_repeat_ty.post.n-elements:C20*/
            final(log).order =~= seq![0int], /*OB:box_repeat_ty.post.x-evaluated-once:C20*/
    {
        match try_from_vec::<N>(vec_repeat(ev(log, 0), N::usize_())) {
            Ok(__v) => PanicOr::Ret(__v), Err(_) => PanicOr::Panic
        }
    }
    proof fn reach_box_repeat_ty<N: ArrayLength>(log: Log) requires log.order == Seq::<int>::empty(), { assert(false); } /*OB:canary.box_repeat_ty:*/

    // extracted from src/arr.rs:64  `macro_rules! box_arr arm `($x:expr; $n:expr)``
    pub fn box_repeat_expr<N: ArrayLength>(log: &mut Log, n: usize) -> (ret: PanicOr<BoxArr>)
        requires
            N::n() == n  /* the length type is <Const<n> as IntoArrayLength>::ArrayLength */,
            old(log).order == Seq::<int>::empty(),
        ensures
            ret is Ret, /*OB:box_repeat_expr.post.never-panics:C20*/
            ret is Ret ==> ret->Ret_0.block.content =~= Seq::new(n as nat, |i: int| 0int), /*OB:box_repeat_expr.post.n-copies-of-x:C20*/
            ret is Ret ==> ret->Ret_0.block.elems == N::n(), /*OB:box_repeat_expr.post.n-elements:C20*/
            final(log).order =~= seq![0int], /*OB:box_repeat_expr.post.x-evaluated-once:C20*/
    {
        {
            let __LEN: usize = n;
            match try_from_vec_checked::<N>(Ghost(__LEN), vec_repeat(ev(log, 0), __LEN)) {
                Ok(__v) => PanicOr::Ret(__v), Err(_) => PanicOr::Panic
            }
        }
    }
    proof fn reach_box_repeat_expr<N: ArrayLength>(log: Log, n: usize) requires N::n() == n  /* the length type is <Const<n> as IntoArrayLength>::ArrayLength */, log.order == Seq::<int>::empty(), { assert(false); } /*OB:canary.box_repeat_expr:*/

proof fn canary() { assert(false); } /*OB:canary:*/
} // verus!
fn main() {}


use vstd::prelude::*;
verus! {

// ===================== engine-V prelude: common (TRUSTED; the only place external_body may appear) =====================
// Type-level lengths: rule R-len maps `N::USIZE` to `N::usize_()`; `n()` is the mathematical length.
pub trait ArrayLength { spec fn n() -> usize; fn usize_() -> (r: usize) ensures r == Self::n(); }

pub open spec fn min_spec(a: usize, b: usize) -> usize { if a <= b { a } else { b } }
// core::cmp::min on usize (rule R-misc)
pub fn cmp_min(a: usize, b: usize) -> (r: usize) ensures r == min_spec(a, b) { if a <= b { a } else { b } }

// rule R-panic: a function that may panic returns PanicOr; `ret is Panic <==> ..` is then an ordinary postcondition
pub enum PanicOr<R> { Panic, Ret(R) }

// ===================== engine-V prelude: provenance-carrying pointers and slices (TRUSTED) =====================
// Rule R-ptr.  All offsets are in ELEMENTS of T (bytes = elements * size_of::<T>() is exactly C01's lemma).
//   Sl  = a slice / array reference: `len` items of `stride` elements each, starting `off` elements into allocation `base`
//         (stride 1: &[T];  stride N, len 1: &GenericArray<T,N> or &[T;N];  stride N, len k: &[GenericArray<T,N>])
//   Ptr = a raw pointer with the provenance [lo, hi) it was derived from
pub struct Sl { pub base: int, pub off: usize, pub len: usize, pub stride: usize }
#[derive(Clone, Copy)]
pub struct Ptr { pub base: int, pub off: usize, pub stride: usize, pub lo: usize, pub hi: usize }

impl Sl {
    pub open spec fn start(&self) -> int { self.off as int }
    pub open spec fn end(&self) -> int { self.off + self.len * self.stride }
    // a reference is valid only if its extent fits the address space
    pub open spec fn valid(&self) -> bool { self.end() <= usize::MAX && self.len * self.stride * size_of_t() <= isize::MAX && (self.stride == 1 ==> self.len * size_of_t() <= isize::MAX) }
    pub fn len(&self) -> (r: usize) ensures r == self.len { self.len }
    pub fn is_empty(&self) -> (r: bool) ensures r == (self.len == 0) { self.len == 0 }
    // slice.as_ptr() / as_mut_ptr() / `self as *const Self`: provenance is the whole referent
    #[verifier::external_body]
    pub fn as_ptr(&self) -> (p: Ptr)
        ensures p.base == self.base, p.off == self.off, p.stride == self.stride, p.lo == self.off, p.hi as int == self.end(),
    { unimplemented!() }
    // &[] / &mut []: an empty slice somewhere else
    #[verifier::external_body]
    pub fn empty() -> (s: Sl) ensures s.len == 0 { unimplemented!() }
    // the same, typed: `&[]` where a slice of items spanning `stride` elements each is expected
    #[verifier::external_body]
    pub fn empty_of(stride: usize) -> (s: Sl) ensures s.len == 0, s.stride == stride { unimplemented!() }
}
// NonNull::dangling().as_ref() / as_mut(): a well-aligned address that is NOT derived from any reference in scope (nothing is known about it)
#[verifier::external_body]
pub fn dangling_ref() -> (s: Sl) { unimplemented!() }
// Byte sizes (rule R-bytes).  mem::size_of::<T>() is some fixed size, POSSIBLY ZERO; align_of::<T>() is at least 1.
// By C01 a GenericArray<T, N> occupies exactly N * size_of::<T>() bytes; no Rust object exceeds isize::MAX bytes, so the byte
// size of an array type and of a valid slice fits a usize (axioms of the language, stated as contracts of these primitives).
pub uninterp spec fn size_of_t() -> usize;
pub uninterp spec fn align_of_t() -> usize;
#[verifier::external_body]
pub fn size_of_elem() -> (r: usize) ensures r == size_of_t() { unimplemented!() }
#[verifier::external_body]
pub fn align_of_elem() -> (r: usize) ensures r == align_of_t(), r >= 1 { unimplemented!() }
#[verifier::external_body]
pub fn size_of_array<N: ArrayLength>() -> (r: usize) ensures r as int == N::n() * size_of_t() { unimplemented!() }
impl Sl {
    // mem::size_of_val(slice)
    #[verifier::external_body]
    pub fn size_of_val(&self) -> (r: usize) ensures r as int == self.len * self.stride * size_of_t() { unimplemented!() }
}
impl Ptr {
    // `p as *const X`: same address and provenance, the pointee now spans `stride` elements
    #[verifier::external_body]
    pub fn cast(self, stride: usize) -> (p: Ptr) ensures p == (Ptr { stride: stride, ..self }) { unimplemented!() }
    // p.add(k): must stay inside (or one past) the provenance
    #[verifier::external_body]
    pub fn add(self, k: usize) -> (p: Ptr)
        requires self.lo <= self.off, self.off + k * self.stride <= self.hi,
        ensures p == (Ptr { off: (self.off + k * self.stride) as usize, ..self })
    { unimplemented!() }
}
// slice::from_raw_parts(_mut)(p, n): all n items must lie inside the provenance
#[verifier::external_body]
pub fn from_raw_parts(p: Ptr, n: usize) -> (s: Sl)
    requires p.lo <= p.off, p.off + n * p.stride <= p.hi,
    ensures s.base == p.base, s.off == p.off, s.len == n, s.stride == p.stride,
{ unimplemented!() }
// &*p / &mut *p: one whole pointee must lie inside the provenance
#[verifier::external_body]
pub fn deref(p: Ptr) -> (s: Sl)
    requires p.lo <= p.off, p.off + p.stride <= p.hi,
    ensures s.base == p.base, s.off == p.off, s.len == 1, s.stride == p.stride,
{ unimplemented!() }

pub struct LengthError;

proof fn lemma_chunks(l: usize, n: usize)
    requires n > 0,
    ensures (l / n) * n <= l, l - (l / n) * n == l % n, l < n ==> l / n == 0 && l % n == l, l == n ==> l / n == 1 && l % n == 0,
{
    vstd::arithmetic::div_mod::lemma_fundamental_div_mod(l as int, n as int);
    assert((l / n) * n == n * (l / n)) by (nonlinear_arith);
    let q = (l / n) as int; let r = (l % n) as int;
    assert(l as int == (n as int) * q + r && 0 <= r < n as int && 0 <= q);
    if l < n { assert(q == 0) by (nonlinear_arith) requires l as int == (n as int) * q + r, 0 <= r, (l as int) < n as int, n > 0, 0 <= q; assert((n as int) * q == 0) by (nonlinear_arith) requires q == 0; }
    if l == n { assert(q == 1) by (nonlinear_arith) requires l as int == (n as int) * q + r, 0 <= r < n as int, l as int == n as int, n > 0, 0 <= q; assert((n as int) * q == n as int) by (nonlinear_arith) requires q == 1; }
}
// arithmetic facts about L / N and L % N offered to every chunking function at entry (a body that takes a different but
// equivalent route - an early return for L < N, say - must not fail for want of a division lemma)
proof fn lemma_chunks_entry(l: usize, n: usize)
    ensures n > 0 ==> (l / n) * n <= l && l - (l / n) * n == l % n && (l < n ==> l / n == 0 && l % n == l) && (l == n ==> l / n == 1 && l % n == 0),
{
    if n > 0 { lemma_chunks(l, n); }
}

// const_transmute: reading field `b` of `union { a: A, b: B }` after writing `a` reinterprets size_of::<B>() bytes, of which only
// size_of::<A>() were written: defined only when the sizes agree (what mem::transmute checks at compile time)
// `elems`: the element values stored in those bytes, in address order
pub struct Bits { pub size: usize, pub ghost elems: Seq<int> }
#[verifier::external_body]
pub fn union_reinterpret(a: Bits, size_b: usize) -> (b: Bits)
    requires a.size == size_b,
    ensures b.size == size_b, b.elems == a.elems,
{ unimplemented!() }

// mem::transmute of a reference to a reference of another type with the same total extent: the address is unchanged
impl Sl {
    #[verifier::external_body]
    pub fn retype_ref(self, len: usize, stride: usize) -> (r: Sl)
        requires len * stride == self.len * self.stride,        // mem::transmute checks the (thin) pointer size only; the extents must agree
        ensures r.base == self.base, r.off == self.off, r.len == len, r.stride == stride,
    { unimplemented!() }
}


// ===== extracted: src/lib.rs =====

    // extracted from src/lib.rs:682  `fn as_slice(&self) -> &[T]`
    pub fn as_slice<N: ArrayLength>(self_: Sl) -> (ret: PanicOr<Sl>)
        requires
            self_.stride == N::n(),
            self_.len == 1,
            self_.valid(),
        ensures
            ret is Ret, /*OB:as_slice.post.never-panics:C02,C18*/
            ret->Ret_0.base == self_.base && ret->Ret_0.off == self_.off, /*OB:as_slice.post.aliases:C02,C18*/
            ret->Ret_0.len == N::n() && ret->Ret_0.stride == 1 && ret->Ret_0.end() == self_.end(), /*OB:as_slice.post.n-elements:C02,C18*/
    {
        let __r = {
            {
                from_raw_parts(self_.as_ptr().cast(1), N::usize_())
            }
        };
        PanicOr::Ret(__r)
    }
    proof fn reach_as_slice<N: ArrayLength>(self_: Sl) requires self_.stride == N::n(), self_.len == 1, self_.valid(), { assert(false); } /*OB:canary.as_slice:*/

    // extracted from src/lib.rs:688  `fn as_mut_slice(&mut self) -> &mut [T]`
    pub fn as_mut_slice<N: ArrayLength>(self_: Sl) -> (ret: PanicOr<Sl>)
        requires
            self_.stride == N::n(),
            self_.len == 1,
            self_.valid(),
        ensures
            ret is Ret, /*OB:as_mut_slice.post.never-panics:C02,C18*/
            ret->Ret_0.base == self_.base && ret->Ret_0.off == self_.off, /*OB:as_mut_slice.post.aliases:C02,C18*/
            ret->Ret_0.len == N::n() && ret->Ret_0.stride == 1 && ret->Ret_0.end() == self_.end(), /*OB:as_mut_slice.post.n-elements:C02,C18*/
    {
        let __r = {
            {
                from_raw_parts(self_.as_ptr().cast(1), N::usize_())
            }
        };
        PanicOr::Ret(__r)
    }
    proof fn reach_as_mut_slice<N: ArrayLength>(self_: Sl) requires self_.stride == N::n(), self_.len == 1, self_.valid(), { assert(false); } /*OB:canary.as_mut_slice:*/

    // extracted from src/lib.rs:701  `fn from_slice(slice: &[T]) -> &GenericArray<T, N>`
    pub fn from_slice<N: ArrayLength>(slice: Sl) -> (ret: PanicOr<Sl>)
        requires
            slice.stride == 1,
            slice.valid(),
        ensures
            ret is Panic <==> slice.len != N::n(), /*OB:from_slice.post.panics-iff-wrong-length:C02,C18*/
            ret is Ret ==> ret->Ret_0.base == slice.base && ret->Ret_0.off == slice.off && ret->Ret_0.len == 1 && ret->Ret_0.stride == N::n(), /*OB:from_slice.post.aliases:C02,C18*/
    {
        let __r = {
            if slice.len() != N::usize_() {
                return PanicOr::Panic;
            }
            {
                deref(slice.as_ptr().cast(N::usize_()))
            }
        };
        PanicOr::Ret(__r)
    }
    proof fn reach_from_slice<N: ArrayLength>(slice: Sl) requires slice.stride == 1, slice.valid(), { assert(false); } /*OB:canary.from_slice:*/

    // extracted from src/lib.rs:733  `fn from_mut_slice(slice: &mut [T]) -> &mut GenericArray<T, N>`
    pub fn from_mut_slice<N: ArrayLength>(slice: Sl) -> (ret: PanicOr<Sl>)
        requires
            slice.stride == 1,
            slice.valid(),
        ensures
            ret is Panic <==> slice.len != N::n(), /*OB:from_mut_slice.post.panics-iff-wrong-length:C02,C18*/
            ret is Ret ==> ret->Ret_0.base == slice.base && ret->Ret_0.off == slice.off && ret->Ret_0.len == 1 && ret->Ret_0.stride == N::n(), /*OB:from_mut_slice.post.aliases:C02,C18*/
    {
        let __r = {
            if !(slice.len() == N::usize_()) {
                return PanicOr::Panic;
            }
            {
                deref(slice.as_ptr().cast(N::usize_()))
            }
        };
        PanicOr::Ret(__r)
    }
    proof fn reach_from_mut_slice<N: ArrayLength>(slice: Sl) requires slice.stride == 1, slice.valid(), { assert(false); } /*OB:canary.from_mut_slice:*/

    // extracted from src/lib.rs:714  `fn try_from_slice(slice: &[T]) -> Result<&GenericArray<T, N>, LengthError>`
    pub fn try_from_slice<N: ArrayLength>(slice: Sl) -> (ret: PanicOr<Result<Sl, LengthError>>)
        requires
            slice.stride == 1,
            slice.valid(),
        ensures
            ret is Ret, /*OB:try_from_slice.post.never-panics:C02,C18*/
            ret->Ret_0 is Err <==> slice.len != N::n(), /*OB:try_from_slice.post.err-iff-wrong-length:C02,C18*/
            ret->Ret_0 is Ok ==> ret->Ret_0->Ok_0.base == slice.base && ret->Ret_0->Ok_0.off == slice.off && ret->Ret_0->Ok_0.len == 1 && ret->Ret_0->Ok_0.stride == N::n(), /*OB:try_from_slice.post.aliases:C02,C18*/
    {
        let __r = {
            if slice.len() != N::usize_() {
                return PanicOr::Ret(Err(LengthError));
            }
            if !(slice.len() * size_of_elem() == size_of_array::<N>()) {
                assert(false) /*OB:views.debug-assertion-can-never-fail:C02,C10,C18*/;
            }
            Ok({ deref(slice.as_ptr().cast(N::usize_())) })
        };
        PanicOr::Ret(__r)
    }
    proof fn reach_try_from_slice<N: ArrayLength>(slice: Sl) requires slice.stride == 1, slice.valid(), { assert(false); } /*OB:canary.try_from_slice:*/

    // extracted from src/lib.rs:747  `fn try_from_mut_slice( slice: &mut [T], ) -> Result<&mut GenericArray<T, N>, LengthError>`
    pub fn try_from_mut_slice<N: ArrayLength>(slice: Sl) -> (ret: PanicOr<Result<Sl, LengthError>>)
        requires
            slice.stride == 1,
            slice.valid(),
        ensures
            ret is Ret, /*OB:try_from_mut_slice.post.never-panics:C02,C18*/
            ret->Ret_0 is Err <==> slice.len != N::n(), /*OB:try_from_mut_slice.post.err-iff-wrong-length:C02,C18*/
            ret->Ret_0 is Ok ==> ret->Ret_0->Ok_0.base == slice.base && ret->Ret_0->Ok_0.off == slice.off && ret->Ret_0->Ok_0.len == 1 && ret->Ret_0->Ok_0.stride == N::n(), /*OB:try_from_mut_slice.post.aliases:C02,C18*/
    {
        let __r = {
            match slice.len() == N::usize_() {
                true => Ok(match from_mut_slice::<N>(slice) { PanicOr::Ret(__r) => __r, PanicOr::Panic => { return PanicOr::Panic; } }), false => Err(LengthError),
            }
        };
        PanicOr::Ret(__r)
    }
    proof fn reach_try_from_mut_slice<N: ArrayLength>(slice: Sl) requires slice.stride == 1, slice.valid(), { assert(false); } /*OB:canary.try_from_mut_slice:*/

    // extracted from src/lib.rs:763  `fn chunks_from_slice(slice: &[T]) -> (&[GenericArray<T, N>], &[T])`
    pub fn chunks_from_slice<N: ArrayLength>(slice: Sl) -> (ret: PanicOr<(Sl, Sl)>)
        requires
            slice.stride == 1,
            slice.valid(),
        ensures
            N::n() == 0 ==> (ret is Panic <==> slice.len != 0), /*OB:chunks_from_slice.post.n0-panics-iff-nonempty:C10,C18*/
            N::n() == 0 && slice.len == 0 ==> ret->Ret_0.0.len == 0 && ret->Ret_0.1.len == 0, /*OB:chunks_from_slice.post.n0-empty-gives-two-empty:C10,C18*/
            N::n() > 0 ==> ret is Ret && ({ let (c, r) = ret->Ret_0; &&& c.stride == N::n() && r.stride == 1 &&& c.len == slice.len / N::n() && r.len == slice.len % N::n() &&& c.len > 0 ==> c.base == slice.base && c.start() == slice.start() &&& r.len > 0 ==> r.base == slice.base && r.start() == slice.start() + c.len * N::n() && r.end() == slice.end() }), /*OB:chunks_from_slice.post.partition:C10,C18*/
    {
        proof {
            lemma_chunks_entry(slice.len, N::n());
        }
        let __r = {
            if N::usize_() == 0 {
                if !(slice.is_empty()) {
                    return PanicOr::Panic;
                }
                return PanicOr::Ret((Sl::empty_of(N::usize_()), Sl::empty_of(1)));
            }
            let num_chunks = slice.len() / N::usize_();
            let num_in_chunks = num_chunks * N::usize_();
            let num_remainder = slice.len() - num_in_chunks;
            {
                ( from_raw_parts(slice.as_ptr().cast(N::usize_()), num_chunks), from_raw_parts(slice.as_ptr().add(num_in_chunks), num_remainder), )
            }
        };
        PanicOr::Ret(__r)
    }
    proof fn reach_chunks_from_slice<N: ArrayLength>(slice: Sl) requires slice.stride == 1, slice.valid(), { assert(false); } /*OB:canary.chunks_from_slice:*/

    // extracted from src/lib.rs:789  `fn chunks_from_slice_mut(slice: &mut [T]) -> (&mut [GenericArray<T, N>], &mut [T])`
    pub fn chunks_from_slice_mut<N: ArrayLength>(slice: Sl) -> (ret: PanicOr<(Sl, Sl)>)
        requires
            slice.stride == 1,
            slice.valid(),
        ensures
            N::n() == 0 ==> (ret is Panic <==> slice.len != 0), /*OB:chunks_from_slice_mut.post.n0-panics-iff-nonempty:C10,C18*/
            N::n() == 0 && slice.len == 0 ==> ret->Ret_0.0.len == 0 && ret->Ret_0.1.len == 0, /*OB:chunks_from_slice_mut.post.n0-empty-gives-two-empty:C10,C18*/
            N::n() > 0 ==> ret is Ret && ({ let (c, r) = ret->Ret_0; &&& c.stride == N::n() && r.stride == 1 &&& c.len == slice.len / N::n() && r.len == slice.len % N::n() &&& c.len > 0 ==> c.base == slice.base && c.start() == slice.start() &&& r.len > 0 ==> r.base == slice.base && r.start() == slice.start() + c.len * N::n() && r.end() == slice.end() }), /*OB:chunks_from_slice_mut.post.partition:C10,C18*/
    {
        proof {
            lemma_chunks_entry(slice.len, N::n());
        }
        let __r = {
            if N::usize_() == 0 {
                if !(slice.is_empty()) {
                    return PanicOr::Panic;
                }
                return PanicOr::Ret((Sl::empty_of(N::usize_()), Sl::empty_of(1)));
            }
            let num_chunks = slice.len() / N::usize_();
            let num_in_chunks = num_chunks * N::usize_();
            let num_remainder = slice.len() - num_in_chunks;
            {
                ( from_raw_parts( slice.as_ptr().cast(N::usize_()), num_chunks, ), from_raw_parts(slice.as_ptr().add(num_in_chunks), num_remainder), )
            }
        };
        PanicOr::Ret(__r)
    }
    proof fn reach_chunks_from_slice_mut<N: ArrayLength>(slice: Sl) requires slice.stride == 1, slice.valid(), { assert(false); } /*OB:canary.chunks_from_slice_mut:*/

    // extracted from src/lib.rs:813  `fn slice_from_chunks(slice: &[GenericArray<T, N>]) -> &[T]`
    pub fn slice_from_chunks<N: ArrayLength>(slice: Sl) -> (ret: PanicOr<Sl>)
        requires
            slice.stride == N::n(),
            slice.valid(),
        ensures
            ret is Ret, /*OB:slice_from_chunks.post.never-panics:C10,C18*/
            ret->Ret_0.stride == 1 && ret->Ret_0.len == slice.len * N::n() && (ret->Ret_0.len > 0 ==> ret->Ret_0.base == slice.base && ret->Ret_0.off == slice.off && ret->Ret_0.end() == slice.end()), /*OB:slice_from_chunks.post.inverse:C10,C18*/
    {
        let __r = {
            {
                from_raw_parts(slice.as_ptr().cast(1), slice.len() * N::usize_())
            }
        };
        PanicOr::Ret(__r)
    }
    proof fn reach_slice_from_chunks<N: ArrayLength>(slice: Sl) requires slice.stride == N::n(), slice.valid(), { assert(false); } /*OB:canary.slice_from_chunks:*/

    // extracted from src/lib.rs:819  `fn slice_from_chunks_mut(slice: &mut [GenericArray<T, N>]) -> &mut [T]`
    pub fn slice_from_chunks_mut<N: ArrayLength>(slice: Sl) -> (ret: PanicOr<Sl>)
        requires
            slice.stride == N::n(),
            slice.valid(),
        ensures
            ret is Ret, /*OB:slice_from_chunks_mut.post.never-panics:C10,C18*/
            ret->Ret_0.stride == 1 && ret->Ret_0.len == slice.len * N::n() && (ret->Ret_0.len > 0 ==> ret->Ret_0.base == slice.base && ret->Ret_0.off == slice.off && ret->Ret_0.end() == slice.end()), /*OB:slice_from_chunks_mut.post.inverse:C10,C18*/
    {
        let __r = {
            {
                from_raw_parts(slice.as_ptr().cast(1), slice.len() * N::usize_())
            }
        };
        PanicOr::Ret(__r)
    }
    proof fn reach_slice_from_chunks_mut<N: ArrayLength>(slice: Sl) requires slice.stride == N::n(), slice.valid(), { assert(false); } /*OB:canary.slice_from_chunks_mut:*/

    // extracted from src/lib.rs:1000  `pub const unsafe fn const_transmute<A, B>(a: A) -> B`
    pub fn const_transmute(a: Bits, size_b: usize) -> (ret: PanicOr<Bits>)
        ensures
            ret is Panic <==> a.size != size_b, /*OB:const_transmute.post.panics-iff-sizes-differ:C02,C10,C11*/
            ret is Ret ==> ret->Ret_0.size == size_b && ret->Ret_0.elems == a.elems, /*OB:const_transmute.post.reinterprets-the-same-bytes:C02,C11*/
    {
        if a.size != size_b {
            return PanicOr::Panic;
        }
        PanicOr::Ret(union_reinterpret(a, size_b))
    }

    // extracted from src/sequence.rs:330  `fn split(self) -> (Self::First, Self::Second)`
    pub fn split_ref<N: ArrayLength, K: ArrayLength>(self_: Sl) -> (ret: (Sl, Sl))
        requires
            self_.stride == N::n(),
            self_.len == 1,
            self_.valid(),
            K::n() <= N::n(),
        ensures
            ret.0.base == self_.base && ret.0.off == self_.off && ret.0.len == 1 && ret.0.stride == K::n(), /*OB:split_ref.post.first-half-at-the-start:C09*/
            ret.1.base == self_.base && ret.1.off == self_.off + K::n() && ret.1.len == 1 && ret.1.stride == N::n() - K::n(), /*OB:split_ref.post.second-half-adjacent:C09*/
            ret.0.end() == ret.1.start() && ret.1.end() == self_.end(), /*OB:split_ref.post.cover-exactly:C09*/
    {
        {
            let ptr_to_first = self_.as_ptr().cast(1);
            let head = deref(ptr_to_first.cast(K::usize_()));
            let tail = deref(ptr_to_first.add(K::usize_()).cast(N::usize_() - K::usize_()));
            (head, tail)
        }
    }
    proof fn reach_split_ref<N: ArrayLength, K: ArrayLength>(self_: Sl) requires self_.stride == N::n(), self_.len == 1, self_.valid(), K::n() <= N::n(), { assert(false); } /*OB:canary.split_ref:*/

    // extracted from src/sequence.rs:351  `fn split(self) -> (Self::First, Self::Second)`
    pub fn split_mut<N: ArrayLength, K: ArrayLength>(self_: Sl) -> (ret: (Sl, Sl))
        requires
            self_.stride == N::n(),
            self_.len == 1,
            self_.valid(),
            K::n() <= N::n(),
        ensures
            ret.0.base == self_.base && ret.0.off == self_.off && ret.0.len == 1 && ret.0.stride == K::n(), /*OB:split_mut.post.first-half-at-the-start:C09*/
            ret.1.base == self_.base && ret.1.off == self_.off + K::n() && ret.1.len == 1 && ret.1.stride == N::n() - K::n(), /*OB:split_mut.post.second-half-adjacent:C09*/
            ret.0.end() == ret.1.start() && ret.1.end() == self_.end(), /*OB:split_mut.post.cover-exactly:C09*/
    {
        {
            let ptr_to_first = self_.as_ptr().cast(1);
            let head = deref(ptr_to_first.cast(K::usize_()));
            let tail = deref(ptr_to_first.add(K::usize_()).cast(N::usize_() - K::usize_()));
            (head, tail)
        }
    }
    proof fn reach_split_mut<N: ArrayLength, K: ArrayLength>(self_: Sl) requires self_.stride == N::n(), self_.len == 1, self_.valid(), K::n() <= N::n(), { assert(false); } /*OB:canary.split_mut:*/

    // extracted from src/sequence.rs:603  `fn flatten(self) -> Self::Output`
    pub fn flatten_owned<N: ArrayLength, M: ArrayLength>(a: Bits) -> (ret: PanicOr<Bits>)
        requires
            a.size == N::n() * M::n()  /* M arrays of N elements: extent N*M elements (lemma_nested, unit layout) */,
            N::n() * M::n() <= usize::MAX,
        ensures
            ret is Ret && ret->Ret_0.size == N::n() * M::n(), /*OB:flatten_owned.post.never-panics-same-extent:C11*/
            ret is Ret ==> ret->Ret_0.elems == a.elems  /* row-major: the M inner arrays lie one after another (lemma_nested, unit layout) */, /*OB:flatten_owned.post.same-element-sequence:C11*/
    {
        {
            const_transmute(a, (N::usize_() * M::usize_()))
        }
    }
    proof fn reach_flatten_owned<N: ArrayLength, M: ArrayLength>(a: Bits) requires a.size == N::n() * M::n()  /* M arrays of N elements: extent N*M elements (lemma_nested, unit layout) */, N::n() * M::n() <= usize::MAX, { assert(false); } /*OB:canary.flatten_owned:*/

    // extracted from src/sequence.rs:645  `fn unflatten(self) -> Self::Output`
    pub fn unflatten_owned<NM: ArrayLength, N: ArrayLength>(a: Bits) -> (ret: PanicOr<Bits>)
        requires
            a.size == NM::n(),
            N::n() > 0,
            NM::n() % N::n() == 0,
        ensures
            ret is Ret && ret->Ret_0.size == NM::n(), /*OB:unflatten_owned.post.never-panics-same-extent:C11*/
            ret is Ret ==> ret->Ret_0.elems == a.elems, /*OB:unflatten_owned.post.same-element-sequence:C11*/
    {
        {
            ({ proof { vstd::arithmetic::div_mod::lemma_fundamental_div_mod(NM::n() as int, N::n() as int); assert((NM::n() / N::n()) * N::n() == N::n() * (NM::n() / N::n())) by (nonlinear_arith); } const_transmute(a, ((NM::usize_() / N::usize_()) * N::usize_())) })
        }
    }
    proof fn reach_unflatten_owned<NM: ArrayLength, N: ArrayLength>(a: Bits) requires a.size == NM::n(), N::n() > 0, NM::n() % N::n() == 0, { assert(false); } /*OB:canary.unflatten_owned:*/

    // extracted from src/sequence.rs:617  `fn flatten(self) -> Self::Output`
    pub fn flatten_ref<N: ArrayLength, M: ArrayLength>(self_: Sl) -> (ret: Sl)
        requires
            self_.len == M::n(),
            self_.stride == N::n(),
            self_.valid(),
        ensures
            ret.base == self_.base && ret.off == self_.off, /*OB:flatten_ref.post.same-address:C11*/
            ret.len == 1 && ret.stride == N::n() * M::n() && ret.end() == self_.end(), /*OB:flatten_ref.post.same-extent-N-times-M-elements:C11*/
    {
        {
            ({ assert(N::n() * M::n() == M::n() * N::n()) by (nonlinear_arith); self_.retype_ref(1, N::usize_() * M::usize_()) })
        }
    }
    proof fn reach_flatten_ref<N: ArrayLength, M: ArrayLength>(self_: Sl) requires self_.len == M::n(), self_.stride == N::n(), self_.valid(), { assert(false); } /*OB:canary.flatten_ref:*/

    // extracted from src/sequence.rs:659  `fn unflatten(self) -> Self::Output`
    pub fn unflatten_ref<NM: ArrayLength, N: ArrayLength>(self_: Sl) -> (ret: Sl)
        requires
            self_.len == 1,
            self_.stride == NM::n(),
            self_.valid(),
            N::n() > 0,
            NM::n() % N::n() == 0,
        ensures
            ret.base == self_.base && ret.off == self_.off, /*OB:unflatten_ref.post.same-address:C11*/
            ret.len == NM::n() / N::n() && ret.stride == N::n() && ret.end() == self_.end(), /*OB:unflatten_ref.post.same-extent-rows-of-N:C11*/
    {
        {
            ({ proof { vstd::arithmetic::div_mod::lemma_fundamental_div_mod(NM::n() as int, N::n() as int); assert((NM::n() / N::n()) * N::n() == N::n() * (NM::n() / N::n())) by (nonlinear_arith); } self_.retype_ref(NM::usize_() / N::usize_(), N::usize_()) })
        }
    }
    proof fn reach_unflatten_ref<NM: ArrayLength, N: ArrayLength>(self_: Sl) requires self_.len == 1, self_.stride == NM::n(), self_.valid(), N::n() > 0, NM::n() % N::n() == 0, { assert(false); } /*OB:canary.unflatten_ref:*/

    // extracted from src/sequence.rs:631  `fn flatten(self) -> Self::Output`
    pub fn flatten_mut<N: ArrayLength, M: ArrayLength>(self_: Sl) -> (ret: Sl)
        requires
            self_.len == M::n(),
            self_.stride == N::n(),
            self_.valid(),
        ensures
            ret.base == self_.base && ret.off == self_.off, /*OB:flatten_mut.post.same-address:C11*/
            ret.len == 1 && ret.stride == N::n() * M::n() && ret.end() == self_.end(), /*OB:flatten_mut.post.same-extent-N-times-M-elements:C11*/
    {
        {
            ({ assert(N::n() * M::n() == M::n() * N::n()) by (nonlinear_arith); self_.retype_ref(1, N::usize_() * M::usize_()) })
        }
    }
    proof fn reach_flatten_mut<N: ArrayLength, M: ArrayLength>(self_: Sl) requires self_.len == M::n(), self_.stride == N::n(), self_.valid(), { assert(false); } /*OB:canary.flatten_mut:*/

    // extracted from src/sequence.rs:673  `fn unflatten(self) -> Self::Output`
    pub fn unflatten_mut<NM: ArrayLength, N: ArrayLength>(self_: Sl) -> (ret: Sl)
        requires
            self_.len == 1,
            self_.stride == NM::n(),
            self_.valid(),
            N::n() > 0,
            NM::n() % N::n() == 0,
        ensures
            ret.base == self_.base && ret.off == self_.off, /*OB:unflatten_mut.post.same-address:C11*/
            ret.len == NM::n() / N::n() && ret.stride == N::n() && ret.end() == self_.end(), /*OB:unflatten_mut.post.same-extent-rows-of-N:C11*/
    {
        {
            ({ proof { vstd::arithmetic::div_mod::lemma_fundamental_div_mod(NM::n() as int, N::n() as int); assert((NM::n() / N::n()) * N::n() == N::n() * (NM::n() / N::n())) by (nonlinear_arith); } self_.retype_ref(NM::usize_() / N::usize_(), N::usize_()) })
        }
    }
    proof fn reach_unflatten_mut<NM: ArrayLength, N: ArrayLength>(self_: Sl) requires self_.len == 1, self_.stride == NM::n(), self_.valid(), N::n() > 0, NM::n() % N::n() == 0, { assert(false); } /*OB:canary.unflatten_mut:*/

proof fn canary() { assert(false); } /*OB:canary:*/
} // verus!
fn main() {}


#!/usr/bin/env python3
"""Copy confirmed round-2 sub-agent changes from /tmp/mut2/<P>/_mut into seeded/<P>-r2m<k>/ (patch.diff, demo.rs, notes.md, meta.json)."""
import json, os, re, shutil, glob
BASE = os.environ.get('MUT_BASE', '/tmp/mut2')
LABEL = os.environ.get('MUT_LABEL', 'r2')
ROUND = int(os.environ.get('MUT_ROUND', '2'))
conf = json.load(open(os.environ.get('MUT_OUT', '/var/tmp/mutres/confirm2.json')))
n = 0
for P in sorted(os.path.basename(d) for d in glob.glob(BASE + '/C??')):
    for k in (1, 2, 3):
        src = BASE + '/%s/_mut' % P
        c = conf.get('%s/m%d' % (P, k))
        if not c or not os.path.exists('%s/m%d.diff' % (src, k)):
            continue
        ok = c.get('applies') and c.get('suite_passes_with_change') and c.get('demo_fails_with_change') and c.get('demo_passes_without')
        sid = '%s-%sm%d' % (P, LABEL, k)
        if not ok:
            print('NOT CONFIRMED, skipped:', sid, c)
            continue
        d = '/verif/seeded/' + sid
        os.makedirs(d, exist_ok=True)
        shutil.copy('%s/m%d.diff' % (src, k), d + '/patch.diff')
        shutil.copy('%s/m%d_demo.rs' % (src, k), d + '/demo.rs')
        notes = open('%s/m%d_notes.md' % (src, k)).read()
        open(d + '/notes.md', 'w').write(notes)
        first = [l.strip('#* -') for l in notes.splitlines() if l.strip()]
        diff = open(d + '/patch.diff').read()
        files = sorted(set(re.findall(r'^\+\+\+ b/(\S+)', diff, re.M)))
        meta = {'property': P, 'round': ROUND,
                'origin': 'sub-agent given only the text of the property and a scratch worktree (%s/%s, removed afterwards); %s' % (BASE, P, 'asked for corners a verification effort might overlook' if ROUND == 2 else 'asked for small edits away from the obvious entry point (sibling impls, feature-gated paths, boundary branches)' if ROUND == 6 else 'asked for changes that need two cooperating sites or a multi-step history of calls'),
                'files_changed': files, 'summary': ' '.join(first[:2])[:300], 'needs_to_manifest': 'see notes.md (written by the sub-agent)',
                'confirmed_by_me': {'how': 'tools/confirm_mutants.py in the scratch worktree: git apply; cargo test --workspace --offline; copy demo into tests/ and run it; git checkout -- src; run the demo again',
                                    'suite_passes_with_change': True, 'demo_fails_with_change': True, 'demo_passes_without': True, 'demo_cmd': c.get('demo_cmd'),
                                    'base_commit': '4b4d64b (/repo HEAD with the three fix: commits)'},
                'also_run': []}
        json.dump(meta, open(d + '/meta.json', 'w'), indent=1)
        n += 1
print('imported', n)

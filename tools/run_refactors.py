#!/usr/bin/env python3
"""tools/run_refactors.py <base-dir> [--fast]
Behaviour-preserving refactorings written by sub-agents (<base>/<area>/_ref/r<k>.diff): apply each to a scratch copy of
/repo and run the checks of the properties its area touches.  None may answer exit 1 (a false alarm); exit 2 is a lost
decision (the rewrite table / harness anchors do not read the new text) and is listed.  --fast: engine V + stand-in only."""
import os, subprocess, shutil, sys, time, json
HERE = os.path.dirname(os.path.dirname(os.path.abspath(__file__)))
AREA_PROPS = {
    'A_iter': ['C06', 'C05', 'C04', 'C03'],
    'B_views': ['C02', 'C10', 'C18', 'C11', 'C20', 'C01'],
    'C_build': ['C07', 'C08', 'C04', 'C03', 'C17'],
    'D_seq': ['C09', 'C11', 'C08', 'C03'],
    'E_impls': ['C13', 'C14', 'C08', 'C02'],
    'F_alloc': ['C15', 'C16', 'C20', 'C07', 'C08'],
    'G_feat': ['C17', 'C19'],
}
base = os.path.abspath(sys.argv[1])
fast = '--fast' in sys.argv
only = [a for a in sys.argv[2:] if not a.startswith('--')]
out = []
for area in sorted(AREA_PROPS):
    d = os.path.join(base, area, '_ref')
    if not os.path.isdir(d):
        continue
    for f in sorted(os.listdir(d)):
        if not f.endswith('.diff'):
            continue
        name = '%s/%s' % (area, f[:-5])
        if only and not any(o in name for o in only):
            continue
        repo = '/var/tmp/ga-refac.%s.%s.%d' % (area, f[:-5], os.getpid())
        shutil.rmtree(repo, ignore_errors=True)
        subprocess.run(['rsync', '-a', '--exclude', '/target', '--exclude', '/.git', '/repo/', repo + '/'], check=True)
        try:
            r = subprocess.run(['patch', '-p1', '-s', '-i', os.path.join(d, f)], cwd=repo, capture_output=True, text=True)
            if r.returncode:
                print('%s: patch does not apply' % name, flush=True)
                continue
            for p in AREA_PROPS[area]:
                env = dict(os.environ, VERIF_REPO=repo, VERIF_NO_EVIDENCE='1')
                if fast:
                    env['VERIF_ONLY'] = 'zzz'
                t0 = time.time()
                r = subprocess.run([os.path.join(HERE, 'check'), p, '--tier', 'quick'], capture_output=True, text=True, cwd=HERE, env=env)
                lines = [l for l in r.stdout.splitlines() if l.startswith(('VIOLATION', 'UNDECIDED', 'PARTIAL', '  failed'))]
                row = {'refactoring': name, 'property': p, 'exit': r.returncode, 'engines': 'V+S' if fast else 'K+V+S', 'wall_s': round(time.time() - t0), 'lines': [l[:260] for l in lines[:4]]}
                out.append(row)
                print('%s %s exit=%d %s' % (name, p, r.returncode, (lines[0][:230] if lines else '')), flush=True)
        finally:
            shutil.rmtree(repo, ignore_errors=True)
json.dump(out, open('/var/tmp/mutres/refactors_%s.json' % ('fast' if fast else 'full'), 'w'), indent=1)

#!/usr/bin/env python3
"""Regenerates /verif/MANIFEST.json from the table below (kept in one place so the claims stay consistent)."""
import json, os
HERE = os.path.dirname(os.path.dirname(os.path.abspath(__file__)))
TECH_K = 'contract-based deductive verification: function contracts (kani::requires/ensures + proof_for_contract) and Hoare-triple contract harnesses discharged by Kani/CBMC on the real source tree'
TECH_V = 'contract-based deductive verification: requires/ensures/invariants on mechanically extracted functions discharged by Verus/Z3 for all N, plus Kani/CBMC function contracts on the real tree per instantiation'
NOTE_K = ('engine K: proved per instantiation (concrete element type and type-level length from the lattice in DESIGN.md §3) for all values of the symbolic inputs; '
          'trusted: Kani/CBMC memory model (no Stacked Borrows, heap alignment untracked), panic=abort (unwind obligations checked as state assertions at the foreign call sites), typenum, rustc; ')
C = {
 'C01': ('size/align of GenericArray<T,N> equal [T;N] for 16 element layouts x ~100 lengths up to 2^60 (ZST up to 10^19), element offset i*size_of<T> with symbolic i, const_transmute panics iff sizes differ', ''),
 'C02': ('attribute contracts (as_slice, from_slice, try_from_slice) + Hoare triples for every view/reinterpretation: address, length, panics-iff / Err-iff length != N over symbolic sub-slices, write-through across all mutable views, all 12 tuple impls', ''),
 'C03': ('drop-ledger contracts (every element dropped exactly once, never observed after drop) for each ownership-moving operation from arbitrary states; histories follow by induction because each contract maps fully-live inputs to fully-live outputs', ''),
 'C04': ('unwind-point obligations at every closure / Clone / Iterator::next call site: guard positions (published by injected monitor registrations) equal the number of elements handed out / stored; Drop of each guard at every position', 'unwinding itself is not executed: the obligation is the state a landing pad would see plus the separately verified Drop contracts; '),
 'C05': ('destructor-monitor obligation at every element destructor run inside nth/nth_back/count/last/drop from arbitrary iterator states: the slot being dropped is already outside [index, index_back)', 'unwinding itself is not executed; '),
 'C06': ('deque-semantics contracts for every iterator method from an ARBITRARY state satisfying the representation invariant (so all interleavings follow by induction), symbolic contents and arguments over the whole usize range', ''),
 'C07': ('try_from_iter/from_iter/boxed forms against a fully symbolic scripted source (any yield pattern incl. non-fused, any size_hint): Ok iff exactly N items and hint does not rule N out, <= N+1 polls, no poll after None, every pulled item dropped once, collect panics iff Err', ''),
 'C08': ('call-log contracts: generate/map/zip (9 stack forms + boxed)/fold/Clone/Default call the function once per index in ascending order and store result i at index i, for element types with and without drop glue', ''),
 'C09': ('index-formula contracts for append/prepend/pop/split/concat/remove/swap_remove (symbolic contents and indices, panics for every idx >= N), by-reference split aliases the two adjacent sub-ranges', ''),
 'C10': ('attribute contracts on chunks_from_slice / slice_from_chunks + Hoare triples for the mutable and native-array forms: floor(L/N) chunks + L mod N remainder covering the source exactly, same memory; N = 0 cases', ''),
 'C11': ('flatten/unflatten: element (i,j) <-> i*N+j for symbolic contents/indices, same address and extent for & and &mut forms with write-through, ledger for owned forms', ''),
 'C13': ('==, partial_cmp, cmp, lt/le/gt/ge equal the slice results for symbolic u8/i32/f64 (NaN included, also an array compared with itself); recorded Hasher stream equals the slice\'s; Debug output equals the slice\'s under width/precision/sign flags', '{:#?} (alternate) is not covered: CBMC does not terminate on core::fmt\'s PadAdapter; '),
 'C14': ('{:x}/{:X}/{:.*x} through the real core::fmt into a byte sink for symbolic bytes and precision: exactly min(p,2N) characters, character k is the digit of nibble k; with feature faster-hex the dependency is replaced by its assumed contract whose precondition is asserted', 'N > 1024 (chunked strategy) is not reachable with Kani; faster_hex is an assumed contract; '),
 'C15': ('TryFrom<Vec>/Box<[T]>, try_from_vec, try_from_boxed_slice, into_vec, into_boxed_slice, From, Box IntoIterator/FromIterator, default_boxed, boxed generate: Ok iff len == N, contents in order, block identity for the O(1) conversions, source dropped once on Err, no leak', 'the "far larger than the stack" clause is a resource bound no contract can state: covered only by the bounded stand-in; source lengths are concrete {0,N-1,N,N+1}; '),
 'C16': ('allocator as contracted dependency: every request has size > 0, every block freed once with the size it was requested with (Kani\'s __rust_alloc/__rust_dealloc contracts), CBMC memory-leak check at the end of every alloc harness, allocation failure injected by a contracted stub must end in handle_alloc_error without touching the block', 'heap alignment is not tracked by CBMC; leak on a PANIC path is not observable under panic=abort; '),
 'C17': ('serialize against a recording Serializer (serialize_tuple(N), N elements in order, end, nothing else); deserialize/visit_seq against a scripted Deserializer/SeqAccess with symbolic count, three symbolic size hints and error position: verdict, element order, every read element dropped once, no partial array', 'JSON/bincode round trips are the composition with the formats\' own tuple encoding (external, assumed); '),
 'C18': ('reduced claim: every const fn is free of pointer UB for all symbolic inputs per instantiation (the C02/C10/C01 contracts) and a generated family of const items is accepted by rustc\'s const evaluator and equals the same calls executed at run time under Kani', 'the const-item family is an enumeration (bounded), CTFE == run-time MIR semantics assumed; '),
 'C19': ('after zeroize() element i (symbolic i, symbolic prior contents) is zero for N in 0..=16 + 256/257 (thorough up to 1024) and five element types; const_default / DEFAULT (const item) / Default::default agree element-wise incl. nested arrays', 'zeroize::optimization_barrier (inline asm) stubbed as a no-op; '),
 'C20': ('enumerated macro invocations (counts 0..8,12,33,64; thorough to 256) with side-effecting element expressions: length type, values in order, each expression evaluated once; repeat forms up to 300 (thorough 512; a single 1024 harness needs 28 GB in CBMC - every N is in the Verus part), const position, trailing commas, empty list, non-Copy elements, box_arr! equal to arr!', 'rustc\'s macro matching and expansion are outside any contract language: engine K enumerates real invocations, engine V transcribes the arms mechanically (which arm matches, hygiene and the Const<k> table are not modelled) and proves the functions they call; '),
}
props = sorted(C)
m = {
 'version': 1,
 'setup_cmd': './setup.sh',
 'hooks': {'guard': 'kani',
           'enable': 'no hook is committed into /repo: every check copies /repo\'s working tree to a scratch directory and appends #[cfg(kani)] items there (harness child modules via #[path], monitor registrations in src/internal.rs and src/iter.rs, attribute contracts on inherent const fns; see kani/injections.py); cfg(kani) is only ever set by cargo kani',
           'baseline_off_cmd': 'cd /repo && cargo test --workspace --no-fail-fast --offline', 'source_commits': [], 'add_only': True},
 'engines': [
   {'name': 'K', 'path': 'lib/kani_engine.py', 'serves_properties': props, 'kind_free_text': 'Kani 0.68 / CBMC 6.11: function contracts and Hoare-triple contract harnesses on the real source tree (scratch copy + add-only cfg(kani) injections), per instantiation, all symbolic inputs'},
   {'name': 'V', 'path': 'lib/verus_engine.py', 'serves_properties': [], 'kind_free_text': 'Verus 0.2026.09.13: requires/ensures/invariants on functions extracted mechanically from /repo every run, N symbolic (all lengths)'},
 ],
 'checks': [],
 'not_applicable': [{'property_id': 'C12', 'reason': 'quantifies over programs with rustc\'s accept/reject verdict as oracle; no function contract or data-structure invariant can express "this program does not compile", and neither Kani nor Verus takes an ill-typed program as input (DESIGN.md §11)'}],
 'notes': 'exit 0 = all obligations discharged; exit 1 + VIOLATION = an expected obligation refuted (counterexample replayed natively via cargo kani playback where CBMC gives one); exit 2 + UNDECIDED = tool limit / machinery problem / nothing decided, never an alarm; a tree whose text engine V cannot read (lost anchor, construct outside its rewrite table) while engine K decided its obligations is exit 0 with a PARTIAL line naming the all-N part left undecided. Fixed defects are recorded in known_findings.txt.',
}
STANDIN_NOTE = {
    **{p: 'BOUNDED STAND-IN (labelled bounded, never counted as proved): native panic injection at every call index / every panicking element for N <= 4 on the unwinding paths no verifier here can execute (standin/src/main.rs); ' for p in ('C04', 'C05', 'C09', 'C16')},
    'C15': 'BOUNDED STAND-IN (labelled bounded, never counted as proved): the boxed constructors and O(1) conversions build / convert a 4 MiB array on a 256 KiB-stack thread; native panic injection on unwinding paths for N <= 4 (standin/src/main.rs); ',
    'C14': 'BOUNDED STAND-IN (labelled bounded, never counted as proved): the chunked strategy (N > 1024, beyond CBMC) executed natively on the real code for N in {1024, 1025, 2047, 2048, 2049, 3000, 4096}, all / boundary precisions, without and with feature faster-hex (standin/src/main.rs); ',
    'C13': 'BOUNDED STAND-IN (labelled bounded, never counted as proved): Debug of the array versus its slice under {:#?} and ten other flag sets (PadAdapter does not terminate in CBMC), executed natively for six element types, N <= 5 (standin/src/main.rs); ',
    'C06': 'BOUNDED STAND-IN (labelled bounded, never counted as proved): Debug of the iterator under {:#?} and four other flag sets at every (front, back) position for N <= 5, executed natively (standin/src/main.rs); ',
    'C20': 'BOUNDED STAND-IN (labelled bounded, never counted as proved): a panic inside element expression k of the list forms (an unwinding path) and box_arr![x; N] with a Clone-not-Copy element and a panicking clone, executed natively with a drop ledger (standin/src/main.rs); ',
    **{p: 'BOUNDED STAND-IN (labelled bounded, never counted as proved): the ADDRESS of zero-extent views (zero-sized elements, N = 0) compared natively - CBMC does not model the address of a zero-sized place, so engine K guards those assertions (standin/src/main.rs); ' for p in ('C02', 'C10', 'C11')},
}
VERUS = json.load(open(os.path.join(HERE, 'verus', 'served.json'))) if os.path.exists(os.path.join(HERE, 'verus', 'served.json')) else {}
for p in props:
    text, extra = C[p]
    v = VERUS.get(p)
    m['checks'].append({
        'property_id': p, 'quick_cmd': './check %s --tier quick' % p, 'thorough_cmd': './check %s --tier thorough' % p,
        'evidence_file': '/verif/evidence/%s.json' % p, 'replay_cmd_template': './check %s --replay {path}' % p,
        'engine': 'V+K' if v else 'K',
        'level_claimed': {'category': 'proof', 'text': text + ((' ALL-N part (Verus): ' + v) if v else ''), 'design_ref': 'DESIGN.md §5 ' + p},
        'level_note': NOTE_K + extra + STANDIN_NOTE.get(p, '') + ('engine V: extractor rewrite rules and the external_body prelude are trusted (listed in the evidence).' if v else ''),
        'technique': TECH_V if v else TECH_K})
    if v:
        m['engines'][1]['serves_properties'].append(p)
json.dump(m, open(os.path.join(HERE, 'MANIFEST.json'), 'w'), indent=1)
print('manifest written:', len(m['checks']), 'checks')

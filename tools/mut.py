#!/usr/bin/env python3
"""tools/mut.py <patch.diff> <Cxx> [<Cyy> ...] [--tier t]
Apply a seeded change to a scratch COPY of /repo's working tree (so /repo itself is never touched and other checks can
run meanwhile), run the named checks against it (VERIF_REPO), print their verdicts, remove the copy."""
import subprocess, sys, os, shutil
args = sys.argv[1:]
tier = 'quick'
if '--tier' in args:
    i = args.index('--tier'); tier = args[i + 1]; del args[i:i + 2]
patch, props = os.path.abspath(args[0]), args[1:]
here = os.path.dirname(os.path.dirname(os.path.abspath(__file__)))
d = '/var/tmp/ga-mut.%d' % os.getpid()
shutil.rmtree(d, ignore_errors=True)
subprocess.run(['rsync', '-a', '--exclude', '/target', '--exclude', '/.git', '/repo/', d + '/'], check=True)
try:
    r = subprocess.run(['git', 'apply', '--unsafe-paths', '--directory', d, patch], cwd='/')
    if r.returncode:
        r = subprocess.run(['patch', '-p1', '-i', patch], cwd=d)
        if r.returncode:
            sys.exit('patch does not apply')
    env = dict(os.environ, VERIF_REPO=d, VERIF_NO_EVIDENCE='1')
    for p in props:
        r = subprocess.run([os.path.join(here, 'check'), p, '--tier', tier], capture_output=True, text=True, cwd=here, env=env)
        lines = [l for l in r.stdout.splitlines() if l.startswith(('VIOLATION', 'UNDECIDED', 'PARTIAL', 'OK', 'KNOWN', '  failed'))]
        print('%s %s exit=%d' % (os.path.relpath(patch, '/tmp/mut'), p, r.returncode), flush=True)
        for l in lines[:8]:
            print('   ', l[:260], flush=True)
finally:
    shutil.rmtree(d, ignore_errors=True)

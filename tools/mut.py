#!/usr/bin/env python3
"""tools/mut.py <patch.diff> <Cxx> [<Cyy> ...] [--tier t]: apply a seeded change to /repo, run the named checks,
print their verdicts, and ALWAYS undo the change (git -C /repo checkout -- .)."""
import subprocess, sys, os
args = sys.argv[1:]
tier = 'quick'
if '--tier' in args:
    i = args.index('--tier'); tier = args[i + 1]; del args[i:i + 2]
patch, props = args[0], args[1:]
here = os.path.dirname(os.path.dirname(os.path.abspath(__file__)))
st = subprocess.run(['git', '-C', '/repo', 'status', '--porcelain', '--untracked-files=no'], capture_output=True, text=True).stdout.strip()
if st:
    sys.exit('refusing: /repo has uncommitted changes:\n' + st)
r = subprocess.run(['git', '-C', '/repo', 'apply', os.path.abspath(patch)])
if r.returncode:
    sys.exit('patch does not apply')
try:
    for p in props:
        r = subprocess.run([os.path.join(here, 'check'), p, '--tier', tier], capture_output=True, text=True, cwd=here)
        lines = [l for l in r.stdout.splitlines() if l.startswith(('VIOLATION', 'UNDECIDED', 'OK', 'KNOWN', '  failed'))]
        print('%s exit=%d' % (p, r.returncode))
        for l in lines[:12]:
            print('   ', l[:300])
finally:
    subprocess.run(['git', '-C', '/repo', 'checkout', '--', '.'])

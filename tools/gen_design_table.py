#!/usr/bin/env python3
"""Regenerate the per-property "as built" table of DESIGN.md (between the markers <!-- ASBUILT:BEGIN --> / <!-- ASBUILT:END -->)
from the evidence files written by the last quick run of every check.  Nothing here is hand-maintained."""
import json, os, re
HERE = os.path.dirname(os.path.dirname(os.path.abspath(__file__)))
rows = []
tot = {'obl': 0, 'v': 0, 'k': 0}
for pid in ['C%02d' % i for i in range(1, 21)]:
    p = os.path.join(HERE, 'evidence', pid + '.json')
    if not os.path.exists(p):
        rows.append('| %s | not claimed (not_applicable in MANIFEST.json) | | | | | |' % pid)
        continue
    d = json.load(open(p))
    c = d['coverage']
    bb = c.get('by_backend', {})
    v, k = bb.get('verus', {}), bb.get('kani-cbmc', {})
    ex = c.get('extraction') or {}
    vfun = sum(len(u.get('functions', [])) for u in ex.values())
    units = ', '.join(sorted(ex))
    hs = c.get('kani_harnesses') or []
    nh = len(hs)
    st = c.get('bounded_standins') or []
    stand = '; '.join('%s cases' % s.get('cases_run') for s in st if s.get('cases_run')) or '-'
    solver = (v.get('solver_ms', 0) + k.get('solver_ms', 0)) / 1000.0
    rows.append('| %s | %s | %d / %d (%s) | %d / %d (%d harnesses) | %s | %.0f s / %.0f s | %d |' % (
        pid, d.get('tier'), v.get('discharged', 0), v.get('obligations', 0), ('units ' + units + ': %d functions' % vfun) if units else '-',
        k.get('discharged', 0), k.get('obligations', 0), nh, stand, solver, d.get('wall_s', 0), len(c.get('undecided') or [])))
    tot['obl'] += c.get('obligations', 0); tot['v'] += v.get('discharged', 0); tot['k'] += k.get('discharged', 0)
table = ('| property | tier | engine V: discharged / generated (all N) | engine K: discharged / generated (per instantiation) | bounded stand-in (not counted) | solver / wall | undecided |\n'
         '|---|---|---|---|---|---|---|\n' + '\n'.join(rows) +
         '\n\nTotals of the runs above: %d obligations, %d discharged by Verus/Z3, %d by Kani/CBMC.\n' % (tot['obl'], tot['v'], tot['k']))
dp = os.path.join(HERE, 'DESIGN.md')
s = open(dp).read()
a, b = '<!-- ASBUILT:BEGIN -->', '<!-- ASBUILT:END -->'
if a in s:
    s = s[:s.index(a) + len(a)] + '\n' + table + s[s.index(b):]
    open(dp, 'w').write(s)
    print('DESIGN.md table regenerated')
else:
    print(table)

#!/usr/bin/env python3
"""Confirm each sub-agent mutant in its own scratch worktree (/tmp/mut/<P>): with the change applied the existing suite
passes and the demonstration fails; without it the demonstration passes.  Writes /var/tmp/mutres/confirm.json."""
import subprocess, os, re, json, sys, glob
res = {}
BASE = os.environ.get('MUT_BASE', '/tmp/mut')
props = sys.argv[1:] or sorted(os.path.basename(d) for d in glob.glob(BASE + '/C??'))
def sh(cmd, cwd):
    p = subprocess.run(cmd, shell=True, cwd=cwd, capture_output=True, text=True)
    return p.returncode, (p.stdout + p.stderr)
for P in props:
    wt = BASE + '/' + P
    for k in (1, 2, 3):
        diff = '%s/_mut/m%d.diff' % (wt, k)
        demo = '%s/_mut/m%d_demo.rs' % (wt, k)
        if not (os.path.exists(diff) and os.path.exists(demo)):
            continue
        key = '%s/m%d' % (P, k)
        head = open(demo).read()[:1500]
        m = re.search(r'cargo test[^\n`]*--test m%d_demo[^\n`]*' % k, head)
        cmd = m.group(0).strip() if m else 'cargo test --offline --test m%d_demo' % k
        if '--offline' not in cmd:
            cmd = cmd.replace('cargo test', 'cargo test --offline')
        sh('git checkout -- src tests; rm -f tests/m?_demo.rs', wt)
        rc, out = sh('git apply --check %s' % diff, wt)
        if rc:
            res[key] = {'applies': False, 'note': out[-300:]}
            continue
        sh('git apply %s' % diff, wt)
        rc_suite, out_suite = sh('cargo test --workspace --offline 2>&1 | tail -40', wt)
        suite_ok = ('FAILED' not in out_suite and 'error' not in out_suite.lower().replace('lengtherror', '')) and 'test result: ok' in out_suite
        sh('cp %s tests/m%d_demo.rs' % (demo, k), wt)
        rc_with, out_with = sh(cmd + ' 2>&1 | tail -15', wt)
        fails_with = ('test result: FAILED' in out_with) or ('error' in out_with and 'test result: ok' not in out_with) or 'SIGABRT' in out_with or 'SIGILL' in out_with
        sh('git checkout -- src', wt)
        rc_wo, out_wo = sh(cmd + ' 2>&1 | tail -8', wt)
        passes_without = 'test result: ok' in out_wo and 'FAILED' not in out_wo
        sh('rm -f tests/m%d_demo.rs; git checkout -- src tests' % k, wt)
        res[key] = {'applies': True, 'suite_passes_with_change': suite_ok, 'demo_fails_with_change': fails_with, 'demo_passes_without': passes_without, 'demo_cmd': cmd,
                    'demo_tail_with_change': out_with[-400:]}
        print(key, res[key]['suite_passes_with_change'], fails_with, passes_without, flush=True)
        json.dump(res, open(os.environ.get('MUT_OUT', '/var/tmp/mutres/confirm.json'), 'w'), indent=1)

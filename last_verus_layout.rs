use vstd::prelude::*;
verus! {

// ===================== engine-V prelude: layout unit (TRUSTED) =====================
// The repr(C) layout algorithm as written in the Rust Reference ("Type layout", The C representation):
// fields in declaration order, each at the next offset that is a multiple of its alignment; the struct's alignment is the
// largest field alignment; its size is the end of the last field rounded up to the struct's alignment.
// `packed(k)` (k > 0) lowers every field alignment, and the struct alignment, to at most k.  repr(transparent) gives the
// layout of the single non-zero-sized field.  An array [T; n] has size n * size_of T and the alignment of T, also for n = 0.
pub struct Layout { pub size: nat, pub align: nat }

pub open spec fn round_up(x: nat, a: nat) -> nat
    recommends a > 0
{ if x % a == 0 { x } else { (x + a - x % a) as nat } }

pub open spec fn max(a: nat, b: nat) -> nat { if a >= b { a } else { b } }
pub open spec fn cap(a: nat, k: nat) -> nat { if k == 0 || a <= k { a } else { k } }

pub open spec fn phantom() -> Layout { Layout { size: 0, align: 1 } }      // PhantomData<T>
pub open spec fn native_array(n: nat, t: Layout) -> Layout { Layout { size: n * t.size, align: t.align } }

// every Rust type has align > 0 and a size that is a multiple of its alignment
pub open spec fn valid_elem(t: Layout) -> bool { t.align > 0 && t.size % t.align == 0 }

proof fn lemma_mul_mod(k: nat, s: nat, a: nat)
    requires a > 0, s % a == 0,
    ensures (k * s) % a == 0,
{
    vstd::arithmetic::div_mod::lemma_fundamental_div_mod(s as int, a as int);
    let q = s / a;
    assert(s == a * q);
    assert(k * s == a * (k * q)) by (nonlinear_arith) requires s == a * q;
    vstd::arithmetic::div_mod::lemma_mod_multiples_basic((k * q) as int, a as int);
    assert(a * (k * q) == (k * q) * a) by (nonlinear_arith);
}


// ===== generated from the definitions in src/lib.rs =====
// UTerm            => [T; 0]   (src/lib.rs:205)
// UInt<N, B0>      => GenericArrayImplEven ['C'] fields [('parent1', 'U'), ('parent2', 'U'), ('_marker', 'PhantomData<T>')]   (src/lib.rs:267)
// UInt<N, B1>      => GenericArrayImplOdd ['C'] fields [('parent1', 'U'), ('parent2', 'U'), ('data', 'T')]   (src/lib.rs:277)
// GenericArray     => ['transparent'] fields [('data', 'N::ArrayType<T>')]   (src/lib.rs:433)
pub open spec fn base(t: Layout) -> Layout { native_array(0, t) }
pub open spec fn even_all(t: Layout, u: Layout) -> (Layout, Seq<nat>) {
    let o0 = round_up(0, cap(u.align, 0));
    let c0 = o0 + u.size;
    let o1 = round_up(c0, cap(u.align, 0));
    let c1 = o1 + u.size;
    let o2 = round_up(c1, cap(phantom().align, 0));
    let c2 = o2 + phantom().size;
    let al = max(max(cap(u.align, 0), cap(u.align, 0)), cap(phantom().align, 0));
    (Layout { size: round_up(c2, al), align: al }, seq![o0, o1, o2])
}
pub open spec fn even(t: Layout, u: Layout) -> Layout { even_all(t, u).0 }
pub open spec fn even_off(t: Layout, u: Layout, k: nat) -> nat { even_all(t, u).1[k as int] }

pub open spec fn odd_all(t: Layout, u: Layout) -> (Layout, Seq<nat>) {
    let o0 = round_up(0, cap(u.align, 0));
    let c0 = o0 + u.size;
    let o1 = round_up(c0, cap(u.align, 0));
    let c1 = o1 + u.size;
    let o2 = round_up(c1, cap(t.align, 0));
    let c2 = o2 + t.size;
    let al = max(max(cap(u.align, 0), cap(u.align, 0)), cap(t.align, 0));
    (Layout { size: round_up(c2, al), align: al }, seq![o0, o1, o2])
}
pub open spec fn odd(t: Layout, u: Layout) -> Layout { odd_all(t, u).0 }
pub open spec fn odd_off(t: Layout, u: Layout, k: nat) -> nat { odd_all(t, u).1[k as int] }

pub open spec fn wrap(inner: Layout) -> Layout { inner }   // #[repr(transparent)] over the single field

pub open spec fn storage(n: nat, t: Layout) -> Layout
    decreases n
{
    if n == 0 { base(t) } else if n % 2 == 0 { even(t, storage(n / 2, t)) } else { odd(t, storage(n / 2, t)) }
}
pub open spec fn arr(n: nat, t: Layout) -> Layout { wrap(storage(n, t)) }

// number of T-typed leaves (C19: no slot skipped or counted twice)
pub open spec fn slots(n: nat) -> nat
    decreases n
{
    if n == 0 { 0 } else if n % 2 == 0 { slots(n / 2) + slots(n / 2) } else { slots(n / 2) + slots(n / 2) + 1 }
}

// byte offset of the i-th T-typed leaf, leaves counted in declaration order (first half, second half, own element)
pub open spec fn elem_off(n: nat, i: nat, t: Layout) -> nat
    recommends i < n
    decreases n
{
    if n == 0 { 0 } else {
        let h = n / 2;
        let u = storage(h, t);
        if i < h { (if n % 2 == 0 { even_off(t, u, 0) } else { odd_off(t, u, 0) }) + elem_off(h, i, t) }
        else if i < 2 * h { (if n % 2 == 0 { even_off(t, u, 1) } else { odd_off(t, u, 1) }) + elem_off(h, (i - h) as nat, t) }
        else { odd_off(t, u, 2) }
    }
}

// ===== obligations (induction on n) =====
proof fn lemma_layout(n: nat, t: Layout)
    requires valid_elem(t),
    ensures
        arr(n, t).size == n * t.size, /*OB:lemma_layout.size-is-N-times-size_of-T:C01,C11*/
        arr(n, t).align == t.align, /*OB:lemma_layout.align-is-align_of-T:C01,C11*/
        arr(n, t) == native_array(n, t), /*OB:lemma_layout.same-as-native-array:C01*/
        storage(n, t) == arr(n, t),
    decreases n
{
    if n == 0 {
    } else {
        let h = n / 2;
        lemma_layout(h, t);
        lemma_mul_mod(h, t.size, t.align);
        lemma_mul_mod(2 * h, t.size, t.align);
        lemma_mul_mod(2 * h + 1, t.size, t.align);
        assert(h * t.size + h * t.size == (2 * h) * t.size) by (nonlinear_arith);
        assert((2 * h) * t.size + t.size == (2 * h + 1) * t.size) by (nonlinear_arith);
        assert(0nat % t.align == 0);
        if n % 2 == 0 { assert(n == 2 * h); } else { assert(n == 2 * h + 1); }
    }
}

proof fn lemma_elem_off(n: nat, i: nat, t: Layout)
    requires valid_elem(t), i < n,
    ensures
        elem_off(n, i, t) == i * t.size, /*OB:lemma_elem_off.element-i-at-i-times-size:C01,C19*/
        elem_off(n, i, t) + t.size <= arr(n, t).size, /*OB:lemma_elem_off.element-inside-the-array:C01*/
    decreases n
{
    let h = n / 2;
    lemma_layout(h, t);
    lemma_layout(n, t);
    lemma_mul_mod(h, t.size, t.align);
    lemma_mul_mod(2 * h, t.size, t.align);
    assert(h * t.size + h * t.size == (2 * h) * t.size) by (nonlinear_arith);
    assert(0nat % t.align == 0);
    assert(i * t.size + t.size <= n * t.size) by (nonlinear_arith) requires i < n;
    if i < h {
        lemma_elem_off(h, i, t);
    } else if i < 2 * h {
        lemma_elem_off(h, (i - h) as nat, t);
        assert(h * t.size + (i - h) * t.size == i * t.size) by (nonlinear_arith) requires i >= h;
    } else {
        assert(i == 2 * h);
    }
}

proof fn lemma_slots(n: nat)
    ensures slots(n) == n, /*OB:lemma_slots.exactly-N-element-slots:C19,C01*/
    decreases n
{
    if n > 0 { lemma_slots(n / 2); }
}

// an array of arrays is itself a valid element (C11): M arrays of N elements occupy exactly the storage of N*M elements
proof fn lemma_nested(n: nat, m: nat, t: Layout)
    requires valid_elem(t),
    ensures
        valid_elem(arr(n, t)),
        arr(m, arr(n, t)).size == arr(n * m, t).size, /*OB:lemma_nested.flatten-same-extent:C11*/
        arr(m, arr(n, t)).align == arr(n * m, t).align, /*OB:lemma_nested.flatten-same-alignment:C11*/
{
    lemma_layout(n, t);
    lemma_mul_mod(n, t.size, t.align);
    lemma_layout(m, arr(n, t));
    lemma_layout(n * m, t);
    assert(m * (n * t.size) == (n * m) * t.size) by (nonlinear_arith);
}

// element (i, j) of the nested array is element i*N + j of the flat one (row-major), for the same storage
proof fn lemma_row_major(n: nat, m: nat, i: nat, j: nat, t: Layout)
    requires valid_elem(t), i < m, j < n,
    ensures
        i * n + j < n * m,
        elem_off(m, i, arr(n, t)) + elem_off(n, j, t) == elem_off(n * m, i * n + j, t), /*OB:lemma_row_major.element-ij-is-flat-element-iN+j:C11*/
{
    lemma_nested(n, m, t);
    assert(i * n + j < n * m) by (nonlinear_arith) requires i < m, j < n;
    lemma_elem_off(m, i, arr(n, t));
    lemma_elem_off(n, j, t);
    lemma_elem_off(n * m, i * n + j, t);
    lemma_layout(n, t);
    assert(i * (n * t.size) + j * t.size == (i * n + j) * t.size) by (nonlinear_arith);
}


// generated from src/impl_const_default.rs:6,14,22: number of leaves of storage(n) that are initialised with T::DEFAULT
//   even node: 2 halves initialised with U::DEFAULT, 0 elements with T::DEFAULT;  odd node: 2 halves, 1 elements
pub open spec fn default_leaves(n: nat) -> nat
    decreases n
{
    if n == 0 { 0 } else if n % 2 == 0 { 2 * default_leaves(n / 2) + 0 } else { 2 * default_leaves(n / 2) + 1 }
}
proof fn lemma_const_default(n: nat)
    ensures default_leaves(n) == slots(n) && default_leaves(n) == n, /*OB:lemma_const_default.every-one-of-the-N-slots-is-T-DEFAULT:C19*/
    decreases n
{
    lemma_slots(n);
    if n > 0 { lemma_const_default(n / 2); lemma_slots(n / 2); }
}


// src/impl_zeroize.rs:5  `fn zeroize(&mut self) { self.as_mut_slice().iter_mut().zeroize() }`
// as_mut_slice is the full view of N elements (proved in unit `views`); zeroize's own impl for IterMut zeroizes every item it
// yields (assumed contract of the dependency); so the elements reached are exactly the N slots:
proof fn lemma_zeroize_reaches_every_slot(n: nat)
    ensures slots(n) == n, /*OB:lemma_zeroize.the-full-mutable-slice-has-all-N-slots:C19*/
{ lemma_slots(n); }

proof fn lemma_flatten_impl_1(n: nat, m: nat, t: Layout) requires valid_elem(t), ensures arr(m, arr(n, t)).size == arr(n * m, t).size, /*OB:flatten_owned.output-length-gives-same-extent:C11*/
{ lemma_nested(n, m, t); assert(m * n == n * m) by (nonlinear_arith); }
proof fn lemma_flatten_impl_2(n: nat, m: nat, t: Layout) requires valid_elem(t), ensures arr(m, arr(n, t)).size == arr(n * m, t).size, /*OB:flatten_ref'a.output-length-gives-same-extent:C11*/
{ lemma_nested(n, m, t); assert(m * n == n * m) by (nonlinear_arith); }
proof fn lemma_flatten_impl_3(n: nat, m: nat, t: Layout) requires valid_elem(t), ensures arr(m, arr(n, t)).size == arr(n * m, t).size, /*OB:flatten_refmut.output-length-gives-same-extent:C11*/
{ lemma_nested(n, m, t); assert(m * n == n * m) by (nonlinear_arith); }
proof fn lemma_unflatten_impl_4(nm: nat, n: nat, t: Layout) requires valid_elem(t), n > 0, nm % n == 0, ensures arr(nm / n, arr(n, t)).size == arr(nm, t).size, /*OB:unflatten_owned.output-length-gives-same-extent:C11*/
{ lemma_nested(n, nm / n, t); vstd::arithmetic::div_mod::lemma_fundamental_div_mod(nm as int, n as int); assert(n * (nm / n) == nm); }
proof fn lemma_unflatten_impl_5(nm: nat, n: nat, t: Layout) requires valid_elem(t), n > 0, nm % n == 0, ensures arr(nm / n, arr(n, t)).size == arr(nm, t).size, /*OB:unflatten_ref'a.output-length-gives-same-extent:C11*/
{ lemma_nested(n, nm / n, t); vstd::arithmetic::div_mod::lemma_fundamental_div_mod(nm as int, n as int); assert(n * (nm / n) == nm); }
proof fn lemma_unflatten_impl_6(nm: nat, n: nat, t: Layout) requires valid_elem(t), n > 0, nm % n == 0, ensures arr(nm / n, arr(n, t)).size == arr(nm, t).size, /*OB:unflatten_refmut.output-length-gives-same-extent:C11*/
{ lemma_nested(n, nm / n, t); vstd::arithmetic::div_mod::lemma_fundamental_div_mod(nm as int, n as int); assert(n * (nm / n) == nm); }
pub uninterp spec fn unknown_len(a: nat, b: nat) -> nat;
proof fn canary() { assert(false); } /*OB:canary:*/
} // verus!
fn main() {}


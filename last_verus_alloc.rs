use vstd::prelude::*;
verus! {

// ===================== engine-V prelude: common (TRUSTED; the only place external_body may appear) =====================
// Type-level lengths: rule R-len maps `N::USIZE` to `N::usize_()`; `n()` is the mathematical length.
pub trait ArrayLength { spec fn n() -> usize; fn usize_() -> (r: usize) ensures r == Self::n(); }

pub open spec fn min_spec(a: usize, b: usize) -> usize { if a <= b { a } else { b } }
// core::cmp::min on usize (rule R-misc)
pub fn cmp_min(a: usize, b: usize) -> (r: usize) ensures r == min_spec(a, b) { if a <= b { a } else { b } }

// rule R-panic: a function that may panic returns PanicOr; `ret is Panic <==> ..` is then an ordinary postcondition
pub enum PanicOr<R> { Panic, Ret(R) }

// ===================== engine-V prelude: heap blocks (TRUSTED) =====================
// A heap block is identified by `id` and was requested with room for `elems` elements of T at T's alignment (by C01 a
// GenericArray<T, N> has exactly the layout of N elements of T).  Box::from_raw frees - eventually - with the layout of
// the pointee type it is given, so that layout must be the one the block was requested with (size AND alignment).
pub struct Block { pub id: int, pub elems: nat }
pub struct BoxArr { pub block: Block }                    // Box<GenericArray<T, N>>: block.elems == N
pub struct BoxSlice { pub block: Block, pub len: usize }  // Box<[T]>: block.elems == len
pub struct VecT { pub block: Block, pub len: usize, pub cap: usize }   // Vec<T>: block.elems == cap
pub struct RawPtr { pub block: Block }

impl BoxSlice {
    pub open spec fn wf(&self) -> bool { self.block.elems == self.len }
    pub fn len(&self) -> (r: usize) ensures r == self.len { self.len }
}
impl VecT {
    pub open spec fn wf(&self) -> bool { self.block.elems == self.cap && self.len <= self.cap }
    pub fn len(&self) -> (r: usize) ensures r == self.len { self.len }
    // Vec::into_boxed_slice (std, assumed contract): shrinks to fit - the same block when len == capacity
    #[verifier::external_body]
    pub fn into_boxed_slice(self) -> (r: BoxSlice)
        requires self.wf(),
        ensures r.wf(), r.len == self.len, self.len == self.cap ==> r.block == self.block,
    { unimplemented!() }
}
// Box::into_raw: the caller now owns the block
#[verifier::external_body]
pub fn box_arr_into_raw<N: ArrayLength>(b: BoxArr) -> (p: RawPtr) requires b.block.elems == N::n(), ensures p.block == b.block { unimplemented!() }
#[verifier::external_body]
pub fn box_slice_into_raw(b: BoxSlice) -> (p: RawPtr) requires b.wf(), ensures p.block == b.block { unimplemented!() }
// Box::from_raw(slice_from_raw_parts_mut(p as *mut T, len)): the new Box<[T]> will free `len` elements
#[verifier::external_body]
pub fn box_slice_from_raw(p: RawPtr, len: usize) -> (r: BoxSlice)
    requires p.block.elems == len,
    ensures r.block == p.block, r.len == len, r.wf(),
{ unimplemented!() }
// Box::from_raw(p as *mut GenericArray<T, N>): the new Box will free N elements
#[verifier::external_body]
pub fn box_arr_from_raw<N: ArrayLength>(p: RawPtr) -> (r: BoxArr)
    requires p.block.elems == N::n(),
    ensures r.block == p.block,
{ unimplemented!() }
// Vec::from(Box<[T]>) (std, assumed contract): same block, len == capacity
#[verifier::external_body]
pub fn vec_from_box_slice(b: BoxSlice) -> (v: VecT) requires b.wf(), ensures v.wf(), v.block == b.block, v.len == b.len, v.cap == b.len { unimplemented!() }
// dropping a Box<[T]> whose elements nobody else owns (the error path of the conversions)
pub fn drop_box_slice(b: BoxSlice) requires b.wf() {}

pub struct LengthError;


// ===== extracted: src/impl_alloc.rs =====

    // extracted from src/impl_alloc.rs:29  `fn into_boxed_slice(self: Box<GenericArray<T, N>>) -> Box<[T]>`
    pub fn into_boxed_slice<N: ArrayLength>(this: BoxArr) -> (r: BoxSlice)
        requires
            this.block.elems == N::n(),
        ensures
            r.block == this.block, /*OB:into_boxed_slice.post.same-block:C15*/
            r.len == N::n(), /*OB:into_boxed_slice.post.n-elements:C15*/
            r.wf(), /*OB:into_boxed_slice.post.frees-with-its-layout:C16*/
    {
        {
            box_slice_from_raw(box_arr_into_raw::<N>(this), N::usize_())
        }
    }
    proof fn reach_into_boxed_slice<N: ArrayLength>(this: BoxArr) requires this.block.elems == N::n(), { assert(false); } /*OB:canary.into_boxed_slice:*/

    // extracted from src/impl_alloc.rs:39  `fn into_vec(self: Box<GenericArray<T, N>>) -> Vec<T>`
    pub fn into_vec<N: ArrayLength>(this: BoxArr) -> (r: VecT)
        requires
            this.block.elems == N::n(),
        ensures
            r.block == this.block, /*OB:into_vec.post.same-block:C15*/
            r.len == N::n() && r.cap == N::n(), /*OB:into_vec.post.n-elements:C15*/
            r.wf(), /*OB:into_vec.post.frees-with-its-layout:C16*/
    {
        vec_from_box_slice(into_boxed_slice::<N>(this))
    }
    proof fn reach_into_vec<N: ArrayLength>(this: BoxArr) requires this.block.elems == N::n(), { assert(false); } /*OB:canary.into_vec:*/

    // extracted from src/impl_alloc.rs:43  `fn try_from_boxed_slice(slice: Box<[T]>) -> Result<Box<GenericArray<T, N>>, LengthError>`
    pub fn try_from_boxed_slice<N: ArrayLength>(slice: BoxSlice) -> (r: Result<BoxArr, LengthError>)
        requires
            slice.wf(),
        ensures
            r is Ok <==> slice.len == N::n(), /*OB:try_from_boxed_slice.post.ok-iff-length-N:C15*/
            r is Ok ==> r->Ok_0.block == slice.block, /*OB:try_from_boxed_slice.post.same-block:C15*/
            r is Ok ==> r->Ok_0.block.elems == N::n(), /*OB:try_from_boxed_slice.post.frees-with-its-layout:C16*/
    {
        if slice.len() != N::usize_() {
            {
                drop_box_slice(slice);
                return Err(LengthError);
            }
        }
        Ok({ box_arr_from_raw::<N>(box_slice_into_raw(slice)) })
    }
    proof fn reach_try_from_boxed_slice<N: ArrayLength>(slice: BoxSlice) requires slice.wf(), { assert(false); } /*OB:canary.try_from_boxed_slice:*/

    // extracted from src/impl_alloc.rs:51  `fn try_from_vec(vec: Vec<T>) -> Result<Box<GenericArray<T, N>>, LengthError>`
    pub fn try_from_vec<N: ArrayLength>(vec: VecT) -> (r: Result<BoxArr, LengthError>)
        requires
            vec.wf(),
        ensures
            r is Ok <==> vec.len == N::n(), /*OB:try_from_vec.post.ok-iff-length-N:C15*/
            r is Ok && vec.len == vec.cap ==> r->Ok_0.block == vec.block, /*OB:try_from_vec.post.same-block-when-len-eq-cap:C15*/
            r is Ok ==> r->Ok_0.block.elems == N::n(), /*OB:try_from_vec.post.frees-with-its-layout:C16*/
    {
        try_from_boxed_slice::<N>(vec.into_boxed_slice())
    }
    proof fn reach_try_from_vec<N: ArrayLength>(vec: VecT) requires vec.wf(), { assert(false); } /*OB:canary.try_from_vec:*/

proof fn canary() { assert(false); } /*OB:canary:*/
} // verus!
fn main() {}


use vstd::prelude::*;
verus! {

// ===================== engine-V prelude: common (TRUSTED; the only place external_body may appear) =====================
// Type-level lengths: rule R-len maps `N::USIZE` to `N::usize_()`; `n()` is the mathematical length.
pub trait ArrayLength { spec fn n() -> usize; fn usize_() -> (r: usize) ensures r == Self::n(); }

pub open spec fn min_spec(a: usize, b: usize) -> usize { if a <= b { a } else { b } }
// core::cmp::min on usize (rule R-misc)
pub fn cmp_min(a: usize, b: usize) -> (r: usize) ensures r == min_spec(a, b) { if a <= b { a } else { b } }

// rule R-panic: a function that may panic returns PanicOr; `ret is Panic <==> ..` is then an ordinary postcondition
pub enum PanicOr<R> { Panic, Ret(R) }

// ===================== engine-V prelude: slot ledger (TRUSTED) =====================
// Rule R-slots: a field or local of type GenericArray<T,N> / ManuallyDrop<..> / GenericArray<MaybeUninit<T>,N> becomes
// `Slots<T,N>`, whose view is Seq<Option<T>>: Some(v) = slot initialised and owned here, None = uninitialised / moved out /
// dropped.  "At most once" is a PRECONDITION of every primitive; "at least once" is the forget / function-exit obligation.
#[verifier::external_body]
#[verifier::accept_recursive_types(T)]
#[verifier::accept_recursive_types(N)]
pub struct Slots<T, N> { _p: core::marker::PhantomData<(T, N)> }

// a borrowed sub-slice of a Slots block: (lo, hi) element range; produced by rule R-view
pub struct SliceRange { pub lo: usize, pub hi: usize }

impl<T, N: ArrayLength> Slots<T, N> {
    pub uninterp spec fn view(&self) -> Seq<Option<T>>;

    pub open spec fn ok(&self) -> bool { self.view().len() == N::n() }
    pub open spec fn live(&self, k: int) -> bool { self.view()[k].is_some() }
    pub open spec fn all_dead(&self) -> bool { forall|k: int| 0 <= k < N::n() ==> (#[trigger] self.view()[k]).is_none() }
    pub open spec fn all_live(&self) -> bool { forall|k: int| 0 <= k < N::n() ==> (#[trigger] self.view()[k]).is_some() }
    pub open spec fn live_in(&self, lo: int, hi: int) -> bool { forall|k: int| lo <= k < hi ==> (#[trigger] self.view()[k]).is_some() }

    // R-read: ptr::read(X.get_unchecked(i)) - moves the value out of slot i
    #[verifier::external_body]
    pub fn take(&mut self, i: usize) -> (r: T)
        requires old(self).ok(), i < N::n(), old(self).live(i as int),
        ensures final(self).view() == old(self).view().update(i as int, None), r == old(self).view()[i as int].unwrap(),
    { unimplemented!() }

    // R-write: ptr::write(dst, v) / dst.write(v) - slot must not hold an owned value (it would be overwritten without drop)
    #[verifier::external_body]
    pub fn put(&mut self, i: usize, v: T)
        requires old(self).ok(), i < N::n(), !old(self).live(i as int),
        ensures final(self).view() == old(self).view().update(i as int, Some(v)),
    { unimplemented!() }

    // shared read of slot i
    #[verifier::external_body]
    pub fn peek(&self, i: usize) -> (r: &T)
        requires self.ok(), i < N::n(), self.live(i as int),
        ensures *r == self.view()[i as int].unwrap(),
    { unimplemented!() }

    // R-dip: ptr::drop_in_place(X.get_unchecked_mut(lo..hi)) - runs the destructors of slots [lo, hi)
    #[verifier::external_body]
    pub fn drop_range(&mut self, lo: usize, hi: usize)
        requires old(self).ok(), lo <= hi <= N::n(), old(self).live_in(lo as int, hi as int),
        ensures final(self).ok(),
                forall|k: int| 0 <= k < N::n() ==> #[trigger] final(self).view()[k] == (if lo <= k < hi { None } else { old(self).view()[k] }),
    { unimplemented!() }

    // R-view: X.get_unchecked(lo..hi) / get_unchecked_mut(lo..hi): the range must lie inside the block and be initialised
    #[verifier::external_body]
    pub fn range(&self, lo: usize, hi: usize) -> (r: SliceRange)
        requires self.ok(), lo <= hi <= N::n(), self.live_in(lo as int, hi as int),
        ensures r.lo == lo, r.hi == hi,
    { unimplemented!() }

    // ptr::read(&self.array) of a ManuallyDrop array: bitwise copy whose slots are owned by nobody yet
    #[verifier::external_body]
    pub fn bitcopy_dead(&self) -> (r: Self)
        requires self.ok(),
        ensures r.ok(), r.all_dead(),
    { unimplemented!() }

    // R-forget: mem::forget of the owner - a leak unless nothing is live
    #[verifier::external_body]
    pub fn forget(self)
        requires self.ok(), self.all_dead(),
    { unimplemented!() }
}

// ===================== engine-V prelude: construction (TRUSTED) =====================
impl<T, N: ArrayLength> Slots<T, N> {
    // GenericArray::uninit(): a block of N uninitialised slots
    #[verifier::external_body]
    pub fn uninit() -> (r: Self) ensures r.ok(), r.all_dead() { unimplemented!() }

    // a MaybeUninit array going out of scope is not dropped: anything still live in it is leaked
    pub fn scope_exit_unowned(&self) requires self.ok(), self.all_dead() {}
}

// the finished array: a fully live block
pub struct GenericArray<T, N: ArrayLength> { pub slots: Slots<T, N> }
impl<T, N: ArrayLength> GenericArray<T, N> {
    pub open spec fn elems(&self) -> Seq<T> { Seq::new(N::n() as nat, |k: int| self.slots.view()[k].unwrap()) }
}
// ptr::read(&array as *const _ as *const MaybeUninit<GenericArray<T, N>>).assume_init(): UB unless every slot is initialised
#[verifier::external_body]
pub fn assume_init_read<T, N: ArrayLength>(array: Slots<T, N>) -> (r: GenericArray<T, N>)
    requires array.ok(), array.all_live(),
    ensures r.slots == array,
{ unimplemented!() }

// Box::<GenericArray<MaybeUninit<T>, N>>::new_uninit().assume_init(): std allocates (or ends in handle_alloc_error - assumed
// contract of Box::new_uninit) and the Box owns the block; for the slot ledger a boxed block is a block (rule R-box)
#[verifier::external_body]
pub fn box_new_uninit<T, N: ArrayLength>() -> (r: Slots<T, N>) ensures r.ok(), r.all_dead() { unimplemented!() }
// Box::from_raw(Box::into_raw(array).cast()): reinterprets Box<[MaybeUninit<T>; N]> as Box<[T; N]> - UB unless all initialised
#[verifier::external_body]
pub fn box_assume_init<T, N: ArrayLength>(array: Slots<T, N>) -> (r: GenericArray<T, N>)
    requires array.ok(), array.all_live(),
    ensures r.slots == array,
{ unimplemented!() }

pub struct LengthError;

// caller-supplied iterator (rule R-foreign): opaque; its ghost state is everything it has returned so far, so sources
// that are not fused, and every item count, are covered by quantification
pub trait ForeignIter<T> {
    spec fn returned(&self) -> Seq<Option<T>>;
    spec fn hint(&self) -> (usize, Option<usize>);
    // whatever the iterator's owner needs preserved across polls, and ghost data that stays fixed (used by the closure
    // conversion of lazy adapter pipelines, rule R-pipe; an opaque caller-supplied iterator may choose `true` / `()`)
    spec fn inv(&self) -> bool;
    type K;
    spec fn konst(&self) -> Self::K;
    fn next(&mut self) -> (r: Option<T>)
        requires old(self).inv(),
        ensures final(self).inv(), final(self).konst() == old(self).konst(), final(self).returned() == old(self).returned().push(r);
    fn size_hint(&self) -> (r: (usize, Option<usize>)) requires self.inv(), ensures r == self.hint();
}
pub open spec fn polled_after_none<T>(s: Seq<Option<T>>) -> bool {
    exists|i: int| 0 <= i < s.len() - 1 && (#[trigger] s[i]).is_none()
}

// ===================== engine-V prelude: serde protocol objects (TRUSTED) =====================
// The serializer / sequence source are caller-supplied code (rule R-foreign): arbitrary results, every call logged.
pub enum SerEv<T> { Tuple(usize), Elem(T), End }
pub struct SerErr;
pub trait ForeignSerializer<T>: Sized {
    type Tup: ForeignTuple<T>;
    spec fn log(&self) -> Seq<SerEv<T>>;
    // serializer.serialize_tuple(len): consumes the serializer; on Ok the tuple serializer carries the log on
    fn serialize_tuple(self, len: usize) -> (r: Result<Self::Tup, SerErr>)
        ensures r is Ok ==> r->Ok_0.log() == self.log().push(SerEv::Tuple(len));
}
pub trait ForeignTuple<T>: Sized {
    spec fn log(&self) -> Seq<SerEv<T>>;
    fn serialize_element(&mut self, value: &T) -> (r: Result<(), SerErr>)
        ensures final(self).log() == old(self).log().push(SerEv::Elem(*value));
    fn end(self) -> (r: Result<Seq<SerEv<T>>, SerErr>)
        ensures r is Ok ==> r->Ok_0 == self.log().push(SerEv::End);
}

// a sequence source (serde::de::SeqAccess): every next_element result and every size hint is arbitrary
pub struct DeErr;
pub trait ForeignSeq<T> {
    spec fn results(&self) -> Seq<Result<Option<T>, ()>>;       // everything next_element has answered so far (elements read as T)
    spec fn probe_results(&self) -> Seq<Result<Option<()>, ()>>; // answers to next_element::<Dummy>() (the value is discarded)
    spec fn hint(&self) -> Option<usize>;                        // what size_hint() answers in the current state (arbitrary, may lie)
    fn next_element(&mut self) -> (r: Result<Option<T>, DeErr>)
        ensures final(self).probe_results() == old(self).probe_results(),
            final(self).results() == old(self).results().push(match r { Ok(v) => Ok(v), Err(_) => Err(()) });
    // seq.next_element::<Dummy>(): asks only whether another element exists
    fn next_element_dummy(&mut self) -> (r: Result<Option<()>, DeErr>)
        ensures final(self).results() == old(self).results(),
            final(self).probe_results() == old(self).probe_results().push(match r { Ok(v) => Ok(v), Err(_) => Err(()) });
    fn size_hint(&self) -> (r: Option<usize>) ensures r == self.hint();
}
// de::Error::invalid_length(n, &self)
#[verifier::external_body]
pub fn invalid_length(n: usize) -> (e: DeErr) { unimplemented!() }


// the builder of src/internal.rs (its own contracts are proved in unit `tfi`); here only what visit_seq uses
pub struct IntrusiveArrayBuilder<T, N: ArrayLength> { pub array: Slots<T, N>, pub position: usize }
impl<T, N: ArrayLength> IntrusiveArrayBuilder<T, N> {
    pub open spec fn wf(&self) -> bool {
        &&& self.position <= N::n()
        &&& self.array.ok()
        &&& forall|k: int| 0 <= k < N::n() ==> ((#[trigger] self.array.view()[k]).is_some() <==> k < self.position)
    }
    pub open spec fn built(&self) -> Seq<T> { Seq::new(self.position as nat, |k: int| self.array.view()[k].unwrap()) }
    // contracts proved in unit `tfi` (same names, same text)
    #[verifier::external_body]
    pub fn new(array: Slots<T, N>) -> (r: Self) requires array.ok(), array.all_dead(), ensures r.wf() && r.position == 0 { unimplemented!() }
    #[verifier::external_body]
    pub fn finish(self) -> (r: Slots<T, N>) requires self.wf(), self.position == N::n(), ensures r == self.array { unimplemented!() }
    #[verifier::external_body]
    pub fn drop_impl(&mut self) requires old(self).wf(), ensures final(self).array.ok() && final(self).array.all_dead() { unimplemented!() }
}
#[verifier::external_body]
pub fn array_assume_init<T, N: ArrayLength>(array: Slots<T, N>) -> (r: GenericArray<T, N>) requires array.ok(), array.all_live(), ensures r.slots == array { unimplemented!() }

// ===== extracted: src/impl_serde.rs =====

    // extracted from src/impl_serde.rs:15  `fn serialize<S>(&self, serializer: S) -> Result<S::Ok, S::Error> where S: Serializer,`
    pub fn serialize<T, N: ArrayLength, S: ForeignSerializer<T>>(self_: &Slots<T, N>, serializer: S) -> (ret: Result<Seq<SerEv<T>>, SerErr>)
        requires
            self_.ok(),
            self_.all_live(),
            serializer.log().len() == 0,
        ensures
            ret is Ok ==> ret->Ok_0.len() == N::n() + 2 && ret->Ok_0[0] == SerEv::<T>::Tuple(N::n()) && ret->Ok_0[N::n() + 1] == SerEv::<T>::End && forall|j: int| 0 <= j < N::n() ==> (#[trigger] ret->Ok_0[1 + j]) == SerEv::Elem(self_.view()[j].unwrap()), /*OB:serialize.post.tuple-of-N-elements-in-order-then-end:C17*/
    {
        let mut tup = match serializer.serialize_tuple(N::usize_()) {
            Ok(t) => t, Err(e) => {
                return Err(e);
            }
        };
        let mut __k: usize = 0;
        while __k < N::usize_() invariant self_.ok(), self_.all_live(), __k <= N::n(), tup.log().len() == 1 + __k, tup.log()[0] == SerEv::<T>::Tuple(N::n()), forall|j: int| 0 <= j < __k ==> (#[trigger] tup.log()[1 + j]) == SerEv::Elem(self_.view()[j].unwrap()), decreases N::n() - __k, {
            let el = self_.peek(__k);
            match tup.serialize_element(el) {
                Ok(_) => {
                }, Err(e) => {
                    return Err(e);
                }
            }
            __k += 1;
        }
        tup.end()
    }
    proof fn reach_serialize<T, N: ArrayLength, S: ForeignSerializer<T>>(self_: &Slots<T, N>, serializer: S) requires self_.ok(), self_.all_live(), serializer.log().len() == 0, { assert(false); } /*OB:canary.serialize:*/

    // extracted from src/impl_serde.rs:54  `fn visit_seq<A>(self, mut seq: A) -> Result<GenericArray<T, N>, A::Error> where A: SeqAccess<'de>,`
    pub fn visit_seq<T, N: ArrayLength, A: ForeignSeq<T>>(seq: &mut A) -> (ret: Result<GenericArray<T, N>, DeErr>)
        requires
            old(seq).results().len() == 0,
            old(seq).probe_results().len() == 0,
            N::n() < usize::MAX  /* `*position + 1` in the error value; a sequence of usize::MAX elements cannot be delivered */,
        ensures
            ret is Ok ==> final(seq).results().len() == N::n() && forall|k: int| 0 <= k < N::n() ==> (#[trigger] final(seq).results()[k]) == Ok::<Option<T>, ()>(Some(ret->Ok_0.elems()[k])), /*OB:visit_seq.post.ok-means-the-first-N-elements-in-order:C17*/
            final(seq).results().len() <= N::n() + 1 && final(seq).probe_results().len() <= 1, /*OB:visit_seq.post.reads-at-most-N-elements-plus-one-probe:C17*/
            (old(seq).hint() is Some && old(seq).hint()->Some_0 != N::n()) ==> ret is Err, /*OB:visit_seq.post.an-up-front-hint-other-than-N-is-rejected:C17*/
            ret is Ok ==> (forall|k: int| 0 <= k < final(seq).probe_results().len() ==> (#[trigger] final(seq).probe_results()[k]) == Ok::<Option<()>, ()>(None)) && (final(seq).probe_results().len() == 0 ==> final(seq).hint() == Some(0usize)), /*OB:visit_seq.post.surplus-is-rejected:C17*/
            ret is Ok ==> forall|k: int| 0 <= k < N::n() ==> (#[trigger] final(seq).results()[k]) is Ok && final(seq).results()[k]->Ok_0 is Some, /*OB:visit_seq.post.a-short-or-failing-source-is-rejected:C17*/
    {
        match seq.size_hint() {
            Some(n) if n != N::usize_() => {
                return Err(invalid_length(n));
            }
            _ => {
            }
        }
        {
            let dst = Slots::uninit();
            let mut builder = IntrusiveArrayBuilder::new(dst);
            let mut __k: usize = 0;
            loop invariant_except_break builder.wf(), builder.position == __k, __k <= N::n(), seq.probe_results().len() == 0, seq.results().len() == __k, forall|j: int| 0 <= j < __k ==> (#[trigger] seq.results()[j]) == Ok::<Option<T>, ()>(Some(builder.built()[j])), ensures builder.wf(), seq.probe_results().len() == 0, builder.position <= seq.results().len() <= builder.position + 1, forall|j: int| 0 <= j < builder.position ==> (#[trigger] seq.results()[j]) == Ok::<Option<T>, ()>(Some(builder.built()[j])), builder.position < N::n() ==> seq.results().len() == builder.position + 1 && seq.results().last() == Ok::<Option<T>, ()>(None), builder.position == N::n() ==> seq.results().len() == N::n(), decreases N::n() - __k, {
                if __k >= N::usize_() {
                    break;
                }
                let ghost bb = builder.built();
                let ghost rb = seq.results();
                proof {
                    assert(builder.wf()) /*OB:visit_seq.unwind@next_element:C04,C17*/;
                }
                match (match seq.next_element() { Ok(v) => v, Err(e) => { builder.drop_impl(); return Err(e); } }) {
                    Some(el) => {
                        builder.array.put(__k, el);
                        builder.position += 1;
                        __k += 1;
                        proof {
                            assert forall|j: int| 0 <= j < __k implies (#[trigger] seq.results()[j]) == Ok::<Option<T>, ()>(Some(builder.built()[j])) by {
                                if j < __k - 1 {
                                    assert(builder.built()[j] == bb[j]);
                                    assert(seq.results()[j] == rb[j]);
                                }
                            }
                        }
                    }
                    None => {
                        break;
                    }
                }
            }
            if builder.position == N::usize_() {
                if seq.size_hint() != Some(0) && ({ proof { assert(builder.wf()) /*OB:visit_seq.unwind@surplus-probe:C04,C17*/; } match seq.next_element_dummy() { Ok(v) => v, Err(e) => { builder.drop_impl(); return Err(e); } } }).is_some() {
                    {
                        let __e = invalid_length(builder.position + 1);
                        builder.drop_impl();
                        return Err(__e);
                    }
                }
                return Ok({ let dst = builder.finish(); proof { assert(dst.all_live()); } array_assume_init(dst) });
            }
            {
                let __e = invalid_length(builder.position);
                builder.drop_impl();
                return Err(__e);
            }
        }
    }
    proof fn reach_visit_seq<T, N: ArrayLength, A: ForeignSeq<T>>(seq: A) requires seq.results().len() == 0, seq.probe_results().len() == 0, N::n() < usize::MAX  /* `*position + 1` in the error value; a sequence of usize::MAX elements cannot be delivered */, { assert(false); } /*OB:canary.visit_seq:*/

proof fn canary() { assert(false); } /*OB:canary:*/
} // verus!
fn main() {}


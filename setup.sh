#!/bin/sh
# Run once after a fresh restore, offline. Nothing is built ahead of time: every check rebuilds from /repo's working tree.
set -e
cd "$(dirname "$0")"
mkdir -p evidence replay/out
command -v cargo-kani >/dev/null || command -v cargo >/dev/null
cargo kani --version
verus --version | head -2
python3 -c "import json,sys; json.load(open('MANIFEST.json')); print('manifest ok')"

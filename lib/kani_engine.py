"""Engine K: Kani/CBMC on a scratch copy of /repo's working tree with add-only #[cfg(kani)] injections.

Harness files live in /verif/kani/*.rs.  Each starts with
    // @file host=src/iter.rs mod=verif_iter [features=alloc,serde] [flags=-Z stubbing] [needs=mon,contracts]
and every harness is announced by a comment line directly in the file:
    // @harness name=c06_nth_u4 props=C05,C06 tier=quick [expect=panic] [scope=instantiation(u8,U4)] [group=x]
The driver copies the files into the scratch tree, appends `#[cfg(kani)] #[path=..] mod ..;` to the host module (so
a harness can name private fields and functions), applies the anchored injections of kani/injections.py, runs
`cargo kani` once per (features, flags) group with all harnesses in parallel, and maps the per-harness results to
named obligations."""
import json, os, re, shlex, time
from common import *

KANI_DIR = os.path.join(VERIF, 'kani')
NJOBS = int(os.environ.get('VERIF_JOBS', '16'))


class Harness:
    def __init__(self, file, meta, attrs):
        self.file, self.meta = file, meta
        self.name = attrs['name']
        self.props = attrs.get('props', '').split(',')
        self.tier = attrs.get('tier', 'quick')
        self.expect = attrs.get('expect', 'pass')
        self.scope = attrs.get('scope', 'instantiation')
        self.desc = attrs.get('desc', '')
        self.features = attrs.get('features', meta.get('features', ''))
        self.flags = meta.get('flags', '')
        if attrs.get('flags'):
            self.flags = (self.flags + ' ' + attrs['flags'].replace('+', ' ')).strip()
        host_mod = host_to_modpath(meta['host'])
        self.fq = '::'.join([p for p in (host_mod, meta['mod'], self.name) if p])
        self.messages = []
        self.invocation = None

    def group(self):
        return (self.features, self.flags)


def host_to_modpath(host):
    base = os.path.basename(host)[:-3]
    return '' if base == 'lib' else base


def parse_attrs(s):
    return dict(kv.split('=', 1) for kv in s.split() if '=' in kv)


RE_ASSERT = re.compile(r'kani::assert\(')


def assert_messages(text):
    """The literal message of every kani::assert( .. , "msg") in `text` (the last string literal before the closing `);`)."""
    out = []
    for m in RE_ASSERT.finditer(text):
        end = text.find(');', m.end())
        if end < 0:
            continue
        lits = re.findall(r'"((?:[^"\\]|\\.)*)"', text[m.end():end])
        if lits:
            out.append(lits[-1])
    return sorted(set(out))


def sanitize(args):
    args = re.sub(r'\[[^\]]*\]', '', args)  # token-list arguments (used as repetition counters) do not name the harness
    return re.sub(r'[^a-z0-9]+', '_', args.lower()).strip('_')


def discover():
    """-> (files_meta, harnesses).  A `// @harness` line announces a hand-written harness; a `// @gen macro=m name=p
    props=.. quick=a,b;c,d thorough=..` line announces one harness per argument tuple, instantiated from the macro that
    follows it (the invocations `m!(p_<args>, a, b);` are appended to the scratch copy of the file by inject())."""
    files, harnesses = {}, []
    for fn in sorted(os.listdir(KANI_DIR)):
        if not fn.endswith('.rs'):
            continue
        path = os.path.join(KANI_DIR, fn)
        text = open(path).read()
        m = re.search(r'^// @file (.*)$', text, re.M)
        if not m:
            continue
        meta = parse_attrs(m.group(1))
        meta['path'], meta['fn'] = path, fn
        meta['flags'] = meta.get('flags', '').replace('+', ' ')
        files[fn] = meta
        marks = [(mm.start(), mm.group(1), parse_attrs(mm.group(2)))
                 for mm in re.finditer(r'^\s*// @(harness|gen) (.*)$', text, re.M)]
        for i, (pos, kind, attrs) in enumerate(marks):
            end = marks[i + 1][0] if i + 1 < len(marks) else len(text)
            msgs = assert_messages(text[pos:end])
            if kind == 'harness':
                h = Harness(fn, meta, attrs)
                h.messages = msgs
                harnesses.append(h)
            else:
                for tier in ('quick', 'thorough'):
                    for args in [a for a in attrs.get(tier, '').split(';') if a]:
                        a2 = dict(attrs)
                        a2['name'] = '%s_%s' % (attrs['name'], sanitize(args))
                        a2['tier'] = tier
                        a2.setdefault('scope', 'instantiation(%s)' % args)
                        if 'scope' in attrs:
                            a2['scope'] = attrs['scope']
                        else:
                            a2['scope'] = 'instantiation(%s)' % args
                        h = Harness(fn, meta, a2)
                        h.messages = msgs
                        h.invocation = '%s!(%s, %s);' % (attrs['macro'], a2['name'], args)
                        harnesses.append(h)
    # `also_features=a,b` in a @file line: every harness of the file is ALSO run in a build of the crate with those cargo
    # features (same function, second group) - code selected by #[cfg(feature = ..)] must satisfy the same contract
    import copy
    for h in list(harnesses):
        af = files[h.file].get('also_features')
        if af:
            h2 = copy.copy(h)
            h2.name = h.name + '__' + re.sub(r'[^a-z0-9]+', '_', af.lower())
            h2.features = af
            h2.scope = h.scope + ' [crate built with features %s]' % af
            harnesses.append(h2)
    names = [h.name for h in harnesses]
    dup = set(n for n in names if names.count(n) > 1)
    if dup:
        raise SystemExit('duplicate harness names: %s' % sorted(dup))
    return files, harnesses


def strip_dev_deps(cargo_toml):
    """Scratch copy only: drop the bench target and the heavy dev-dependencies (criterion, rand) that nothing under
    verification uses; serde_json / bincode stay because the crate's own #[cfg(test)] modules name them and the native
    counterexample playback compiles the lib in test mode."""
    s = open(cargo_toml).read()
    s = re.sub(r'\n\[\[bench\]\].*?(?=\n\[)', '\n', s, flags=re.S)
    s = re.sub(r'^(criterion|rand)\s*=.*$\n', '', s, flags=re.M)
    open(cargo_toml, 'w').write(s)


class Injected:
    def __init__(self):
        self.lines_added = 0
        self.lines_removed = 0
        self.items = []


def inject(scratch_repo, files_needed, files_meta, selected=()):
    """Append the module declarations and apply the anchored add-only injections.  Returns an Injected record; raises
    LostAnchor if an anchor is not found exactly once."""
    import injections
    rec = Injected()
    hdir = os.path.join(os.path.dirname(scratch_repo), 'harness')
    os.makedirs(hdir, exist_ok=True)
    needs = set()
    for fn in files_needed:
        meta = files_meta[fn]
        dst = os.path.join(hdir, fn)
        inv = sorted(set(h.invocation for h in selected if h.file == fn and h.invocation))
        open(dst, 'w').write(open(meta['path']).read() + '\n// ---- generated invocations ----\n' + '\n'.join(inv) + '\n')
        host = os.path.join(scratch_repo, meta['host'])
        if not os.path.exists(host):
            raise LostAnchor('host file %s missing' % meta['host'])
        cfg = 'kani'
        if meta.get('features'):
            cfg = 'all(kani, %s)' % ', '.join('feature = "%s"' % f for f in meta['features'].split(','))
        decl = '\n#[cfg(%s)]\n#[path = "%s"]\npub(crate) mod %s;\n' % (cfg, dst, meta['mod'])
        with open(host, 'a') as f:
            f.write(decl)
        rec.lines_added += decl.count('\n')
        rec.items.append('%s: mod %s' % (meta['host'], meta['mod']))
        needs.update(x for x in meta.get('needs', '').split(',') if x)
    for inj in injections.INJECTIONS:
        if inj['group'] not in needs:
            continue
        path = os.path.join(scratch_repo, inj['file'])
        text = open(path).read()
        ms = list(re.finditer(inj['anchor'].replace(' ', r'\s+'), text, re.M))
        if len(ms) != 1:
            raise LostAnchor('%s: anchor %r found %d times' % (inj['file'], inj['anchor'], len(ms)))
        m = ms[0]
        if inj['where'] == 'before':
            pos = text.rfind('\n', 0, m.start()) + 1
            new = text[:pos] + inj['text'] + '\n' + text[pos:]
        else:  # 'after': directly after the matched text (the anchor ends at the opening brace of the body)
            new = text[:m.end()] + '\n' + inj['text'] + text[m.end():]
        open(path, 'w').write(new)
        rec.lines_added += inj['text'].count('\n') + 1
        rec.items.append('%s: %s' % (inj['file'], inj['name']))
    return rec


class LostAnchor(Exception):
    pass


RE_CHECKING = re.compile(r'^Thread (\d+): Checking harness (\S+?)\.\.\.\s*$')
RE_THREAD = re.compile(r'^Thread (\d+):\s*$')


def parse_terse(out):
    """-> {fq_harness: {'status','failed':[desc..],'checks':int,'nfailed':int,'covers':(sat,total)|None,'time':float,'raw':str}}"""
    res, cur_by_thread, cur = {}, {}, None
    block = []

    def flush():
        nonlocal block, cur
        if cur is not None and block:
            txt = '\n'.join(block)
            r = {'raw': txt, 'failed': [], 'covers': None, 'checks': 0, 'nfailed': 0, 'time': 0.0, 'status': 'unknown',
                 'note': ''}
            m = re.search(r'\*\* (\d+) of (\d+) failed', txt)
            if m:
                r['nfailed'], r['checks'] = int(m.group(1)), int(m.group(2))
            m = re.search(r'\*\* (\d+) of (\d+) cover properties satisfied', txt)
            if m:
                r['covers'] = (int(m.group(1)), int(m.group(2)))
            r['failed'] = [l[len('Failed Checks: '):].strip() for l in txt.splitlines() if l.startswith('Failed Checks: ')]
            m = re.search(r'VERIFICATION:- (SUCCESSFUL|FAILED)(.*)', txt)
            if m:
                r['status'] = m.group(1)
                r['note'] = m.group(2).strip()
            m = re.search(r'Verification Time: ([0-9.]+)s', txt)
            if m:
                r['time'] = float(m.group(1))
            if 'CBMC failed' in txt or 'CBMC timed out' in txt or 'out of memory' in txt.lower():
                r['status'] = 'ERROR'
            res[cur] = r
        block = []

    for line in out.splitlines():
        m = RE_CHECKING.match(line)
        if m:
            flush()
            cur = None
            cur_by_thread[m.group(1)] = m.group(2)
            continue
        m = RE_THREAD.match(line)
        if m:
            flush()
            cur = cur_by_thread.get(m.group(1))
            continue
        if line.startswith('Manual Harness Summary') or line.startswith('Complete - '):
            flush()
            cur = None
            continue
        if cur is not None:
            block.append(line)
    flush()
    return res


def kani_cmd(harness_fqs, features, flags, extra=None, jobs=True):
    cmd = ['cargo', 'kani']
    if jobs:
        cmd += ['-j', str(max(2, min(NJOBS, len(harness_fqs)))), '--output-format', 'terse']
    if features:
        cmd += ['--features', features]
    z = set(re.findall(r'-Z\s+(\S+)', flags))
    rest = re.sub(r'-Z\s+\S+', '', flags).strip()
    for zz in sorted(z | {'unstable-options'}):
        cmd += ['-Z', zz]
    cmd += ['--harness-timeout', os.environ.get('VERIF_HARNESS_TIMEOUT', '900s'), '--exact']
    if extra:
        cmd += extra
    for h in harness_fqs:
        cmd += ['--harness', h]
    if rest:
        cmd += shlex.split(rest)
    return cmd


class KaniRun:
    """Everything one property check learned from engine K."""

    def __init__(self):
        self.obligations = []
        self.undecided = []       # list of reason strings
        self.failures = []        # list of dict(harness, obligations=[..], raw)
        self.injected = None
        self.cmds = []
        self.harness_rows = []
        self.solver_s = 0.0
        self.build_s = 0.0
        self.scratch_repo = None
        self.const_eval_error = None
        self.compile_verdict = None


def run_kani(prop, tier, seed=0):
    files_meta, all_h = discover()
    tiers = ('quick',) if tier == 'quick' else ('quick', 'thorough')
    sel = [h for h in all_h if prop in h.props and h.tier in tiers]
    if os.environ.get('VERIF_ONLY'):  # development aid: restrict to harnesses whose name contains one of the substrings
        subs = os.environ['VERIF_ONLY'].split(',')
        sel = [h for h in sel if any(x in h.name for x in subs)]
    kr = KaniRun()
    if not sel:
        return kr
    scratch = make_scratch('k' + prop)
    srepo = os.path.join(scratch, 'repo')
    copy_repo(srepo)
    strip_dev_deps(os.path.join(srepo, 'Cargo.toml'))
    kr.scratch_repo = srepo
    need_files = sorted(set(h.file for h in sel) | {fn for fn, m in files_meta.items() if m.get('always') == '1'})
    try:
        kr.injected = inject(srepo, need_files, files_meta, sel)
    except LostAnchor as e:
        kr.undecided.append('lost anchor: %s' % e)
        return kr
    groups = {}
    for h in sel:
        groups.setdefault(h.group(), []).append(h)
    # deterministic order, permuted by the seed (verdicts do not depend on it)
    for gk in sorted(groups):
        hs = sorted(groups[gk], key=lambda h: h.name)
        if seed:
            k = seed % len(hs)
            hs = hs[k:] + hs[:k]
        features, flags = gk
        cmd = kani_cmd([h.fq for h in hs], features, flags)
        kr.cmds.append(' '.join(cmd))
        log('kani: %d harnesses, features=[%s] flags=[%s]' % (len(hs), features, flags))
        rc, out, err, wall = run(cmd, cwd=srepo, env={'CARGO_TARGET_DIR': os.path.join(scratch, 'target')},
                                 timeout=int(os.environ.get('VERIF_GROUP_TIMEOUT', '5400')))
        if os.environ.get('VERIF_DEBUG'):
            open(os.path.join(VERIF, 'last_kani_%s_%s.log' % (prop, features.replace(',', '+') or 'nofeat')), 'w').write(
                ' '.join(cmd) + '\n' + out + '\n=====STDERR=====\n' + err)
        res = parse_terse(out)
        if not res:
            errs = [l for l in (out + '\n' + err).splitlines() if l.startswith('error') or l.lstrip().startswith('-->')]
            tail = '\n'.join(errs[:12]) if errs else '\n'.join((err or out).splitlines()[-25:])
            kind = 'compile error in injected harness or crate' if errs else 'no harness results'
            cv = [files_meta[h.file] for h in hs if files_meta[h.file].get('compileverdict')]
            if cv and errs:
                # harness files that ENUMERATE source forms which must compile (arr!/box_arr! invocations, const items): a compile
                # error located in such a file, or in a macro expanded from it, is the property failing - not a tool problem
                blocks = re.split(r'\n(?=error)', out + '\n' + err)
                hit = [b for b in blocks if b.startswith('error') and any(('harness/' + m['fn']) in b for m in cv)
                       and not re.search(r'error(\[E0433\]|\[E0432\]|\[E0425\]|\[E0412\])', b.split('\n')[0]) and 'verif_support' not in b.split('\n')[0]]
                if hit:
                    kr.compile_verdict = {'props': sorted(set(m['compileverdict'] for m in cv)), 'text': '\n'.join(hit)[:4000]}
                    continue
            if 'error[E0080]' in out + err and any(files_meta[h.file].get('constitems') == '1' for h in hs):
                # rustc's const evaluator rejected a const item of the generated C18 family: that IS the property failing
                m = re.search(r'error\[E0080\].*?(?=\n(?:error|warning)|\Z)', out + err, re.S)
                kr.const_eval_error = (m.group(0) if m else tail)[:4000]
                continue
            kr.undecided.append('%s (features=%s): %s' % (kind, features, tail))
            continue
        for h in hs:
            r = res.get(h.fq)
            if r is None:
                kr.undecided.append('harness %s produced no result (renamed/missing or tool crash)' % h.fq)
                continue
            kr.solver_s += r['time']
            classify(h, r, kr, prop)
    return kr


PANIC_NOTE_OK = 'encountered one or more panics as expected'


def classify(h, r, kr, prop):
    """Turn one harness result into obligations / undecided / failure records."""
    scope = h.scope
    row = {'harness': h.name, 'checks': r['checks'], 'status': r['status'], 'time_s': r['time'], 'expect': h.expect,
           'covers': r['covers']}
    kr.harness_rows.append(row)
    base = '%s.K.%s' % (prop, h.name)
    unwinding = [d for d in r['failed'] if 'unwinding assertion' in d]
    if r['status'] == 'ERROR' or r['status'] == 'unknown':
        kr.undecided.append('harness %s: tool error/timeout: %s' % (h.name, r['raw'][-300:]))
        return
    if unwinding:
        kr.undecided.append('harness %s: unwinding assertion failed (bound too small for this code): %s' % (h.name, unwinding[0]))
        return
    named = h.messages
    ms = int(r['time'] * 1000)
    if h.expect == 'pass':
        if r['status'] == 'SUCCESSFUL':
            cov = r['covers']
            if cov is None or cov[0] != cov[1] or cov[1] == 0:
                kr.undecided.append('harness %s: vacuity guard: cover properties %s (harness end not reachable?)' % (h.name, cov))
                return
            for msg in named:
                kr.obligations.append(Obligation('%s.%s' % (base, msg), 'kani-cbmc', scope, 'discharged', ms, harness=h.name))
            auto = max(0, r['checks'] - len(named))
            kr.obligations.append(Obligation('%s.auto-safety' % base, 'kani-cbmc', scope, 'discharged', ms,
                                             detail='Kani-generated checks (pointer, bounds, overflow, alloc, unreachable-code)',
                                             harness=h.name, count=auto))
        else:
            failed = r['failed'] or ['(unnamed failure: %s)' % r['note']]
            for d in failed:
                kr.obligations.append(Obligation('%s.%s' % (base, d), 'kani-cbmc', scope, 'refuted', ms, harness=h.name))
            kr.failures.append({'harness': h, 'failed': failed, 'raw': r['raw']})
    else:  # expect == panic: must panic on every path => should_panic passes and the cover after the call is unsatisfied
        cov = r['covers']
        if r['status'] == 'SUCCESSFUL' and PANIC_NOTE_OK in r['note'] and cov is not None and cov[0] == 0 and cov[1] >= 1:
            kr.obligations.append(Obligation('%s.panics-on-every-path' % base, 'kani-cbmc', scope, 'discharged', ms, harness=h.name))
            kr.obligations.append(Obligation('%s.auto-safety' % base, 'kani-cbmc', scope, 'discharged', ms, harness=h.name,
                                             count=max(0, r['checks'] - r['nfailed'])))
        elif 'encountered failures other than panics' in r['note']:
            failed = [d for d in r['failed']] or ['(failure other than panic)']
            for d in failed:
                kr.obligations.append(Obligation('%s.%s' % (base, d), 'kani-cbmc', scope, 'refuted', ms, harness=h.name))
            kr.failures.append({'harness': h, 'failed': failed, 'raw': r['raw']})
        else:
            d = 'panics-on-every-path'
            kr.obligations.append(Obligation('%s.%s' % (base, d), 'kani-cbmc', scope, 'refuted', ms,
                                             detail='call returned on some path (covers %s, %s)' % (cov, r['note']), harness=h.name))
            kr.failures.append({'harness': h, 'failed': [d], 'raw': r['raw']})


RE_TEST = re.compile(r'```\n(.*?)```', re.S)


def counterexample(kr, h, prop):
    """Re-run one failed harness alone with concrete playback and return (regular_output_tail, test_source or None)."""
    cmd = kani_cmd([h.fq], h.features, h.flags + ' -Z concrete-playback', extra=['--concrete-playback=print'], jobs=False)
    scratch = os.path.dirname(kr.scratch_repo)
    rc, out, err, wall = run(cmd, cwd=kr.scratch_repo, env={'CARGO_TARGET_DIR': os.path.join(scratch, 'target')}, timeout=1800)
    tests = [t for t in RE_TEST.findall(out) if 'Check for `cover`' not in t]
    i = out.find('SUMMARY:')
    tail = out[i:] if i >= 0 else out[-3000:]
    j = tail.find('Concrete playback unit test')
    summary = tail[:j] if j >= 0 else tail
    return summary[:6000], (tests[0] if tests else None)


def playback(kr, h, test_src):
    """Replay the counterexample natively: the harness itself is compiled by plain rustc (no CBMC) against the scratch
    copy of the real crate and run on the concrete values.  Returns (reproduced: bool, output)."""
    scratch = os.path.dirname(kr.scratch_repo)
    hfile = os.path.join(scratch, 'harness', h.file)
    m = re.search(r'fn (kani_concrete_playback_\w+)', test_src)
    tname = m.group(1)
    body = test_src.replace('let concrete_vals: Vec<Vec<u8>> = vec![',
                            'extern crate std; use std::vec::Vec; use std::vec;\n    let concrete_vals: Vec<Vec<u8>> = vec![')
    with open(hfile, 'a') as f:
        f.write('\n' + body + '\n')
    cmd = ['cargo', 'kani', 'playback', '-Z', 'concrete-playback']
    if h.features:
        cmd += ['--features', h.features]
    cmd += ['--', tname, '--nocapture']
    rc, out, err, wall = run(cmd, cwd=kr.scratch_repo, env={'CARGO_TARGET_DIR': os.path.join(scratch, 'target-playback'),
                                                            'RUST_BACKTRACE': '0'}, timeout=1800)
    txt = out + '\n' + err
    ran = 'running 1 test' in txt
    reproduced = ran and ('test result: FAILED' in txt or 'panicked at' in txt or 'SIGSEGV' in txt or 'SIGABRT' in txt)
    keep = [l for l in txt.splitlines() if not l.startswith(('warning', ' ', '\t')) and l.strip()]
    return ran, reproduced, '\n'.join(keep[-40:])

"""Engine V, part 1: mechanical extraction of functions from /repo's current sources into Verus text.

What is carried over verbatim: every token of the function body - control flow, conditions, arithmetic, statement
order, early returns.  What is rewritten: only the constructs Verus cannot read, by the rule table each unit declares
(DESIGN.md §2.2).  After rewriting, a body that still contains a construct outside the table makes the unit
UNSUPPORTED (exit 2), never a guess.  The extractor reports, per function, the source location, how many statements were
carried verbatim and how often each rule fired."""
import re


class LostAnchor(Exception):
    pass


class Unsupported(Exception):
    pass


def strip_comments(text, keep_attrs=False):
    """Remove // and /* */ comments (not inside string literals) and attribute lines; keep line structure."""
    out, i, n = [], 0, len(text)
    while i < n:
        c = text[i]
        if c == '"':
            j = i + 1
            while j < n and text[j] != '"':
                j += 2 if text[j] == '\\' else 1
            out.append(text[i:j + 1])
            i = j + 1
        elif text.startswith('//', i):
            j = text.find('\n', i)
            i = n if j < 0 else j
        elif text.startswith('/*', i):
            j = text.find('*/', i + 2)
            j = n if j < 0 else j + 2
            out.append('\n' * text.count('\n', i, j))   # keep the line structure: source locations are reported
            i = j
        elif c == "'" and i + 2 < n and (text[i + 2] == "'" or (text[i + 1] == '\\' and text.find("'", i + 2) - i <= 4)):
            j = text.find("'", i + 2 if text[i + 1] == '\\' else i + 1)
            out.append(text[i:j + 1])
            i = j + 1
        else:
            out.append(c)
            i += 1
    s = ''.join(out)
    if keep_attrs:
        return s
    s = re.sub(r'^[ \t]*#!?\[[^\]\n]*\][ \t]*$', '', s, flags=re.M)      # attribute lines
    s = re.sub(r'#\[(?:inline|cold|allow|doc|cfg_attr)[^\]\n]*\]', '', s)  # inline attributes
    return s


def match_brace(text, i):
    """text[i] == '{' -> index of the matching '}'"""
    depth, j = 0, i
    while j < len(text):
        if text[j] == '{':
            depth += 1
        elif text[j] == '}':
            depth -= 1
            if depth == 0:
                return j
        j += 1
    raise LostAnchor('unbalanced braces')


def ws(pattern):
    """make a literal-ish regex whitespace tolerant"""
    return re.sub(r'\\? ', r'\\s*', pattern)


def find_impl(text, header):
    """header: the impl header written with single spaces, e.g. 'impl<T, N: ArrayLength> Drop for GenericArrayIter<T, N>'.
    -> (block_text, offset of block start in text)"""
    pat = r'\s+'.join(re.escape(tok) for tok in header.split()) + r'\s*(?:where[^{]*)?\{'
    ms = list(re.finditer(pat, text))
    if len(ms) != 1:
        raise LostAnchor('impl header %r found %d times' % (header, len(ms)))
    i = ms[0].end() - 1
    j = match_brace(text, i)
    return text[i + 1:j], i + 1


def find_fn(block, name, offset=0, fulltext=None):
    """-> dict(sig, body, line) for `fn name` directly inside `block` (first match)."""
    m = re.search(r'\bfn\s+' + re.escape(name) + r'\s*(?:<[^{;]*?>)?\s*\(', block)
    if not m:
        raise LostAnchor('fn %s not found' % name)
    k = block.index('{', m.end())
    # skip braces that belong to a where clause / return type generic? (none in this crate)
    e = match_brace(block, k)
    sig = ' '.join(block[m.start():k].split())
    line = None
    if fulltext is not None:
        line = fulltext[:offset + m.start()].count('\n') + 1
    return {'sig': sig, 'body': block[k + 1:e], 'line': line}


def trait_impl_overrides(sources, trait, name):
    """sources: {rel: comment-stripped text}.  -> [(rel, impl header)] of every `impl .. Trait<..> for ..` block that defines
    `fn name`: a unit that verifies a trait DEFAULT method must know where that default is overridden, or it would prove
    dead code."""
    out = []
    pat = re.compile(r'(?:unsafe\s+)?impl\b[^{;]*?\b' + re.escape(trait) + r'\b[^{;]*?\bfor\b[^{;]*\{')
    for rel, text in sorted(sources.items()):
        for m in pat.finditer(text):
            i = m.end() - 1
            j = match_brace(text, i)
            if re.search(r'\bfn\s+' + re.escape(name) + r'\s*[<(]', text[i + 1:j]):
                out.append((rel, ' '.join(m.group(0)[:-1].split())))
    return out


def find_free_fn(text, name):
    m = re.search(r'^(?:pub(?:\([a-z]+\))?\s+)?(?:const\s+)?(?:unsafe\s+)?fn\s+' + re.escape(name) + r'\s*(?:<[^{;]*?>)?\s*\(', text, re.M)
    if not m:
        raise LostAnchor('free fn %s not found' % name)
    k = text.index('{', m.end())
    e = match_brace(text, k)
    return {'sig': ' '.join(text[m.start():k].split()), 'body': text[k + 1:e], 'line': text[:m.start()].count('\n') + 1}


def normalize(body):
    """one statement-ish chunk per line, single spaces: makes rules independent of formatting"""
    s = ' '.join(body.split())
    return s


def statements(body):
    """rough count of `;`- or block-terminated statements (evidence only)"""
    return max(1, body.count(';') + body.count('}'))


def apply_rules(body, rules, stats):
    for rid, pat, rep in rules:
        body, n = re.subn(pat, rep, body, flags=re.S)
        if n:
            stats[rid] = stats.get(rid, 0) + n
    return body


# constructs that must not survive rewriting (anything left means: outside the rule table -> UNSUPPORTED)
UNSUPPORTED_RE = re.compile(
    r'\bptr::|\bget_unchecked|\bmem::|\.iter\(\)|\.iter_mut\(\)|\.zip\(|\.for_each\(|\.fold\(|\.rfold\(|\bunsafe\b|\bas \*|'
    r'\bslice::from_raw|\btransmute|\.add\(|\.offset\(|\.cast\(|\bunreachable_unchecked|\bpanic!|\bassert!|\bdebug_assert!|'
    r'\bUSIZE\b|\bManuallyDrop\b|\bMaybeUninit\b|\.chunks\(|\.chunks_exact_mut\(|\bfrom_utf8_unchecked|\bmatch\b.*\bref\b')


def check_supported(name, body, allow=()):
    """`allow`: method names that, after rewriting, denote prelude primitives of the unit (e.g. Ptr::add / Ptr::cast)"""
    probe = body
    for a in allow:
        probe = probe.replace(a, ' ' * len(a))
    m = UNSUPPORTED_RE.search(probe)
    if m:
        raise Unsupported('function %s: construct outside the rewrite table survives: %r (near: %s)' % (
            name, m.group(0), body[max(0, m.start() - 60):m.end() + 40]))


def pretty(body, indent='        '):
    """Re-break the normalized one-line body: a new line after every `;` and `{` and around every `}` (outside
    parentheses), so that each statement - in particular each call of a prelude primitive and each generated
    obligation - sits on its own line and verifier messages map back to it."""
    lines, cur, depth, paren = [], '', 0, 0

    def emit(txt, d):
        txt = txt.strip()
        if txt:
            lines.append(indent + '    ' * max(d, 0) + txt)

    i, n = 0, len(body)
    while i < n:
        c = body[i]
        if c in '([':
            paren += 1
        elif c in ')]':
            paren -= 1
        if paren > 0 or c not in ';{}':
            cur += c
            i += 1
            continue
        if c == ';':
            emit(cur + ';', depth)
            cur = ''
        elif c == '{':
            emit(cur + '{', depth)
            cur = ''
            depth += 1
        else:  # '}'
            emit(cur, depth)
            cur = ''
            depth -= 1
            rest = body[i + 1:].lstrip()
            if rest.startswith('else'):
                cur = '} '
            elif rest[:1] in (';', ')', ','):
                cur = '}'
            else:
                emit('}', depth)
        i += 1
    emit(cur, depth)
    return '\n'.join(lines)

"""Engine V: Verus on functions extracted mechanically from /repo's current sources (all N at once).

A unit (verus/units/<name>.py) declares which functions to extract (impl header + fn name anchors), the rewrite rules
for the constructs Verus cannot read, and - the specification side - the contract of every function (requires /
ensures clauses, each tagged with the properties it carries) and proof hints.  This module assembles
prelude + extracted functions + contracts into one file, runs `verus`, and maps every verifier message back to a named
obligation through the `// OB:` markers the generator wrote."""
import importlib.util, json, os, re, time
from common import *
import extract

VDIR = os.path.join(VERIF, 'verus')


class Fn:
    """One extracted function after rewriting, with its contract."""

    def __init__(self, name, src_file, src_line, src_sig, vsig, body, requires, ensures, stats, nstmts, props, decreases=None, tail_proof=None):
        self.name, self.src_file, self.src_line, self.src_sig = name, src_file, src_line, src_sig
        self.vsig, self.body, self.requires, self.ensures = vsig, body, requires, ensures
        self.stats, self.nstmts, self.props = stats, nstmts, props
        self.decreases = decreases
        self.tail_proof = tail_proof


class Gen:
    """Accumulates the generated file and the line table."""

    def __init__(self, unit, repo):
        self.unit, self.repo = unit, repo
        self.lines = []
        self.fn_spans = []     # (name, first_line, last_line, props)
        self.functions = []    # evidence rows
        self.rule_stats = {}
        self._src_cache = {}

    def src(self, rel):
        if rel not in self._src_cache:
            path = os.path.join(self.repo, rel)
            if not os.path.exists(path):
                raise extract.LostAnchor('source file %s missing' % rel)
            self._src_cache[rel] = extract.strip_comments(open(path).read())
        return self._src_cache[rel]

    def all_src(self):
        """{rel: comment-stripped text} of every src/*.rs of the tree under check"""
        d = os.path.join(self.repo, 'src')
        return {'src/' + f: self.src('src/' + f) for f in sorted(os.listdir(d)) if f.endswith('.rs')}

    def default_not_overridden(self, trait, name, expected=()):
        """the trait default `trait::name` is what runs for every implementor except the `expected` ones (impl headers, matched by
        substring, whose overrides the unit extracts separately)"""
        for rel, hdr in extract.trait_impl_overrides(self.all_src(), trait, name):
            if not any(e in hdr for e in expected):
                raise extract.Unsupported('the default method %s::%s is overridden in %s (`%s`): the override is outside the unit' % (trait, name, rel, hdr[:120]))

    def src_with_attrs(self, rel):
        path = os.path.join(self.repo, rel)
        if not os.path.exists(path):
            raise extract.LostAnchor('source file %s missing' % rel)
        return extract.strip_comments(open(path).read(), keep_attrs=True)

    def raw(self, text):
        self.lines.extend(text.split('\n'))

    def prelude(self, name):
        self.raw(open(os.path.join(VDIR, 'prelude', name)).read())

    def extract_method(self, rel, impl_header, fn_name):
        text = self.src(rel)
        block, off = extract.find_impl(text, impl_header)
        f = extract.find_fn(block, fn_name, off, text)
        f['file'] = rel
        return f

    def extract_free(self, rel, fn_name):
        f = extract.find_free_fn(self.src(rel), fn_name)
        f['file'] = rel
        return f

    def emit_fn(self, fn):
        """requires: list of str; ensures: list of (label, props, text)."""
        first = len(self.lines) + 1
        self.lines.append('    // extracted from %s:%s  `%s`' % (fn.src_file, fn.src_line, fn.src_sig))
        self.lines.append('    ' + fn.vsig)
        if fn.requires:
            self.lines.append('        requires')
            for r in fn.requires:
                self.lines.append('            %s,' % r)
        if fn.ensures:
            self.lines.append('        ensures')
            for label, props, text in fn.ensures:
                self.lines.append('            %s, /*OB:%s.post.%s:%s*/' % (text, fn.name, label, ','.join(props)))
        if fn.decreases:
            self.lines.append('        decreases %s,' % fn.decreases)
        self.lines.append('    {')
        body = fn.body
        if fn.tail_proof:
            body = 'let __ret = { ' + body + ' }; ' + fn.tail_proof + ' __ret'
        self.raw(extract.pretty(body))
        self.lines.append('    }')
        if fn.requires:
            self.lines.append(self.reach_canary(fn))
        self.lines.append('')
        self.fn_spans.append((fn.name, first, len(self.lines), fn.props))
        self.functions.append({'function': fn.name, 'source': '%s:%s' % (fn.src_file, fn.src_line), 'signature': fn.src_sig,
                               'statements_carried': fn.nstmts, 'rules_fired': fn.stats,
                               'ensures_clauses': len(fn.ensures), 'requires_clauses': len(fn.requires)})
        for k, v in fn.stats.items():
            self.rule_stats[k] = self.rule_stats.get(k, 0) + v

    def reach_canary(self, fn):
        """Vacuity guard per function: a proof fn with the SAME preconditions and body `assert(false)`.  It must FAIL;
        if it verifies, the preconditions are contradictory and the function's contract holds vacuously."""
        sig = fn.vsig
        i = sig.index('fn ') + 3
        j = i
        while sig[j].isalnum() or sig[j] == '_':
            j += 1
        name = sig[i:j]
        generics = ''
        k = j
        if sig[k] == '<':
            depth = 0
            while True:
                if sig[k] == '<':
                    depth += 1
                elif sig[k] == '>':
                    depth -= 1
                    if depth == 0:
                        break
                k += 1
            generics = sig[j:k + 1]
            k += 1
        assert sig[k] == '('
        depth, e = 0, k
        while True:
            if sig[e] == '(':
                depth += 1
            elif sig[e] == ')':
                depth -= 1
                if depth == 0:
                    break
            e += 1
        params = sig[k + 1:e]
        params = re.sub(r'&mut self\b|&self\b|\bmut self\b', 'self', params)
        params = re.sub(r':\s*&mut\s+', ': ', params)
        reqs = [re.sub(r'\bold\((\w+)\)', r'\1', r) for r in fn.requires]
        return ('    proof fn reach_%s%s(%s) requires %s, { assert(false); } /*OB:canary.%s:*/' % (name, generics, params, ', '.join(reqs), fn.name))

    def text(self):
        return '\n'.join(self.lines) + '\n' 


class VerusRun:
    def __init__(self):
        self.obligations, self.undecided, self.functions = [], [], []
        self.details = {}
        self.cmd = ''
        self.extraction, self.assumption_scan, self.vacuity = {}, {}, {}
        self.solver_s = 0.0


def load_units():
    units = {}
    udir = os.path.join(VDIR, 'units')
    for fn in sorted(os.listdir(udir)):
        if fn.endswith('.py'):
            spec = importlib.util.spec_from_file_location('vunit_' + fn[:-3], os.path.join(udir, fn))
            mod = importlib.util.module_from_spec(spec)
            spec.loader.exec_module(mod)
            units[mod.NAME] = mod
    return units


RE_ERR = re.compile(r'^(error|warning)(\[[A-Z0-9]+\])?: (.*)$')
RE_LOC = re.compile(r'^\s*--> ([^:]+):(\d+):(\d+)')
RE_OB = re.compile(r'/\*OB:([^:\s]+):([A-Z0-9,]*)\*/')
PRIMS = ('take', 'put', 'peek', 'drop_range', 'range', 'forget', 'bitcopy_dead', 'add', 'from_raw_parts', 'cast', 'call', 'clone_', 'next_', 'write_str',
         'shift_down', 'swap', 'read_prefix_as_array', 'drop_owned', 'deref', 'write_prefix', 'subslice', 'scope_exit_unowned',
         'box_slice_from_raw', 'box_arr_from_raw', 'box_arr_into_raw', 'box_slice_into_raw', 'vec_from_box_slice', 'into_boxed_slice', 'write_array', 'write_elem', 'read_array', 'read_elem', 'assume_init', 'scope_exit', 'union_reinterpret', 'retype_ref', 'const_transmute')


def parse_errors(stderr, genfile):
    """-> list of dict(kind, lines=[int..], text)"""
    errs, cur = [], None
    for line in stderr.splitlines():
        m = RE_ERR.match(line)
        if m:
            if cur:
                errs.append(cur)
            cur = {'sev': m.group(1), 'code': m.group(2), 'kind': m.group(3), 'lines': [], 'text': line}
            continue
        if cur is not None:
            cur['text'] += '\n' + line
            m = RE_LOC.match(line)
            if m:
                cur['lines'].append(int(m.group(2)))
            else:
                m = re.match(r'^\s*(\d+)\s*\|', line)
                if m and '^' not in line and '-' not in line.split('|', 1)[1][:3]:
                    pass
    if cur:
        errs.append(cur)
    return [e for e in errs if e['sev'] == 'error' and not e['kind'].startswith('aborting due to')]


def secondary_lines(err_text):
    """line numbers shown in the snippet gutter of an error block (includes the `failed this postcondition` span)"""
    return [int(m.group(1)) for m in re.finditer(r'^\s*(\d+)\s*\|', err_text, re.M)]


def run_verus(prop, tier, seed=0, repo=None):
    vr = VerusRun()
    units = load_units()
    mine = [u for u in units.values() if prop in u.PROPS]
    if not mine:
        return vr
    repo = repo or REPO
    scratch = make_scratch('v' + prop)
    cmds = []
    for u in mine:
        t0 = time.time()
        g = Gen(u, repo)
        g.tier = tier
        try:
            u.generate(g, extract)
        except extract.LostAnchor as e:
            vr.undecided.append('unit %s: lost anchor: %s' % (u.NAME, e))
            continue
        except extract.Unsupported as e:
            vr.undecided.append('unit %s: unsupported construct: %s' % (u.NAME, e))
            continue
        text = g.text()
        path = os.path.join(scratch, 'unit_%s.rs' % u.NAME)
        open(path, 'w').write(text)
        if os.environ.get('VERIF_DEBUG'):
            open(os.path.join(VERIF, 'last_verus_%s.rs' % u.NAME), 'w').write(text)
        cmd = ['verus', path, '--triggers-mode', 'silent', '--multiple-errors', '30', '--output-json', '--time']
        extra = getattr(u, 'VERUS_ARGS', [])
        cmd += extra
        if seed and tier == 'thorough':
            cmd += ['--smt-option', 'smt.random_seed=%d' % (seed % 1000)]
        cmds.append('verus unit_%s.rs --triggers-mode silent --multiple-errors 30 --output-json --time %s' % (u.NAME, ' '.join(extra)))
        # Unmasking loop: Verus assumes an asserted fact after checking it, so a failed obligation hides the obligations
        # it implies later in the same function.  Failed `assert(..) /*OB:..*/` statements are therefore blanked out and
        # the unit is checked again (at most 4 rounds); failures of all rounds are reported.
        failed = {}   # obligation label -> (detail, props)
        hints_dropped = []
        canary_failed = False
        canaries_failed = set()
        rejected = None
        res, fb = {}, []
        for rnd in range(4):
            open(path, 'w').write(text)
            rc, out, err, wall = run(cmd, cwd=scratch, timeout=900)
            if os.environ.get('VERIF_DEBUG'):
                open(os.path.join(VERIF, 'last_verus_%s.err' % u.NAME), 'a' if rnd else 'w').write('=== round %d ===\n' % rnd + err)
            try:
                js = json.loads(out[out.index('{'):])
            except Exception:
                rejected = 'verus produced no JSON (rc=%s): %s' % (rc, (err or out)[-600:])
                break
            res = js.get('verification-results', {})
            glines = text.split('\n')
            errors = parse_errors(err, path)
            hard = [e for e in errors if e['code'] or 'rlimit' in e['text'].lower() or 'resource limit' in e['text'].lower()
                    or 'not supported' in e['kind'] or 'unsupported' in e['kind'].lower()]
            if res.get('encountered-vir-error') or hard or (rc != 0 and not errors) or 'verified' not in res:
                detail = (hard[0]['text'] if hard else err[-800:])[:900]
                if 'rlimit' in detail.lower() or 'resource limit' in detail.lower():
                    rejected = 'a Verus resource limit (rlimit) was hit (not a verdict): %s' % detail
                else:
                    rejected = 'the generated text was rejected by rustc / Verus (not a verdict): %s' % detail
                break
            if rnd == 0:
                try:
                    for mt in js['times-ms']['smt']['smt-run-module-times']:
                        fb += mt.get('function-breakdown', [])
                except Exception:
                    pass

            def fn_at(line):
                for name, a, b, props in g.fn_spans:
                    if a <= line <= b:
                        return name, props
                return None, None

            new_assert_lines, hint_lines = [], []
            for e in errors:
                cand = e['lines'] + secondary_lines(e['text'])
                ob, ob_line = None, None
                for ln in cand:
                    if 1 <= ln <= len(glines):
                        m = RE_OB.search(glines[ln - 1])
                        if m:
                            ob = (m.group(1), [p for p in m.group(2).split(',') if p])
                            ob_line = ln
                            break
                prim_line = e['lines'][0] if e['lines'] else (cand[0] if cand else 0)
                fname, fprops = fn_at(prim_line)
                if ob is None:
                    src_line = glines[prim_line - 1].strip() if 1 <= prim_line <= len(glines) else ''
                    if 'canary' in src_line or (fname == 'canary'):
                        canary_failed = True
                        continue
                    if fname is None:
                        # a failure outside every extracted function: a lemma or spec item of the prelude / unit did not verify.
                        # Verus still ASSUMES that lemma where it is called, so nothing this run reports can be trusted - machinery, not a verdict
                        rejected = 'a lemma or spec item of the unit itself failed to verify (not a verdict): %s' % e['text'][:700]
                        break
                    if e['kind'].startswith('assertion failed') and re.match(r'^assert\(.*\)(\s*by\s*\(.*\))?\s*;$', src_line) and '/*OB:' not in src_line:
                        # a generated PROOF HINT (an unmarked assert on its own line) did not verify.  A hint is a step of my proof,
                        # not an obligation of the property: drop it and check again - the obligations it was meant to help
                        # (invariants, postconditions, preconditions of primitives) are then decided without it
                        hint_lines.append(prim_line)
                        hints_dropped.append('%s: %s' % (fname, re.sub(r'\s+', ' ', src_line)[:100]))
                        continue
                    kind = re.sub(r'[^a-z]+', '-', e['kind'].lower()).strip('-')[:40]
                    callee = next((p for p in PRIMS if '.%s(' % p in src_line or ' %s(' % p in src_line), None)
                    label = '%s.%s@%s' % (fname or 'unit', ('pre.' + callee) if (callee and 'precondition' in e['kind']) else kind, re.sub(r'\s+', ' ', src_line)[:70])
                    props = u.props_for(fname, callee if 'precondition' in e['kind'] else kind) if hasattr(u, 'props_for') else (fprops or u.PROPS)
                    ob = (label, props)
                elif ob[0].startswith('canary'):
                    canaries_failed.add(ob[0])
                    if ob[0] == 'canary':
                        canary_failed = True
                    continue
                if ob[0] not in failed:
                    failed[ob[0]] = (e['text'][:1500], ob[1] or (fprops or u.PROPS))
                    if ob_line and re.search(r'\bassert\(', glines[ob_line - 1]) and 'assert(false)' not in glines[ob_line - 1]:
                        new_assert_lines.append(ob_line)
            if rejected or not (new_assert_lines or hint_lines):
                break
            for ln in new_assert_lines:
                glines[ln - 1] = re.sub(r'assert\(.*\)\s*/\*OB:', '/* unmasked in a later round */ /*XB:', glines[ln - 1])
            for ln in hint_lines:
                glines[ln - 1] = '/* proof hint dropped: it did not verify */'
            text = '\n'.join(glines)
        else:
            if hint_lines and not failed:
                rejected = 'proof hints kept failing after 4 rounds (a proof step, not an obligation): %s' % hints_dropped[-1]
        if rejected:
            vr.undecided.append('unit %s: %s' % (u.NAME, rejected))
            continue
        glines = g.text().split('\n')
        vr.solver_s += sum(f.get('time-micros', 0) for f in fb) / 1e6
        ftime = {f['function'].split('::')[-1]: f for f in fb}
        if not canary_failed:
            vr.undecided.append('unit %s: vacuity guard: the assert(false) canary did not fail (contradictory prelude or empty run)' % u.NAME)
            continue
        all_canaries = set(m.group(1) for l in g.text().split('\n') for m in [RE_OB.search(l)] if m and m.group(1).startswith('canary.'))
        vacuous = sorted(all_canaries - canaries_failed)
        if vacuous:
            vr.undecided.append('unit %s: vacuity guard: the preconditions of %s are contradictory (reachability canary verified)' % (u.NAME, ', '.join(v[7:] for v in vacuous)))
            continue
        # ---- discharged obligations: every OB marker that did not fail, plus one per call-site precondition ----
        n_markers = 0
        for idx, l in enumerate(glines):
            m = RE_OB.search(l)
            if not m or m.group(1).startswith('canary'):
                continue
            props = [p for p in m.group(2).split(',') if p]
            if prop not in props:
                continue
            n_markers += 1
            label = m.group(1)
            fname = label.split('.')[0]
            ms = int(ftime.get(fname, {}).get('time-micros', 0) / 1000)
            st = 'refuted' if label in failed else 'discharged'
            vr.obligations.append(Obligation('%s.V.%s.%s' % (prop, u.NAME, label), 'verus', 'all-N', st, ms,
                                             detail=(failed[label][0] if st == 'refuted' else l.split('/*OB:')[0].strip()[:200])))
        # call-site preconditions of prelude primitives and built-in safety (overflow/underflow, bounds) per function
        marker_labels = set(m.group(1) for l in glines for m in [RE_OB.search(l)] if m)
        for name, a, b, props in g.fn_spans:
            if prop not in (props or u.PROPS):
                continue
            ncalls = 0 if name == 'lemmas' else sum(1 for l in glines[a - 1:b] for p in PRIMS if '.%s(' % p in l or ' %s(' % p in l)
            ms = int(ftime.get(name, {}).get('time-micros', 0) / 1000)
            fail_here = [k for k in failed if k not in marker_labels and k.split('.')[0] == name and prop in failed[k][1]]
            cnt = max(0, ncalls - len([k for k in fail_here if '.pre.' in k]))
            if cnt:
                vr.obligations.append(Obligation('%s.V.%s.%s.call-site-preconditions' % (prop, u.NAME, name), 'verus', 'all-N', 'discharged', ms,
                                                 detail='preconditions of %d calls of prelude primitives (slot state, bounds, provenance)' % ncalls, count=cnt))
            for k in fail_here:
                vr.obligations.append(Obligation('%s.V.%s.%s' % (prop, u.NAME, k), 'verus', 'all-N', 'refuted', ms, detail=failed[k][0]))
        for k in failed:   # failures outside any extracted function (e.g. a lemma of the unit)
            if k not in marker_labels and k.split('.')[0] not in [sp[0] for sp in g.fn_spans] and prop in failed[k][1]:
                vr.obligations.append(Obligation('%s.V.%s.%s' % (prop, u.NAME, k), 'verus', 'all-N', 'refuted', 0, detail=failed[k][0]))
        vr.functions += ['V:%s %s (%s)' % (u.NAME, f['function'], f['source']) for f in g.functions]
        prelude_part = text[:text.find('// ===== extracted')] if '// ===== extracted' in text else ''
        trusted = sorted(set(re.findall(r'#\[verifier::external_body\]\s*(?://[^\n]*\n\s*)*pub (?:open |closed )?(?:proof |spec )?fn (\w+)', prelude_part)))
        uninterp = sorted(set(re.findall(r'uninterp spec fn (\w+)', prelude_part)))
        vr.extraction[u.NAME] = {'functions': g.functions, 'rules_fired_total': g.rule_stats,
                                 'trusted_primitives_assumed_contracts': trusted, 'uninterpreted_spec_functions': uninterp,
                                 'generated_lines': len(glines), 'what_is_dropped': getattr(u, 'DROPPED', '')}
        body_part = text[text.find('// ===== extracted'):] if '// ===== extracted' in text else text
        vr.assumption_scan[u.NAME] = {k: len(re.findall(k, body_part)) for k in (r'\bassume\(', r'\badmit\(', r'external_body', r'assume_specification', r'verifier::external')}
        if any(vr.assumption_scan[u.NAME].values()):
            vr.undecided.append('unit %s: assumption scan found assume/admit/external_body outside the prelude' % u.NAME)
        if hints_dropped:
            vr.details.setdefault('proof_hints_dropped', []).extend('%s: %s' % (u.NAME, h) for h in hints_dropped)
        vr.vacuity[u.NAME] = {'canary_failed_as_required': True, 'per_function_reachability_canaries_failed_as_required': len(all_canaries), 'verified_functions': res.get('verified'), 'verus_errors': res.get('errors'), 'markers_for_this_property': n_markers}
        log('verus unit %s: verified=%s errors=%s wall=%.1fs' % (u.NAME, res.get('verified'), res.get('errors'), time.time() - t0))
    vr.cmd = '; '.join(cmds)
    return vr

"""Shared plumbing for the /verif checks: scratch copies of /repo's working tree, evidence files, verdicts,
known findings.  Nothing here decides a property; the two engines (kani_engine, verus_engine) do."""
import atexit, json, os, re, shutil, signal, subprocess, sys, time

VERIF = os.path.dirname(os.path.dirname(os.path.abspath(__file__)))
REPO = os.environ.get('VERIF_REPO', '/repo')
SCRATCH_ROOT = os.environ.get('VERIF_SCRATCH', '/var/tmp')
EVIDENCE_DIR = os.path.join(VERIF, 'evidence')
REPLAY_OUT = os.path.join(VERIF, 'replay', 'out')
KNOWN_FINDINGS = os.path.join(VERIF, 'known_findings.txt')

EXIT_OK, EXIT_VIOLATION, EXIT_UNDECIDED = 0, 1, 2

_scratch_dirs = []


def _cleanup(*_a):
    for d in _scratch_dirs:
        shutil.rmtree(d, ignore_errors=True)
    _scratch_dirs.clear()


def _on_signal(signum, _frame):
    _cleanup()
    sys.exit(128 + signum)


atexit.register(_cleanup)
for _s in (signal.SIGINT, signal.SIGTERM, signal.SIGHUP):
    signal.signal(_s, _on_signal)


def make_scratch(tag):
    d = os.path.join(SCRATCH_ROOT, 'ga-verif.%s.%d' % (tag, os.getpid()))
    shutil.rmtree(d, ignore_errors=True)
    os.makedirs(d)
    if os.environ.get('VERIF_KEEP_SCRATCH') != '1':
        _scratch_dirs.append(d)
    return d


def copy_repo(dst):
    """Copy /repo's *current working tree* (not HEAD) without build output and VCS data."""
    subprocess.run(['rsync', '-a', '--exclude', '/target', '--exclude', '/.git', '--exclude', '/benches',
                    '--exclude', '/tests', REPO + '/', dst + '/'], check=True)
    return dst


def repo_state():
    def g(*a):
        try:
            return subprocess.run(['git', '-C', REPO] + list(a), capture_output=True, text=True).stdout.strip()
        except Exception:
            return ''
    return {'head': g('rev-parse', 'HEAD'), 'dirty_files': [l[3:] for l in g('status', '--porcelain').splitlines()]}


class Obligation:
    """One proof obligation, as reported by a back end."""
    __slots__ = ('id', 'backend', 'scope', 'status', 'ms', 'detail', 'harness', 'count')

    def __init__(self, id, backend, scope, status, ms=0, detail='', harness=None, count=1):
        self.id, self.backend, self.scope, self.status = id, backend, scope, status
        self.ms, self.detail, self.harness, self.count = ms, detail, harness, count

    def as_dict(self):
        d = {'id': self.id, 'backend': self.backend, 'scope': self.scope, 'status': self.status, 'solver_ms': self.ms}
        if self.count != 1:
            d['count'] = self.count
        if self.detail:
            d['detail'] = self.detail[:400]
        return d


def load_known_findings():
    """known_findings.txt: `known: property=<id> obligation=<regex> <what fails>` suppresses exactly the obligations
    the regex matches (they are printed as KNOWN-FINDING and do not fail the check); `fixed:` lines suppress nothing."""
    known = []
    if os.path.exists(KNOWN_FINDINGS):
        for line in open(KNOWN_FINDINGS):
            line = line.strip()
            m = re.match(r'known:\s+property=(\S+)\s+obligation=(\S+)\s+(.*)$', line)
            if m:
                known.append({'property': m.group(1), 'pattern': re.compile(m.group(2) + r'\Z'), 'what': m.group(3)})
    return known


def write_evidence(prop, tier, seed, level, coverage, assumptions, wall_s, violations):
    if os.environ.get('VERIF_NO_EVIDENCE') == '1':  # used by tools/mut.py only: runs against a scratch copy must not overwrite evidence
        return
    os.makedirs(EVIDENCE_DIR, exist_ok=True)
    ev = {'property_id': prop, 'tier': tier, 'seed': seed, 'level': level, 'coverage': coverage,
          'assumptions': assumptions, 'wall_s': round(wall_s, 2), 'violations': violations}
    tmp = os.path.join(EVIDENCE_DIR, prop + '.json.tmp')
    with open(tmp, 'w') as f:
        json.dump(ev, f, indent=1, sort_keys=False)
        f.write('\n')
    os.replace(tmp, os.path.join(EVIDENCE_DIR, prop + '.json'))


def run(cmd, cwd=None, env=None, timeout=None, stdin=None):
    e = dict(os.environ)
    e.update({'CARGO_NET_OFFLINE': 'true', 'CARGO_TERM_COLOR': 'never'})
    if env:
        e.update(env)
    t0 = time.time()
    try:
        p = subprocess.run(cmd, cwd=cwd, env=e, capture_output=True, text=True, timeout=timeout, input=stdin,
                           errors='replace')
        return p.returncode, p.stdout, p.stderr, time.time() - t0
    except subprocess.TimeoutExpired as ex:
        out = ex.stdout.decode(errors='replace') if isinstance(ex.stdout, bytes) else (ex.stdout or '')
        err = ex.stderr.decode(errors='replace') if isinstance(ex.stderr, bytes) else (ex.stderr or '')
        return -9, out, err + '\n[verif] TIMEOUT after %ss' % timeout, time.time() - t0


def log(*a):
    print('[verif]', *a, file=sys.stderr, flush=True)

"""Bounded stand-in for unwinding paths (labelled bounded, never counted as proved): Kani has no unwinding, so no
verifier here can execute a panic path.  standin/src/main.rs is built against a scratch copy of /repo's working tree and
really injects a panic at every call index of every closure / Clone / Iterator::next / element destructor for
N in 0..=4 (and out-of-range indices for remove / swap_remove), checking the drop ledger afterwards."""
import os, re, shutil
from common import *

STANDIN_PROPS = ('C02', 'C04', 'C05', 'C06', 'C09', 'C10', 'C11', 'C13', 'C14', 'C15', 'C16', 'C20')
BOUND_UNWIND = 'N in 0..=4; every call index 0..=N of each closure/Clone/next; every single panicking element x every (front, back) iterator position x skip counts {0,1,2,N,usize::MAX}; idx in {N, N+1, usize::MAX} for remove/swap_remove'
BOUNDS = {
    'C02': 'addresses of zero-extent views (CBMC does not model the address of a zero-sized place): element types (), an 8-aligned ZST, [u8; 0], and u32 with N = 0; N in {0, 2, 3}; thirteen view / reinterpretation forms',
    'C10': 'addresses and counts of from_chunks / into_chunks (shared and mutable) over zero-extent chunks: (), 8-aligned ZST, u32 with N = 0; three chunks',
    'C11': 'addresses of by-reference flatten / unflatten (& and &mut) for zero-extent arrays: () 2x3, 8-aligned ZST 3x2, u32 2x0, u8 3x0',
    'C13': 'Debug under the flag sets CBMC cannot run ({:#?} and ten other width / precision / sign / hex / alternate combinations): array versus slice for u8 (N 0,1,3,5), i32, f64 with NaN, String with escapes, nested arrays, Option<u16>',
    'C06': 'Debug of the iterator under {:?}, {:#?}, {:#x?}, {:8.1?}, {:#08?} at every (front, back) position for N <= 5 and six element types, against debug_tuple("GenericArrayIter") of the remaining slice',
    'C14': 'the chunked strategy on the real code (N > 1024 is beyond CBMC): N in {1024, 1025, 2047, 2048, 2049, 3000, 4096}; every precision 0..=2N+2 for 1025 and 2049, otherwise boundary precisions (0..3, N, N+1, 2N-1..2N+7, every multiple of 2048 +-2); both cases; built without and with feature faster-hex',
    'C15': '4 MiB of u8 on a 256 KiB-stack thread, seven boxed constructors / conversions; ' + BOUND_UNWIND,
    'C20': 'a panic in element expression k of arr!/box_arr! list forms with 1, 3, 4 elements (k in 0..=4); box_arr![x; N] for N in {0, 1, 3, 4} with a Clone-but-not-Copy element and a panic in clone k',
}
BOUND = BOUND_UNWIND


def run_standin(prop):
    """-> dict(cases, failed_here=[lines], failed_other, wall_s, error)"""
    if prop not in STANDIN_PROPS:
        return None
    scratch = make_scratch('s' + prop)
    srepo = os.path.join(scratch, 'repo')
    copy_repo(srepo)
    sdir = os.path.join(scratch, 'standin')
    shutil.copytree(os.path.join(VERIF, 'standin'), sdir)
    fails, cases, wall_total = [], 0, 0.0
    feature_sets = [['alloc']] + ([['alloc', 'faster-hex']] if prop == 'C14' else [])
    for fs in feature_sets:
        toml = open(os.path.join(sdir, 'Cargo.toml.in')).read().replace('@REPO@', srepo).replace('features = ["alloc"]', 'features = [%s]' % ', '.join('"%s"' % f for f in fs))
        open(os.path.join(sdir, 'Cargo.toml'), 'w').write(toml)
        markf = os.path.join(scratch, 'current_case.txt')
        open(markf, 'w').write('')
        env = {'CARGO_TARGET_DIR': os.path.join(scratch, 'target-standin'), 'STANDIN_MARK': markf}
        only = {'C06': 'C06', 'C13': 'C13', 'C02': 'C02', 'C10': 'C10', 'C11': 'C11', 'C14': 'C14', 'C20': 'C20'}.get(prop)
        if only:
            env['STANDIN_ONLY'] = only
        rc, out, err, wall = run(['cargo', 'run', '--offline', '-q'], cwd=sdir, env=env, timeout=900)
        wall_total += wall
        m = re.search(r'^CASES (\d+) FAILED (\d+)', out, re.M)
        if not m:
            tail = [l for l in (err or out).splitlines() if l.startswith('error')][:5]
            last = open(markf).read().strip()
            if not tail and last and (rc < 0 or rc >= 128 or 'SIG' in (err or '') or 'panic in a destructor' in (err or '') or 'abort' in (err or '').lower()):
                # the native run died inside a case (signal / abort): on the unchanged tree every case completes, so the
                # case that was running is the failing input
                fails.append('FAIL %s : the native run died inside this case (exit status %s): %s' % (last, rc, ' '.join((err or '').split())[-200:]))
                continue
            return {'error': 'stand-in did not build or run (rc=%s, features %s): %s' % (rc, ','.join(fs), ' | '.join(tail) or (err or out)[-300:]), 'wall_s': wall_total}
        cases += int(m.group(1))
        fl = [l for l in out.splitlines() if l.startswith('FAIL ')]
        fails += [l + (' [features %s]' % ','.join(fs) if len(feature_sets) > 1 else '') for l in fl]
    here = [l for l in fails if 'property=%s ' % prop in l]
    return {'cases': cases, 'failed_total': len(fails), 'failed_here': here, 'wall_s': round(wall_total, 1), 'bound': BOUNDS.get(prop, BOUND)}

"""Bounded stand-in for unwinding paths (labelled bounded, never counted as proved): Kani has no unwinding, so no
verifier here can execute a panic path.  standin/src/main.rs is built against a scratch copy of /repo's working tree and
really injects a panic at every call index of every closure / Clone / Iterator::next / element destructor for
N in 0..=4 (and out-of-range indices for remove / swap_remove), checking the drop ledger afterwards."""
import os, re, shutil
from common import *

STANDIN_PROPS = ('C04', 'C05', 'C09', 'C15', 'C16')
BOUND = 'C15: 4 MiB of u8 on a 256 KiB-stack thread, seven boxed constructors / conversions; otherwise N in 0..=4; every call index 0..=N of each closure/Clone/next; every single panicking element x every (front, back) iterator position x skip counts {0,1,2,N,usize::MAX}; idx in {N, N+1, usize::MAX} for remove/swap_remove'


def run_standin(prop):
    """-> dict(cases, failed_here=[lines], failed_other, wall_s, error)"""
    if prop not in STANDIN_PROPS:
        return None
    scratch = make_scratch('s' + prop)
    srepo = os.path.join(scratch, 'repo')
    copy_repo(srepo)
    sdir = os.path.join(scratch, 'standin')
    shutil.copytree(os.path.join(VERIF, 'standin'), sdir)
    toml = open(os.path.join(sdir, 'Cargo.toml.in')).read().replace('@REPO@', srepo)
    open(os.path.join(sdir, 'Cargo.toml'), 'w').write(toml)
    rc, out, err, wall = run(['cargo', 'run', '--offline', '-q'], cwd=sdir, env={'CARGO_TARGET_DIR': os.path.join(scratch, 'target-standin')}, timeout=900)
    m = re.search(r'^CASES (\d+) FAILED (\d+)', out, re.M)
    if not m:
        tail = [l for l in (err or out).splitlines() if l.startswith('error')][:5]
        return {'error': 'stand-in did not build or run (rc=%s): %s' % (rc, ' | '.join(tail) or (err or out)[-300:]), 'wall_s': wall}
    fails = [l for l in out.splitlines() if l.startswith('FAIL ')]
    here = [l for l in fails if 'property=%s ' % prop in l]
    counted = len([1 for _ in here])
    return {'cases': int(m.group(1)), 'failed_total': int(m.group(2)), 'failed_here': here, 'wall_s': round(wall, 1), 'bound': BOUND}

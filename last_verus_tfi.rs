use vstd::prelude::*;
verus! {

// ===================== engine-V prelude: common (TRUSTED; the only place external_body may appear) =====================
// Type-level lengths: rule R-len maps `N::USIZE` to `N::usize_()`; `n()` is the mathematical length.
pub trait ArrayLength { spec fn n() -> usize; fn usize_() -> (r: usize) ensures r == Self::n(); }

pub open spec fn min_spec(a: usize, b: usize) -> usize { if a <= b { a } else { b } }
// core::cmp::min on usize (rule R-misc)
pub fn cmp_min(a: usize, b: usize) -> (r: usize) ensures r == min_spec(a, b) { if a <= b { a } else { b } }

// rule R-panic: a function that may panic returns PanicOr; `ret is Panic <==> ..` is then an ordinary postcondition
pub enum PanicOr<R> { Panic, Ret(R) }

// ===================== engine-V prelude: slot ledger (TRUSTED) =====================
// Rule R-slots: a field or local of type GenericArray<T,N> / ManuallyDrop<..> / GenericArray<MaybeUninit<T>,N> becomes
// `Slots<T,N>`, whose view is Seq<Option<T>>: Some(v) = slot initialised and owned here, None = uninitialised / moved out /
// dropped.  "At most once" is a PRECONDITION of every primitive; "at least once" is the forget / function-exit obligation.
#[verifier::external_body]
#[verifier::accept_recursive_types(T)]
#[verifier::accept_recursive_types(N)]
pub struct Slots<T, N> { _p: core::marker::PhantomData<(T, N)> }

// a borrowed sub-slice of a Slots block: (lo, hi) element range; produced by rule R-view
pub struct SliceRange { pub lo: usize, pub hi: usize }

impl<T, N: ArrayLength> Slots<T, N> {
    pub uninterp spec fn view(&self) -> Seq<Option<T>>;

    pub open spec fn ok(&self) -> bool { self.view().len() == N::n() }
    pub open spec fn live(&self, k: int) -> bool { self.view()[k].is_some() }
    pub open spec fn all_dead(&self) -> bool { forall|k: int| 0 <= k < N::n() ==> (#[trigger] self.view()[k]).is_none() }
    pub open spec fn all_live(&self) -> bool { forall|k: int| 0 <= k < N::n() ==> (#[trigger] self.view()[k]).is_some() }
    pub open spec fn live_in(&self, lo: int, hi: int) -> bool { forall|k: int| lo <= k < hi ==> (#[trigger] self.view()[k]).is_some() }

    // R-read: ptr::read(X.get_unchecked(i)) - moves the value out of slot i
    #[verifier::external_body]
    pub fn take(&mut self, i: usize) -> (r: T)
        requires old(self).ok(), i < N::n(), old(self).live(i as int),
        ensures final(self).view() == old(self).view().update(i as int, None), r == old(self).view()[i as int].unwrap(),
    { unimplemented!() }

    // R-write: ptr::write(dst, v) / dst.write(v) - slot must not hold an owned value (it would be overwritten without drop)
    #[verifier::external_body]
    pub fn put(&mut self, i: usize, v: T)
        requires old(self).ok(), i < N::n(), !old(self).live(i as int),
        ensures final(self).view() == old(self).view().update(i as int, Some(v)),
    { unimplemented!() }

    // shared read of slot i
    #[verifier::external_body]
    pub fn peek(&self, i: usize) -> (r: &T)
        requires self.ok(), i < N::n(), self.live(i as int),
        ensures *r == self.view()[i as int].unwrap(),
    { unimplemented!() }

    // R-dip: ptr::drop_in_place(X.get_unchecked_mut(lo..hi)) - runs the destructors of slots [lo, hi)
    #[verifier::external_body]
    pub fn drop_range(&mut self, lo: usize, hi: usize)
        requires old(self).ok(), lo <= hi <= N::n(), old(self).live_in(lo as int, hi as int),
        ensures final(self).ok(),
                forall|k: int| 0 <= k < N::n() ==> #[trigger] final(self).view()[k] == (if lo <= k < hi { None } else { old(self).view()[k] }),
    { unimplemented!() }

    // R-view: X.get_unchecked(lo..hi) / get_unchecked_mut(lo..hi): the range must lie inside the block and be initialised
    #[verifier::external_body]
    pub fn range(&self, lo: usize, hi: usize) -> (r: SliceRange)
        requires self.ok(), lo <= hi <= N::n(), self.live_in(lo as int, hi as int),
        ensures r.lo == lo, r.hi == hi,
    { unimplemented!() }

    // ptr::read(&self.array) of a ManuallyDrop array: bitwise copy whose slots are owned by nobody yet
    #[verifier::external_body]
    pub fn bitcopy_dead(&self) -> (r: Self)
        requires self.ok(),
        ensures r.ok(), r.all_dead(),
    { unimplemented!() }

    // R-forget: mem::forget of the owner - a leak unless nothing is live
    #[verifier::external_body]
    pub fn forget(self)
        requires self.ok(), self.all_dead(),
    { unimplemented!() }
}

// ===================== engine-V prelude: construction (TRUSTED) =====================
impl<T, N: ArrayLength> Slots<T, N> {
    // GenericArray::uninit(): a block of N uninitialised slots
    #[verifier::external_body]
    pub fn uninit() -> (r: Self) ensures r.ok(), r.all_dead() { unimplemented!() }

    // a MaybeUninit array going out of scope is not dropped: anything still live in it is leaked
    pub fn scope_exit_unowned(&self) requires self.ok(), self.all_dead() {}
}

// the finished array: a fully live block
pub struct GenericArray<T, N: ArrayLength> { pub slots: Slots<T, N> }
impl<T, N: ArrayLength> GenericArray<T, N> {
    pub open spec fn elems(&self) -> Seq<T> { Seq::new(N::n() as nat, |k: int| self.slots.view()[k].unwrap()) }
}
// ptr::read(&array as *const _ as *const MaybeUninit<GenericArray<T, N>>).assume_init(): UB unless every slot is initialised
#[verifier::external_body]
pub fn assume_init_read<T, N: ArrayLength>(array: Slots<T, N>) -> (r: GenericArray<T, N>)
    requires array.ok(), array.all_live(),
    ensures r.slots == array,
{ unimplemented!() }

// Box::<GenericArray<MaybeUninit<T>, N>>::new_uninit().assume_init(): std allocates (or ends in handle_alloc_error - assumed
// contract of Box::new_uninit) and the Box owns the block; for the slot ledger a boxed block is a block (rule R-box)
#[verifier::external_body]
pub fn box_new_uninit<T, N: ArrayLength>() -> (r: Slots<T, N>) ensures r.ok(), r.all_dead() { unimplemented!() }
// Box::from_raw(Box::into_raw(array).cast()): reinterprets Box<[MaybeUninit<T>; N]> as Box<[T; N]> - UB unless all initialised
#[verifier::external_body]
pub fn box_assume_init<T, N: ArrayLength>(array: Slots<T, N>) -> (r: GenericArray<T, N>)
    requires array.ok(), array.all_live(),
    ensures r.slots == array,
{ unimplemented!() }

pub struct LengthError;

// caller-supplied iterator (rule R-foreign): opaque; its ghost state is everything it has returned so far, so sources
// that are not fused, and every item count, are covered by quantification
pub trait ForeignIter<T> {
    spec fn returned(&self) -> Seq<Option<T>>;
    spec fn hint(&self) -> (usize, Option<usize>);
    // whatever the iterator's owner needs preserved across polls, and ghost data that stays fixed (used by the closure
    // conversion of lazy adapter pipelines, rule R-pipe; an opaque caller-supplied iterator may choose `true` / `()`)
    spec fn inv(&self) -> bool;
    type K;
    spec fn konst(&self) -> Self::K;
    fn next(&mut self) -> (r: Option<T>)
        requires old(self).inv(),
        ensures final(self).inv(), final(self).konst() == old(self).konst(), final(self).returned() == old(self).returned().push(r);
    fn size_hint(&self) -> (r: (usize, Option<usize>)) requires self.inv(), ensures r == self.hint();
}
pub open spec fn polled_after_none<T>(s: Seq<Option<T>>) -> bool {
    exists|i: int| 0 <= i < s.len() - 1 && (#[trigger] s[i]).is_none()
}

// ===================== engine-V prelude: caller-supplied code (TRUSTED) =====================
// Rule R-foreign: a call of a closure parameter / Clone::clone / Iterator::next becomes a method of an opaque object:
// arbitrary result, the call is appended to a ghost log.  Every such call is an unwind point.
pub trait Foreign2<A, B, R> {
    spec fn log(&self) -> Seq<(A, B, R)>;
    fn call(&mut self, a: A, b: B) -> (r: R)
        ensures final(self).log() == old(self).log().push((a, b, r));
}
pub trait ForeignClone: Sized {
    spec fn cloned(&self, r: Self) -> bool;
    fn clone_(&self) -> (r: Self) ensures self.cloned(r);
}
pub trait Foreign1<A, R> {
    spec fn log(&self) -> Seq<(A, R)>;
    fn call(&mut self, a: A) -> (r: R)
        ensures final(self).log() == old(self).log().push((a, r));
}


// ===== extracted: src/internal.rs IntrusiveArrayBuilder =====
// rule R-guard: `array: &'a mut GenericArray<MaybeUninit<T>, N>` becomes the owned slot block
pub struct IntrusiveArrayBuilder<T, N: ArrayLength> { pub array: Slots<T, N>, pub position: usize }

impl<T, N: ArrayLength> IntrusiveArrayBuilder<T, N> {
    // the guard's invariant: exactly the first `position` slots are initialised
    pub open spec fn wf(&self) -> bool {
        &&& self.position <= N::n()
        &&& self.array.ok()
        &&& forall|k: int| 0 <= k < N::n() ==> ((#[trigger] self.array.view()[k]).is_some() <==> k < self.position)
    }
    pub open spec fn built(&self) -> Seq<T> { Seq::new(self.position as nat, |k: int| self.array.view()[k].unwrap()) }

    // extracted from src/internal.rs:115  `fn new( array: &'a mut GenericArray<MaybeUninit<T>, N>, ) -> IntrusiveArrayBuilder<'a, T, N>`
    pub fn new(array: Slots<T, N>) -> (r: Self)
        requires
            array.ok(),
            array.all_dead(),
        ensures
            r.wf() && r.position == 0, /*OB:new.post.wf:C03,C04,C07,C17*/
    {
        IntrusiveArrayBuilder {
            array, position: 0
        }
    }
    proof fn reach_new(array: Slots<T, N>) requires array.ok(), array.all_dead(), { assert(false); } /*OB:canary.new:*/

    // extracted from src/internal.rs:127  `fn extend(&mut self, source: impl Iterator<Item = T>)`
    pub fn extend<I: ForeignIter<T>>(&mut self, source: &mut I)
        requires
            old(self).wf(),
            old(self).position == 0,
            !polled_after_none(old(source).returned()),
            old(source).inv(),
        ensures
            final(self).wf(), /*OB:extend.post.wf:C03,C04*/
            final(source).inv() && final(source).konst() == old(source).konst(), /*OB:extend.post.source-inv:C04,C07*/
            final(source).returned().len() == old(source).returned().len() + final(self).position + (if final(self).position < N::n() { 1int } else { 0int }), /*OB:extend.post.polls:C07*/
            final(source).returned().subrange(0, old(source).returned().len() as int) == old(source).returned(), /*OB:extend.post.prefix:C07*/
            forall|k: int| 0 <= k < final(self).position ==> (#[trigger] final(source).returned()[old(source).returned().len() + k]) == Some(final(self).built()[k]), /*OB:extend.post.in-order:C07*/
            final(self).position < N::n() ==> final(source).returned().last().is_none(), /*OB:extend.post.stops-at-none:C07*/
    {
        let ghost r0 = source.returned();
        let mut __k: usize = 0;
        loop invariant_except_break self.wf(), self.position == __k, __k <= N::n(), source.returned().len() == r0.len() + __k, source.returned().subrange(0, r0.len() as int) == r0, forall|j: int| 0 <= j < __k ==> (#[trigger] source.returned()[r0.len() + j]) == Some(self.built()[j]), invariant source.inv(), source.konst() == old(source).konst(), ensures self.wf(), source.returned().len() == r0.len() + self.position + (if self.position < N::n() { 1int } else { 0int }), source.returned().subrange(0, r0.len() as int) == r0, forall|j: int| 0 <= j < self.position ==> (#[trigger] source.returned()[r0.len() + j]) == Some(self.built()[j]), self.position < N::n() ==> source.returned().last().is_none(), decreases N::n() - __k, {
            if __k >= N::usize_() {
                break;
            }
            proof {
                assert(self.wf()) /*OB:extend.unwind@source.next:C04*/;
            }
            let ghost rb = source.returned();
            let ghost bb = self.built();
            let src = match source.next() {
                Some(s) => s, None => {
                    proof {
                        assert(source.returned().subrange(0, r0.len() as int) =~= r0);
                    }
                    break;
                }
            };
            self.array.put(__k, src);
            self.position += 1;
            __k += 1;
            proof {
                assert(source.returned().subrange(0, r0.len() as int) =~= r0);
                assert forall|j: int| 0 <= j < __k implies (#[trigger] source.returned()[r0.len() + j]) == Some(self.built()[j]) by {
                    if j < __k - 1 {
                        assert(self.built()[j] == bb[j]);
                        assert(source.returned()[r0.len() + j] == rb[r0.len() + j]);
                    }
                }
            }
        }
    }
    proof fn reach_extend<I: ForeignIter<T>>(self, source: I) requires self.wf(), self.position == 0, !polled_after_none(source.returned()), source.inv(), { assert(false); } /*OB:canary.extend:*/

    // extracted from src/internal.rs:138  `fn is_full(&self) -> bool`
    pub fn is_full(&self) -> (r: bool)
        ensures
            r == (self.position == N::n()), /*OB:is_full.post.full:C04,C07*/
    {
        self.position == N::usize_()
    }

    // extracted from src/internal.rs:174  `fn finish(self)`
    pub fn finish(self) -> (r: Slots<T, N>)
        requires
            self.wf(),
            self.position == N::n(),
        ensures
            r == self.array, /*OB:finish.post.hands-back:C03,C04,C07,C17*/
    {
        assert(self.position == N::n()) /*OB:finish.debug-assertion-builder-is-full:C04*/;
        self.array
    }
    proof fn reach_finish(self) requires self.wf(), self.position == N::n(), { assert(false); } /*OB:canary.finish:*/

    // extracted from src/internal.rs:187  `fn drop(&mut self)`
    pub fn drop_impl(&mut self)
        requires
            old(self).wf(),
        ensures
            final(self).array.ok() && final(self).array.all_dead(), /*OB:drop_impl.post.releases-prefix:C03,C04,C07,C17*/
    {
        {
            self.array.drop_range(0, self.position);
        }
    }
    proof fn reach_drop_impl(self) requires self.wf(), { assert(false); } /*OB:canary.drop_impl:*/

}

    // extracted from src/internal.rs:181  `fn array_assume_init(array: GenericArray<MaybeUninit<T>, N>) -> GenericArray<T, N>`
    pub fn array_assume_init<T, N: ArrayLength>(array: Slots<T, N>) -> (r: GenericArray<T, N>)
        requires
            array.ok(),
            array.all_live(),
        ensures
            r.slots == array, /*OB:array_assume_init.post.same:C04,C07,C17*/
    {
        assume_init_read(array)
    }
    proof fn reach_array_assume_init<T, N: ArrayLength>(array: Slots<T, N>) requires array.ok(), array.all_live(), { assert(false); } /*OB:canary.array_assume_init:*/

    // extracted from src/lib.rs:957  `fn try_from_iter<I>(iter: I) -> Result<Self, LengthError> where I: IntoIterator<Item = T>,`
    pub fn try_from_iter<T, N: ArrayLength, I: ForeignIter<T>>(iter: &mut I) -> (ret: Result<GenericArray<T, N>, LengthError>)
        requires
            old(iter).returned().len() == 0,
            old(iter).inv(),
        ensures
            final(iter).inv() && final(iter).konst() == old(iter).konst(), /*OB:try_from_iter.post.source-inv:C04,C07*/
            final(iter).returned().len() <= N::n() + 1, /*OB:try_from_iter.post.at-most-N+1-polls:C07*/
            !polled_after_none(final(iter).returned()), /*OB:try_from_iter.post.never-polled-after-None:C07*/
            ret is Ok ==> final(iter).returned().len() == N::n() + 1 && final(iter).returned().last().is_none() && forall|k: int| 0 <= k < N::n() ==> (#[trigger] final(iter).returned()[k]) == Some(ret->Ok_0.elems()[k]), /*OB:try_from_iter.post.ok-means-exactly-N-in-order:C07,C04*/
            ret is Err ==> ( old(iter).hint().0 > N::n() || (old(iter).hint().1 is Some && old(iter).hint().1->Some_0 < N::n()) || (exists|k: int| 0 <= k < final(iter).returned().len() && k < N::n() && (#[trigger] final(iter).returned()[k]).is_none()) || (final(iter).returned().len() == N::n() + 1 && final(iter).returned().last().is_some()) ), /*OB:try_from_iter.post.err-only-with-a-reason:C07*/
    {
        match iter.size_hint() {
            (n, _) if n > N::usize_() => return Err(LengthError), (_, Some(n)) if n < N::usize_() => return Err(LengthError), _ => {
            }
        }
        {
            let array = Slots::uninit();
            let mut builder = IntrusiveArrayBuilder::new(array);
            builder.extend(iter);
            proof {
                assert forall|k: int| 0 <= k < builder.position implies (#[trigger] iter.returned()[k]).is_some() by {
                    assert(iter.returned()[0 + k] == Some(builder.built()[k]));
                }
            }
            let ghost r1 = iter.returned();
            let ghost b1 = builder.built();
            let ghost p1 = builder.position;
            if !builder.is_full() || ({ proof { assert(builder.wf()) /*OB:try_from_iter.unwind@iter.next:C04*/; } iter.next() }).is_some() {
                {
                    proof {
                        if p1 < N::n() {
                            assert(iter.returned()[p1 as int].is_none());
                            assert(iter.returned() == r1);
                        }  else {
                            assert(iter.returned().len() == N::n() + 1);
                            assert forall|k: int| 0 <= k < N::n() implies (#[trigger] iter.returned()[k]).is_some() by {
                                assert(iter.returned()[k] == r1[k]);
                            }
                        }
                    }
                    {
                        builder.drop_impl();
                        return Err(LengthError)
                    }
                };
            }
            Ok({ let array = builder.finish(); ({ proof { assert(array.all_live()); assert forall|k: int| 0 <= k < N::n() implies (#[trigger] iter.returned()[k]) == Some(array.view()[k].unwrap()) by { assert(iter.returned()[k] == r1[k]); assert(r1[0 + k] == Some(b1[k])); } } array_assume_init(array) }) })
        }
    }
    proof fn reach_try_from_iter<T, N: ArrayLength, I: ForeignIter<T>>(iter: I) requires iter.returned().len() == 0, iter.inv(), { assert(false); } /*OB:canary.try_from_iter:*/

    // extracted from src/lib.rs:508  `fn generate<F>(mut f: F) -> GenericArray<T, N> where F: FnMut(usize) -> T,`
    pub fn generate<T, N: ArrayLength, F: Foreign1<usize, T>>(f: &mut F) -> (ret: GenericArray<T, N>)
        requires
            old(f).log().len() == 0,
        ensures
            final(f).log().len() == N::n(), /*OB:generate.post.n-calls:C08*/
            forall|k: int| 0 <= k < N::n() ==> (#[trigger] final(f).log()[k]).0 == k && ret.elems()[k] == final(f).log()[k].1, /*OB:generate.post.ascending-and-stored-at-index:C08*/
    {
        {
            let array = Slots::uninit();
            let mut builder = IntrusiveArrayBuilder::new(array);
            {
                let mut __i: usize = 0;
                while __i < N::usize_() invariant builder.wf(), builder.position == __i, __i <= N::n(), f.log().len() == __i, forall|j: int| 0 <= j < __i ==> (#[trigger] f.log()[j]).0 == j && f.log()[j].1 == builder.built()[j], decreases N::n() - __i, {
                    let ghost lb = f.log();
                    let ghost bb = builder.built();
                    let i = __i;
                    proof {
                        assert(builder.wf()) /*OB:generate.unwind@f:C04*/;
                    }
                    let __v = f.call(i);
                    builder.array.put(__i, __v);
                    builder.position += 1;
                    __i += 1;
                    proof {
                        assert forall|j: int| 0 <= j < __i implies (#[trigger] f.log()[j]).0 == j && f.log()[j].1 == builder.built()[j] by {
                            if j < __i - 1 {
                                assert(f.log()[j] == lb[j]);
                                assert(builder.built()[j] == bb[j]);
                            }
                        }
                    }
                }
            }
            let ghost b1 = builder.built();
            let array = builder.finish();
            ({ proof { assert(array.all_live()); assert forall|k: int| 0 <= k < N::n() implies array.view()[k].unwrap() == (#[trigger] f.log()[k]).1 by { assert(f.log()[k].1 == b1[k]); } } array_assume_init(array) })
        }
    }
    proof fn reach_generate<T, N: ArrayLength, F: Foreign1<usize, T>>(f: F) requires f.log().len() == 0, { assert(false); } /*OB:canary.generate:*/

    // extracted from src/impl_alloc.rs:165  `fn generate<F>(mut f: F) -> Self::Sequence where F: FnMut(usize) -> T,`
    pub fn generate_boxed<T, N: ArrayLength, F: Foreign1<usize, T>>(f: &mut F) -> (ret: GenericArray<T, N>)
        requires
            old(f).log().len() == 0,
        ensures
            final(f).log().len() == N::n(), /*OB:generate_boxed.post.n-calls:C08*/
            forall|k: int| 0 <= k < N::n() ==> (#[trigger] final(f).log()[k]).0 == k && ret.elems()[k] == final(f).log()[k].1, /*OB:generate_boxed.post.ascending-and-stored-at-index:C08*/
    {
        {
            let array = box_new_uninit();
            let mut builder = IntrusiveArrayBuilder::new(array);
            {
                let mut __i: usize = 0;
                while __i < N::usize_() invariant builder.wf(), builder.position == __i, __i <= N::n(), f.log().len() == __i, forall|j: int| 0 <= j < __i ==> (#[trigger] f.log()[j]).0 == j && f.log()[j].1 == builder.built()[j], decreases N::n() - __i, {
                    let ghost lb = f.log();
                    let ghost bb = builder.built();
                    let i = __i;
                    proof {
                        assert(builder.wf()) /*OB:generate_boxed.unwind@f:C04*/;
                    }
                    let __v = f.call(i);
                    builder.array.put(__i, __v);
                    builder.position += 1;
                    __i += 1;
                    proof {
                        assert forall|j: int| 0 <= j < __i implies (#[trigger] f.log()[j]).0 == j && f.log()[j].1 == builder.built()[j] by {
                            if j < __i - 1 {
                                assert(f.log()[j] == lb[j]);
                                assert(builder.built()[j] == bb[j]);
                            }
                        }
                    }
                }
            }
            let ghost b1 = builder.built();
            let array = builder.finish();
            ({ proof { assert(array.all_live()); assert forall|k: int| 0 <= k < N::n() implies array.view()[k].unwrap() == (#[trigger] f.log()[k]).1 by { assert(f.log()[k].1 == b1[k]); } } box_assume_init(array) })
        }
    }
    proof fn reach_generate_boxed<T, N: ArrayLength, F: Foreign1<usize, T>>(f: F) requires f.log().len() == 0, { assert(false); } /*OB:canary.generate_boxed:*/

// ===== extracted: src/internal.rs ArrayConsumer =====
// rule R-slots: `array: ManuallyDrop<GenericArray<T, N>>` becomes the slot ledger
pub struct ArrayConsumer<T, N: ArrayLength> { pub array: Slots<T, N>, pub position: usize }
impl<T, N: ArrayLength> ArrayConsumer<T, N> {
    // the guard's invariant: exactly the slots from `position` on are still owned
    pub open spec fn wf(&self) -> bool {
        &&& self.position <= N::n()
        &&& self.array.ok()
        &&& forall|k: int| 0 <= k < N::n() ==> ((#[trigger] self.array.view()[k]).is_some() <==> k >= self.position)
    }

    // extracted from src/internal.rs:210  `fn new(array: GenericArray<T, N>) -> ArrayConsumer<T, N>`
    pub fn new(array: GenericArray<T, N>) -> (r: Self)
        requires
            array.slots.ok(),
            array.slots.all_live(),
        ensures
            r.wf() && r.position == 0 && r.array == array.slots, /*OB:consumer_new.post.wf:C03,C04*/
    {
        ArrayConsumer {
            array: array.slots, position: 0,
        }
    }
    proof fn reach_new(array: GenericArray<T, N>) requires array.slots.ok(), array.slots.all_live(), { assert(false); } /*OB:canary.consumer_new:*/

    // extracted from src/internal.rs:228  `fn drop(&mut self)`
    pub fn drop_impl(&mut self)
        requires
            old(self).wf(),
        ensures
            final(self).array.ok() && final(self).array.all_dead(), /*OB:consumer_drop.post.releases-unconsumed:C03,C04*/
    {
        {
            self.array.drop_range(self.position, N::usize_());
        }
    }
    proof fn reach_drop_impl(self) requires self.wf(), { assert(false); } /*OB:canary.consumer_drop:*/

}

    // extracted from src/lib.rs:483  `fn from_iter<I>(iter: I) -> GenericArray<T, N> where I: IntoIterator<Item = T>,`
    pub fn from_iter<T, N: ArrayLength, I: ForeignIter<T>>(iter: &mut I) -> (ret: PanicOr<GenericArray<T, N>>)
        requires
            old(iter).returned().len() == 0,
            old(iter).inv(),
        ensures
            final(iter).inv() && final(iter).konst() == old(iter).konst(), /*OB:from_iter.post.source-inv:C04,C07*/
            final(iter).returned().len() <= N::n() + 1 && !polled_after_none(final(iter).returned()), /*OB:from_iter.post.polls:C07*/
            ret is Ret ==> final(iter).returned().len() == N::n() + 1 && final(iter).returned().last().is_none() && forall|k: int| 0 <= k < N::n() ==> (#[trigger] final(iter).returned()[k]) == Some(ret->Ret_0.elems()[k]), /*OB:from_iter.post.returns-means-exactly-N-in-order:C07*/
            ret is Panic ==> ( old(iter).hint().0 > N::n() || (old(iter).hint().1 is Some && old(iter).hint().1->Some_0 < N::n()) || (exists|k: int| 0 <= k < final(iter).returned().len() && k < N::n() && (#[trigger] final(iter).returned()[k]).is_none()) || (final(iter).returned().len() == N::n() + 1 && final(iter).returned().last().is_some()) ), /*OB:from_iter.post.panics-only-with-a-reason:C07*/
    {
        match try_from_iter::<T, N, I>(iter) {
            Ok(res) => PanicOr::Ret(res), Err(_) => PanicOr::Panic,
        }
    }
    proof fn reach_from_iter<T, N: ArrayLength, I: ForeignIter<T>>(iter: I) requires iter.returned().len() == 0, iter.inv(), { assert(false); } /*OB:canary.from_iter:*/

    // extracted from src/lib.rs:652  `fn fold<U, F>(self, init: U, mut f: F) -> U where F: FnMut(U, T) -> U,`
    pub fn fold<T, U, N: ArrayLength, F: Foreign2<U, T, U>>(this: GenericArray<T, N>, init: U, f: &mut F) -> (ret: U)
        requires
            this.slots.ok(),
            this.slots.all_live(),
            old(f).log().len() == 0,
        ensures
            final(f).log().len() == N::n(), /*OB:fold.post.once-per-index:C08*/
            forall|k: int| 0 <= k < N::n() ==> (#[trigger] final(f).log()[k]).1 == this.elems()[k], /*OB:fold.post.ascending:C08*/
            (N::n() == 0 ==> ret == init) && (N::n() > 0 ==> final(f).log()[0].0 == init && ret == final(f).log().last().2) && forall|k: int| 0 < k < N::n() ==> (#[trigger] final(f).log()[k]).0 == final(f).log()[k - 1].2, /*OB:fold.post.left-fold:C08*/
    {
        let ghost e0 = this.elems();
        {
            let mut source = ArrayConsumer::new(this);
            {
                let mut acc = init;
                let mut __k: usize = 0;
                while __k < N::usize_() invariant source.wf(), source.position == __k, __k <= N::n(), forall|j: int| __k <= j < N::n() ==> (#[trigger] source.array.view()[j]) == Some(e0[j]), f.log().len() == __k, forall|j: int| 0 <= j < __k ==> (#[trigger] f.log()[j]).1 == e0[j], __k == 0 ==> acc == init, __k > 0 ==> f.log()[0].0 == init && acc == f.log().last().2, forall|j: int| 0 < j < __k ==> (#[trigger] f.log()[j]).0 == f.log()[j - 1].2, decreases N::n() - __k, {
                    let src = __k;
                    let value = source.array.take(src);
                    source.position += 1;
                    proof {
                        assert(source.wf()) /*OB:fold.unwind@closure:C04*/;
                        assert(value == e0[__k as int]);
                    }
                    acc = f.call(acc, value);
                    __k += 1;
                }
                let __ret = acc;
                source.drop_impl();
                __ret
            }
        }
    }
    proof fn reach_fold<T, U, N: ArrayLength, F: Foreign2<U, T, U>>(this: GenericArray<T, N>, init: U, f: F) requires this.slots.ok(), this.slots.all_live(), f.log().len() == 0, { assert(false); } /*OB:canary.fold:*/


// ===== closure conversion (rule R-pipe) of the pipeline in FunctionalSequence::map =====
//   fields = the captured variables (the consumer that iter_position() aliases, the closure), k = cursor of the slice
//   iterator; next() = slice::Iter::next followed by the closure body VERBATIM (modulo R-read and the alias substitution)
pub struct MapPipe<T, U, N: ArrayLength, F: Foreign1<T, U>> {
    pub source: ArrayConsumer<T, N>,
    pub k: usize,
    pub f: F,
    pub ret: Ghost<Seq<Option<U>>>,
    pub elems0: Ghost<Seq<T>>,
    pub _u: core::marker::PhantomData<U>,
}
impl<T, U, N: ArrayLength, F: Foreign1<T, U>> ForeignIter<U> for MapPipe<T, U, N, F> {
    type K = Seq<T>;
    open spec fn konst(&self) -> Seq<T> { self.elems0@ }
    open spec fn returned(&self) -> Seq<Option<U>> { self.ret@ }
    open spec fn hint(&self) -> (usize, Option<usize>) { ((N::n() - self.k) as usize, Some((N::n() - self.k) as usize)) }
    open spec fn inv(&self) -> bool {
        &&& self.source.wf() && self.k <= N::n() && self.elems0@.len() == N::n()
        &&& (self.k < N::n() ==> self.source.position == self.k)
        &&& (self.k == N::n() ==> self.source.position == N::n())
        &&& forall|j: int| self.source.position <= j < N::n() ==> (#[trigger] self.source.array.view()[j]) == Some(self.elems0@[j])
        &&& self.f.log().len() == self.source.position
        &&& forall|j: int| 0 <= j < self.source.position ==> (#[trigger] self.f.log()[j]).0 == self.elems0@[j]
        &&& self.ret@.len() >= self.source.position
        &&& forall|j: int| 0 <= j < self.source.position ==> (#[trigger] self.ret@[j]) == Some(self.f.log()[j].1)
        &&& forall|j: int| self.source.position <= j < self.ret@.len() ==> (#[trigger] self.ret@[j]).is_none()
        &&& (self.ret@.len() > self.source.position ==> self.k == N::n())
    }
    fn next(&mut self) -> (r: Option<U>)
    {
        if self.k >= N::usize_() {
            proof { self.ret = Ghost(self.ret@.push(None)); }
            return None;
        }
        let src = self.k;
        self.k += 1;

        let value = self.source.array.take(src);
        self.source.position += 1;
        proof {
            assert(self.source.wf()) /*OB:map.unwind@closure:C04*/;
        }
        let r = self.f.call(value);
        proof {
            self.ret = Ghost(self.ret@.push(Some(r)));
        }
        Some(r)
    }
    fn size_hint(&self) -> (r: (usize, Option<usize>)) { (N::usize_() - self.k, Some(N::usize_() - self.k)) }
}

    // extracted from src/lib.rs:620  `fn map<U, F>(self, mut f: F) -> MappedSequence<Self, T, U> where Self: MappedGenericSequence<T, U>, F: FnMut(T) -> U,`
    pub fn map<T, U, N: ArrayLength, F: Foreign1<T, U>>(this: GenericArray<T, N>, f: F) -> (ret: (PanicOr<GenericArray<U, N>>, F))
        requires
            this.slots.ok(),
            this.slots.all_live(),
            f.log().len() == 0,
        ensures
            ret.0 is Ret, /*OB:map.post.never-the-length-panic:C08*/
            ret.1.log().len() == N::n(), /*OB:map.post.once-per-index:C08*/
            forall|k: int| 0 <= k < N::n() ==> (#[trigger] ret.1.log()[k]).0 == this.elems()[k], /*OB:map.post.ascending:C08*/
            forall|k: int| 0 <= k < N::n() ==> (#[trigger] ret.0->Ret_0.elems()[k]) == ret.1.log()[k].1, /*OB:map.post.result-k-at-index-k:C08*/
    {
        let ghost e0 = this.elems();
        {
            let source = ArrayConsumer::new(this);
            {
                let mut pipe = MapPipe {
                    source: source, k: 0, f: f, ret: Ghost(Seq::empty()), elems0: Ghost(e0), _u: core::marker::PhantomData
                };
                proof {
                    assert(pipe.inv());
                }
                let r = from_iter::<U, N, MapPipe<T, U, N, F>>(&mut pipe);
                proof {
                    assert(pipe.elems0@ == e0);
                    assert(pipe.source.position == N::n());
                    assert forall|k: int| 0 <= k < N::n() implies (#[trigger] r->Ret_0.elems()[k]) == pipe.f.log()[k].1 by {
                        assert(pipe.returned()[k] == Some(r->Ret_0.elems()[k]));
                        assert(pipe.ret@[k] == Some(pipe.f.log()[k].1));
                    }
                }
                let MapPipe {
                    source, k: _, f, ret: _, elems0: _, _u: _
                }
                = pipe;
                let mut source = source;
                source.drop_impl();
                (r, f)
            }
        }
    }
    proof fn reach_map<T, U, N: ArrayLength, F: Foreign1<T, U>>(this: GenericArray<T, N>, f: F) requires this.slots.ok(), this.slots.all_live(), f.log().len() == 0, { assert(false); } /*OB:canary.map:*/


// ===== closure conversion (rule R-pipe) of the two pipelines in GenericArray::inverted_zip =====
pub struct ZipPipe<B, T, U, N: ArrayLength, F: Foreign2<B, T, U>> {
    pub left: ArrayConsumer<B, N>, pub right: ArrayConsumer<T, N>, pub k: usize, pub f: F,
    pub ret: Ghost<Seq<Option<U>>>, pub la0: Ghost<Seq<B>>, pub ra0: Ghost<Seq<T>>, pub _u: core::marker::PhantomData<U>,
}
impl<B, T, U, N: ArrayLength, F: Foreign2<B, T, U>> ForeignIter<U> for ZipPipe<B, T, U, N, F> {
    type K = (Seq<B>, Seq<T>);
    open spec fn konst(&self) -> (Seq<B>, Seq<T>) { (self.la0@, self.ra0@) }
    open spec fn returned(&self) -> Seq<Option<U>> { self.ret@ }
    open spec fn hint(&self) -> (usize, Option<usize>) { ((N::n() - self.k) as usize, Some((N::n() - self.k) as usize)) }
    open spec fn inv(&self) -> bool {
        &&& self.left.wf() && self.right.wf() && self.k <= N::n() && self.la0@.len() == N::n() && self.ra0@.len() == N::n()
        &&& self.left.position == self.right.position
        &&& (self.k < N::n() ==> self.left.position == self.k)
        &&& (self.k == N::n() ==> self.left.position == N::n())
        &&& forall|j: int| self.left.position <= j < N::n() ==> (#[trigger] self.left.array.view()[j]) == Some(self.la0@[j])
        &&& forall|j: int| self.right.position <= j < N::n() ==> (#[trigger] self.right.array.view()[j]) == Some(self.ra0@[j])
        &&& self.f.log().len() == self.left.position &&& forall|j: int| 0 <= j < self.left.position ==> (#[trigger] self.f.log()[j]).0 == self.la0@[j] && self.f.log()[j].1 == self.ra0@[j] &&& self.ret@.len() >= self.left.position &&& forall|j: int| 0 <= j < self.left.position ==> (#[trigger] self.ret@[j]) == Some(self.f.log()[j].2) &&& forall|j: int| self.left.position <= j < self.ret@.len() ==> (#[trigger] self.ret@[j]).is_none() &&& (self.ret@.len() > self.left.position ==> self.k == N::n())
    }
    fn next(&mut self) -> (r: Option<U>)
    {
        // Zip of two slice iterators over N slots each
        if self.k >= N::usize_() {
            proof { self.ret = Ghost(self.ret@.push(None)); }
            return None;
        }
        let l = self.k;
        let r = self.k;
        self.k += 1;

        let left_value = self.left.array.take(l);
        let right_value = self.right.array.take(r);
        self.left.position += 1;
        self.right.position = self.left.position;
        proof {
            assert(self.left.wf() && self.right.wf()) /*OB:inverted_zip.unwind@closure:C04*/;
        }
        let __r = self.f.call(left_value, right_value);
        proof {
            self.ret = Ghost(self.ret@.push(Some(__r)));
        }
        Some(__r)
    }
    fn size_hint(&self) -> (r: (usize, Option<usize>)) { (N::usize_() - self.k, Some(N::usize_() - self.k)) }
}
// the pipeline of the branch for element types WITHOUT drop glue: no guards; whatever is still in the two blocks when the
// closure panics is simply forgotten, which is fine only because neither element type has drop glue
pub struct PlainZipPipe<B, T, U, N: ArrayLength, F: Foreign2<B, T, U>> {
    pub left: Slots<B, N>, pub right: Slots<T, N>, pub k: usize, pub f: F, pub nd_b: bool, pub nd_t: bool,
    pub ret: Ghost<Seq<Option<U>>>, pub la0: Ghost<Seq<B>>, pub ra0: Ghost<Seq<T>>, pub _u: core::marker::PhantomData<U>,
}
impl<B, T, U, N: ArrayLength, F: Foreign2<B, T, U>> ForeignIter<U> for PlainZipPipe<B, T, U, N, F> {
    type K = (Seq<B>, Seq<T>);
    open spec fn konst(&self) -> (Seq<B>, Seq<T>) { (self.la0@, self.ra0@) }
    open spec fn returned(&self) -> Seq<Option<U>> { self.ret@ }
    open spec fn hint(&self) -> (usize, Option<usize>) { ((N::n() - self.k) as usize, Some((N::n() - self.k) as usize)) }
    open spec fn inv(&self) -> bool {
        &&& self.left.ok() && self.right.ok() && self.k <= N::n() && self.la0@.len() == N::n() && self.ra0@.len() == N::n()
        &&& !self.nd_b && !self.nd_t          // this pipeline is only built when neither element type has drop glue
        &&& forall|j: int| 0 <= j < N::n() ==> ((#[trigger] self.left.view()[j]).is_some() <==> j >= self.k)
        &&& forall|j: int| 0 <= j < N::n() ==> ((#[trigger] self.right.view()[j]).is_some() <==> j >= self.k)
        &&& forall|j: int| self.k <= j < N::n() ==> (#[trigger] self.left.view()[j]) == Some(self.la0@[j])
        &&& forall|j: int| self.k <= j < N::n() ==> (#[trigger] self.right.view()[j]) == Some(self.ra0@[j])
        &&& self.f.log().len() == self.k &&& forall|j: int| 0 <= j < self.k ==> (#[trigger] self.f.log()[j]).0 == self.la0@[j] && self.f.log()[j].1 == self.ra0@[j] &&& self.ret@.len() >= self.k &&& forall|j: int| 0 <= j < self.k ==> (#[trigger] self.ret@[j]) == Some(self.f.log()[j].2) &&& forall|j: int| self.k <= j < self.ret@.len() ==> (#[trigger] self.ret@[j]).is_none() &&& (self.ret@.len() > self.k ==> self.k == N::n())
    }
    fn next(&mut self) -> (r: Option<U>)
    {
        if self.k >= N::usize_() {
            proof { self.ret = Ghost(self.ret@.push(None)); }
            return None;
        }
        let l = self.k;
        let r = self.k;
        self.k += 1;
        // closure body: f(ptr::read(l), ptr::read(r))
        let __a = self.left.take(l);
        let __b = self.right.take(r);
        proof { assert((!self.nd_b || self.left.all_dead()) && (!self.nd_t || self.right.all_dead())) /*OB:inverted_zip.unwind@closure-unguarded-blocks-hold-nothing-that-needs-drop:C04*/; }
        let __r = self.f.call(__a, __b);
        proof { self.ret = Ghost(self.ret@.push(Some(__r))); }
        Some(__r)
    }
    fn size_hint(&self) -> (r: (usize, Option<usize>)) { (N::usize_() - self.k, Some(N::usize_() - self.k)) }
}

    // extracted from src/lib.rs:531  `fn inverted_zip<B, U, F>( self, lhs: GenericArray<B, Self::Length>, mut f: F, ) -> MappedSequence<GenericArray<B, Self::Length>, B, U> where GenericArray<B, Self::Length>: GenericSequence<B, Length = Self::Length> + MappedGenericSequence<B, U>, Self: MappedGenericSequence<T, U>, F: FnMut(B, Self::Item) -> U,`
    pub fn inverted_zip<B, T, U, N: ArrayLength, F: Foreign2<B, T, U>>(this: GenericArray<T, N>, lhs: GenericArray<B, N>, f: F, nd_t: bool, nd_b: bool) -> (ret: (PanicOr<GenericArray<U, N>>, F))
        requires
            this.slots.ok(),
            this.slots.all_live(),
            lhs.slots.ok(),
            lhs.slots.all_live(),
            f.log().len() == 0,
        ensures
            ret.0 is Ret, /*OB:inverted_zip.post.never-the-length-panic:C08*/
            ret.1.log().len() == N::n(), /*OB:inverted_zip.post.once-per-index:C08*/
            forall|k: int| 0 <= k < N::n() ==> (#[trigger] ret.1.log()[k]).0 == lhs.elems()[k] && ret.1.log()[k].1 == this.elems()[k], /*OB:inverted_zip.post.pairs-ascending:C08*/
            forall|k: int| 0 <= k < N::n() ==> (#[trigger] ret.0->Ret_0.elems()[k]) == ret.1.log()[k].2, /*OB:inverted_zip.post.result-k-at-index-k:C08*/
    {
        let ghost la0 = lhs.elems();
        let ghost ra0 = this.elems();
        {
            if nd_t || nd_b {
                let left = ArrayConsumer::new(lhs);
                let right = ArrayConsumer::new(this);
                {
                    let mut pipe = ZipPipe {
                        left: left, right: right, k: 0, f: f, ret: Ghost(Seq::empty()), la0: Ghost(la0), ra0: Ghost(ra0), _u: core::marker::PhantomData
                    };
                    proof {
                        assert(pipe.inv());
                    }
                    let r = from_iter::<U, N, ZipPipe<B, T, U, N, F>>(&mut pipe);
                    proof {
                        assert(pipe.left.position == N::n());
                        assert(pipe.la0@ == la0 && pipe.ra0@ == ra0);
                        assert forall|k: int| 0 <= k < N::n() implies (#[trigger] r->Ret_0.elems()[k]) == pipe.f.log()[k].2 by {
                            assert(pipe.returned()[k] == Some(r->Ret_0.elems()[k]));
                            assert(pipe.ret@[k] == Some(pipe.f.log()[k].2));
                        }
                    }
                    let ZipPipe {
                        left, right, k: _, f, ret: _, la0: _, ra0: _, _u: _
                    }
                    = pipe;
                    let mut left = left;
                    let mut right = right;
                    right.drop_impl();
                    left.drop_impl();
                    (r, f)
                }
            }  else {
                let left = lhs.slots;
                let right = this.slots;
                {
                    let mut pipe = PlainZipPipe {
                        left: left, right: right, k: 0, f: f, nd_b: nd_b, nd_t: nd_t, ret: Ghost(Seq::empty()), la0: Ghost(la0), ra0: Ghost(ra0), _u: core::marker::PhantomData
                    };
                    proof {
                        assert(pipe.inv());
                    }
                    let r = from_iter::<U, N, PlainZipPipe<B, T, U, N, F>>(&mut pipe);
                    proof {
                        assert(pipe.k == N::n());
                        assert(pipe.la0@ == la0 && pipe.ra0@ == ra0);
                        assert forall|k: int| 0 <= k < N::n() implies (#[trigger] r->Ret_0.elems()[k]) == pipe.f.log()[k].2 by {
                            assert(pipe.returned()[k] == Some(r->Ret_0.elems()[k]));
                            assert(pipe.ret@[k] == Some(pipe.f.log()[k].2));
                        }
                    }
                    let PlainZipPipe {
                        left, right, k: _, f, nd_b: _, nd_t: _, ret: _, la0: _, ra0: _, _u: _
                    }
                    = pipe;
                    left.scope_exit_unowned() /*OB:inverted_zip.nothing-live-leaves-scope-unowned:C03*/;
                    right.scope_exit_unowned() /*OB:inverted_zip.nothing-live-leaves-scope-unowned-right:C03*/;
                    (r, f)
                }
            }
        }
    }
    proof fn reach_inverted_zip<B, T, U, N: ArrayLength, F: Foreign2<B, T, U>>(this: GenericArray<T, N>, lhs: GenericArray<B, N>, f: F, nd_t: bool, nd_b: bool) requires this.slots.ok(), this.slots.all_live(), lhs.slots.ok(), lhs.slots.all_live(), f.log().len() == 0, { assert(false); } /*OB:canary.inverted_zip:*/


// ===== closure conversion (rule R-pipe) of `self.into_iter().map(f)` for a by-reference sequence (&GenericArray: slice::Iter) =====
pub struct RefMapPipe<'a, T, U, N: ArrayLength, F: Foreign1<&'a T, U>> {
    pub src: &'a Slots<T, N>, pub k: usize, pub f: F, pub ret: Ghost<Seq<Option<U>>>, pub _u: core::marker::PhantomData<U>,
}
impl<'a, T, U, N: ArrayLength, F: Foreign1<&'a T, U>> ForeignIter<U> for RefMapPipe<'a, T, U, N, F> {
    type K = Slots<T, N>;
    open spec fn konst(&self) -> Slots<T, N> { *self.src }
    open spec fn returned(&self) -> Seq<Option<U>> { self.ret@ }
    open spec fn hint(&self) -> (usize, Option<usize>) { ((N::n() - self.k) as usize, Some((N::n() - self.k) as usize)) }
    open spec fn inv(&self) -> bool {
        &&& self.src.ok() && self.src.all_live() && self.k <= N::n()
        &&& self.ret@.len() >= self.k
        &&& self.f.log().len() == self.k
        &&& forall|j: int| 0 <= j < self.k ==> *(#[trigger] self.f.log()[j]).0 == self.src.view()[j].unwrap()
        &&& forall|j: int| 0 <= j < self.k ==> (#[trigger] self.ret@[j]) == Some(self.f.log()[j].1)
        &&& forall|j: int| self.k <= j < self.ret@.len() ==> (#[trigger] self.ret@[j]).is_none()
        &&& (self.ret@.len() > self.k ==> self.k == N::n())
    }
    fn next(&mut self) -> (r: Option<U>)
    {
        // slice::Iter::next, then Map's closure call
        if self.k >= N::usize_() {
            proof { self.ret = Ghost(self.ret@.push(None)); }
            return None;
        }
        let x = self.src.peek(self.k);
        self.k += 1;
        let r = self.f.call(x);
        proof { self.ret = Ghost(self.ret@.push(Some(r))); }
        Some(r)
    }
    fn size_hint(&self) -> (r: (usize, Option<usize>)) { (N::usize_() - self.k, Some(N::usize_() - self.k)) }
}

    // extracted from src/functional.rs:43  `fn map<U, F>(self, f: F) -> MappedSequence<Self, T, U> where Self: MappedGenericSequence<T, U>, F: FnMut(Self::Item) -> U,`
    pub fn map_ref<'a, T, U, N: ArrayLength, F: Foreign1<&'a T, U>>(this: &'a Slots<T, N>, f: F) -> (ret: (PanicOr<GenericArray<U, N>>, F))
        requires
            this.ok(),
            this.all_live(),
            f.log().len() == 0,
        ensures
            ret.0 is Ret, /*OB:map_ref.post.never-the-length-panic:C08*/
            ret.1.log().len() == N::n(), /*OB:map_ref.post.once-per-index:C08*/
            forall|k: int| 0 <= k < N::n() ==> *(#[trigger] ret.1.log()[k]).0 == this.view()[k].unwrap(), /*OB:map_ref.post.ascending:C08*/
            forall|k: int| 0 <= k < N::n() ==> (#[trigger] ret.0->Ret_0.elems()[k]) == ret.1.log()[k].1, /*OB:map_ref.post.result-k-at-index-k:C08*/
    {
        let mut pipe = RefMapPipe {
            src: this, k: 0, f: f, ret: Ghost(Seq::empty()), _u: core::marker::PhantomData
        };
        proof {
            assert(pipe.inv());
        }
        let r = from_iter::<U, N, RefMapPipe<T, U, N, F>>(&mut pipe);
        proof {
            assert(pipe.k == N::n());
            assert forall|k: int| 0 <= k < N::n() implies (#[trigger] r->Ret_0.elems()[k]) == pipe.f.log()[k].1 by {
                assert(pipe.returned()[k] == Some(r->Ret_0.elems()[k]));
                assert(pipe.ret@[k] == Some(pipe.f.log()[k].1));
            }
        }
        let RefMapPipe {
            src: _, k: _, f, ret: _, _u: _
        }
        = pipe;
        (r, f)
    }
    proof fn reach_map_ref<'a, T, U, N: ArrayLength, F: Foreign1<&'a T, U>>(this: &'a Slots<T, N>, f: F) requires this.ok(), this.all_live(), f.log().len() == 0, { assert(false); } /*OB:canary.map_ref:*/

    // extracted from src/impls.rs:22  `fn clone(&self) -> GenericArray<T, N>`
    pub fn clone_array<'a, T, N: ArrayLength, F: Foreign1<&'a T, T>>(this: &'a Slots<T, N>, clone: F) -> (ret: (PanicOr<GenericArray<T, N>>, F))
        requires
            this.ok(),
            this.all_live(),
            clone.log().len() == 0,
        ensures
            ret.0 is Ret && ret.1.log().len() == N::n() && forall|k: int| 0 <= k < N::n() ==> *(#[trigger] ret.1.log()[k]).0 == this.view()[k].unwrap(), /*OB:clone_array.post.clone-once-per-element-in-order:C08*/
            forall|k: int| 0 <= k < N::n() ==> (#[trigger] ret.0->Ret_0.elems()[k]) == ret.1.log()[k].1, /*OB:clone_array.post.clone-k-at-index-k:C08*/
    {
        map_ref::<T, T, N, F>(this, clone)
    }
    proof fn reach_clone_array<'a, T, N: ArrayLength, F: Foreign1<&'a T, T>>(this: &'a Slots<T, N>, clone: F) requires this.ok(), this.all_live(), clone.log().len() == 0, { assert(false); } /*OB:canary.clone_array:*/

    // extracted from src/impls.rs:15  `fn default() -> Self`
    pub fn default_array<T, N: ArrayLength, F: Foreign1<usize, T>>(default_: &mut F) -> (ret: GenericArray<T, N>)
        requires
            old(default_).log().len() == 0,
        ensures
            final(default_).log().len() == N::n() && forall|k: int| 0 <= k < N::n() ==> ret.elems()[k] == (#[trigger] final(default_).log()[k]).1, /*OB:default_array.post.default-once-per-element:C08*/
    {
        generate::<T, N, F>(default_)
    }
    proof fn reach_default_array<T, N: ArrayLength, F: Foreign1<usize, T>>(default_: F) requires default_.log().len() == 0, { assert(false); } /*OB:canary.default_array:*/


pub struct Zip2Pipe<'a, A, B, U, N: ArrayLength, F: Foreign2<&'a A, B, U>> {
    pub left: &'a Slots<A, N>, pub right: ArrayConsumer<B, N>, pub k: usize, pub f: F, pub nd_a: bool, pub nd_b: bool,
    pub ret: Ghost<Seq<Option<U>>>, pub la0: Ghost<Seq<A>>, pub ra0: Ghost<Seq<B>>, pub _u: core::marker::PhantomData<U>,
}
impl<'a, A, B, U, N: ArrayLength, F: Foreign2<&'a A, B, U>> ForeignIter<U> for Zip2Pipe<'a, A, B, U, N, F> {
    type K = (Seq<A>, Seq<B>);
    open spec fn konst(&self) -> (Seq<A>, Seq<B>) { (self.la0@, self.ra0@) }
    open spec fn returned(&self) -> Seq<Option<U>> { self.ret@ }
    open spec fn hint(&self) -> (usize, Option<usize>) { ((N::n() - self.k) as usize, Some((N::n() - self.k) as usize)) }
    open spec fn inv(&self) -> bool {
        &&& self.k <= N::n() && self.la0@.len() == N::n() && self.ra0@.len() == N::n()
        &&& self.left.ok() && self.left.all_live() &&& forall|j: int| 0 <= j < N::n() ==> (#[trigger] self.left.view()[j]) == Some(self.la0@[j]) 
        &&& self.right.wf() &&& (self.k < N::n() ==> self.right.position == self.k) &&& (self.k == N::n() ==> self.right.position == N::n()) &&& forall|j: int| self.right.position <= j < N::n() ==> (#[trigger] self.right.array.view()[j]) == Some(self.ra0@[j]) 
        
        &&& self.f.log().len() == self.k
        &&& forall|j: int| 0 <= j < self.k ==> *(#[trigger] self.f.log()[j]).0 == self.la0@[j] && self.f.log()[j].1 == self.ra0@[j]
        &&& self.ret@.len() >= self.k
        &&& forall|j: int| 0 <= j < self.k ==> (#[trigger] self.ret@[j]) == Some(self.f.log()[j].2)
        &&& forall|j: int| self.k <= j < self.ret@.len() ==> (#[trigger] self.ret@[j]).is_none()
        &&& (self.ret@.len() > self.k ==> self.k == N::n())
    }
    fn next(&mut self) -> (r: Option<U>)
    {
        // Zip of two iterators over N items each
        if self.k >= N::usize_() {
            proof { self.ret = Ghost(self.ret@.push(None)); }
            return None;
        }
        let l = self.k;
        let r = self.k;
        self.k += 1;

        let left_value = self.left.peek(l);
        let right_value = self.right.array.take(r);
        self.right.position += 1;
        proof {
            assert(self.right.wf()) /*OB:inverted_zip2.unwind@closure:C04*/;
        }
        let __r = self.f.call(left_value, right_value);
        proof {
            self.ret = Ghost(self.ret@.push(Some(__r)));
        }
        Some(__r)
    }
    fn size_hint(&self) -> (r: (usize, Option<usize>)) { (N::usize_() - self.k, Some(N::usize_() - self.k)) }
}


pub struct Zip2PlainPipe<'a, A, B, U, N: ArrayLength, F: Foreign2<&'a A, B, U>> {
    pub left: &'a Slots<A, N>, pub right: Slots<B, N>, pub k: usize, pub f: F, pub nd_a: bool, pub nd_b: bool,
    pub ret: Ghost<Seq<Option<U>>>, pub la0: Ghost<Seq<A>>, pub ra0: Ghost<Seq<B>>, pub _u: core::marker::PhantomData<U>,
}
impl<'a, A, B, U, N: ArrayLength, F: Foreign2<&'a A, B, U>> ForeignIter<U> for Zip2PlainPipe<'a, A, B, U, N, F> {
    type K = (Seq<A>, Seq<B>);
    open spec fn konst(&self) -> (Seq<A>, Seq<B>) { (self.la0@, self.ra0@) }
    open spec fn returned(&self) -> Seq<Option<U>> { self.ret@ }
    open spec fn hint(&self) -> (usize, Option<usize>) { ((N::n() - self.k) as usize, Some((N::n() - self.k) as usize)) }
    open spec fn inv(&self) -> bool {
        &&& self.k <= N::n() && self.la0@.len() == N::n() && self.ra0@.len() == N::n()
        &&& self.left.ok() && self.left.all_live() &&& forall|j: int| 0 <= j < N::n() ==> (#[trigger] self.left.view()[j]) == Some(self.la0@[j]) 
        &&& self.right.ok() &&& forall|j: int| 0 <= j < N::n() ==> ((#[trigger] self.right.view()[j]).is_some() <==> j >= self.k) &&& forall|j: int| self.k <= j < N::n() ==> (#[trigger] self.right.view()[j]) == Some(self.ra0@[j]) 
        &&& !self.nd_b
        &&& self.f.log().len() == self.k
        &&& forall|j: int| 0 <= j < self.k ==> *(#[trigger] self.f.log()[j]).0 == self.la0@[j] && self.f.log()[j].1 == self.ra0@[j]
        &&& self.ret@.len() >= self.k
        &&& forall|j: int| 0 <= j < self.k ==> (#[trigger] self.ret@[j]) == Some(self.f.log()[j].2)
        &&& forall|j: int| self.k <= j < self.ret@.len() ==> (#[trigger] self.ret@[j]).is_none()
        &&& (self.ret@.len() > self.k ==> self.k == N::n())
    }
    fn next(&mut self) -> (r: Option<U>)
    {
        // Zip of two iterators over N items each
        if self.k >= N::usize_() {
            proof { self.ret = Ghost(self.ret@.push(None)); }
            return None;
        }
        let l = self.k;
        let r = self.k;
        self.k += 1;

        let left_value = self.left.peek(l);
        let __b = self.right.take(r);
        proof {
            assert(!self.nd_b || self.right.all_dead()) /*OB:inverted_zip2.unwind@closure-unguarded-block-holds-nothing-that-needs-drop:C04*/;
        }
        let __r = self.f.call(left_value, __b);
        proof {
            self.ret = Ghost(self.ret@.push(Some(__r)));
        }
        Some(__r)
    }
    fn size_hint(&self) -> (r: (usize, Option<usize>)) { (N::usize_() - self.k, Some(N::usize_() - self.k)) }
}

    // extracted from src/lib.rs:577  `fn inverted_zip2<B, Lhs, U, F>(self, lhs: Lhs, mut f: F) -> MappedSequence<Lhs, B, U> where Lhs: GenericSequence<B, Length = Self::Length> + MappedGenericSequence<B, U>, Self: MappedGenericSequence<T, U>, F: FnMut(Lhs::Item, Self::Item) -> U,`
    pub fn inverted_zip2<'a, B, T, U, N: ArrayLength, F: Foreign2<&'a B, T, U>>(this: GenericArray<T, N>, lhs: &'a Slots<B, N>, f: F, nd_t: bool) -> (ret: (PanicOr<GenericArray<U, N>>, F))
        requires
            this.slots.ok(),
            this.slots.all_live(),
            lhs.ok(),
            lhs.all_live(),
            f.log().len() == 0,
        ensures
            ret.0 is Ret, /*OB:inverted_zip2.post.never-the-length-panic:C08*/
            ret.1.log().len() == N::n(), /*OB:inverted_zip2.post.once-per-index:C08*/
            forall|k: int| 0 <= k < N::n() ==> (#[trigger] ret.0->Ret_0.elems()[k]) == ret.1.log()[k].2, /*OB:inverted_zip2.post.result-k-at-index-k:C08*/
            forall|k: int| 0 <= k < N::n() ==> *(#[trigger] ret.1.log()[k]).0 == lhs.view()[k].unwrap() && ret.1.log()[k].1 == this.elems()[k], /*OB:inverted_zip2.post.pairs-ascending:C08*/
    {
        let ghost la0 = Seq::new(N::n() as nat, |k: int| lhs.view()[k].unwrap());
        let ghost ra0 = this.elems();
        {
            if nd_t {
                let right = ArrayConsumer::new(this);
                {
                    let mut pipe = Zip2Pipe {
                        left: lhs, right: right, k: 0, f: f, nd_a: false, nd_b: nd_t, ret: Ghost(Seq::empty()), la0: Ghost(la0), ra0: Ghost(ra0), _u: core::marker::PhantomData
                    };
                    proof {
                        assert(pipe.inv());
                    }
                    let r = from_iter::<U, N, Zip2Pipe<B, T, U, N, F>>(&mut pipe);
                    proof {
                        assert(pipe.k == N::n());
                        assert(pipe.right.position == N::n());
                        assert(pipe.la0@ == la0 && pipe.ra0@ == ra0);
                        assert forall|k: int| 0 <= k < N::n() implies (#[trigger] r->Ret_0.elems()[k]) == pipe.f.log()[k].2 by {
                            assert(pipe.returned()[k] == Some(r->Ret_0.elems()[k]));
                            assert(pipe.ret@[k] == Some(pipe.f.log()[k].2));
                        }
                    }
                    let Zip2Pipe {
                        left: _, right, k: _, f, nd_a: _, nd_b: _, ret: _, la0: _, ra0: _, _u: _
                    }
                    = pipe;
                    let mut right = right;
                    right.drop_impl();
                    (r, f)
                }
            }  else {
                let right = this.slots;
                {
                    let mut pipe = Zip2PlainPipe {
                        left: lhs, right: right, k: 0, f: f, nd_a: false, nd_b: nd_t, ret: Ghost(Seq::empty()), la0: Ghost(la0), ra0: Ghost(ra0), _u: core::marker::PhantomData
                    };
                    proof {
                        assert(pipe.inv());
                    }
                    let r = from_iter::<U, N, Zip2PlainPipe<B, T, U, N, F>>(&mut pipe);
                    proof {
                        assert(pipe.k == N::n());
                        assert(pipe.la0@ == la0 && pipe.ra0@ == ra0);
                        assert forall|k: int| 0 <= k < N::n() implies (#[trigger] r->Ret_0.elems()[k]) == pipe.f.log()[k].2 by {
                            assert(pipe.returned()[k] == Some(r->Ret_0.elems()[k]));
                            assert(pipe.ret@[k] == Some(pipe.f.log()[k].2));
                        }
                    }
                    let Zip2PlainPipe {
                        left: _, right, k: _, f, nd_a: _, nd_b: _, ret: _, la0: _, ra0: _, _u: _
                    }
                    = pipe;
                    right.scope_exit_unowned() /*OB:inverted_zip2.nothing-live-leaves-scope-unowned:C03*/;
                    (r, f)
                }
            }
        }
    }
    proof fn reach_inverted_zip2<'a, B, T, U, N: ArrayLength, F: Foreign2<&'a B, T, U>>(this: GenericArray<T, N>, lhs: &'a Slots<B, N>, f: F, nd_t: bool) requires this.slots.ok(), this.slots.all_live(), lhs.ok(), lhs.all_live(), f.log().len() == 0, { assert(false); } /*OB:canary.inverted_zip2:*/


pub struct ZipRefRightPipe<'a, A, B, U, N: ArrayLength, F: Foreign2<A, &'a B, U>> {
    pub left: ArrayConsumer<A, N>, pub right: &'a Slots<B, N>, pub k: usize, pub f: F, pub nd_a: bool, pub nd_b: bool,
    pub ret: Ghost<Seq<Option<U>>>, pub la0: Ghost<Seq<A>>, pub ra0: Ghost<Seq<B>>, pub _u: core::marker::PhantomData<U>,
}
impl<'a, A, B, U, N: ArrayLength, F: Foreign2<A, &'a B, U>> ForeignIter<U> for ZipRefRightPipe<'a, A, B, U, N, F> {
    type K = (Seq<A>, Seq<B>);
    open spec fn konst(&self) -> (Seq<A>, Seq<B>) { (self.la0@, self.ra0@) }
    open spec fn returned(&self) -> Seq<Option<U>> { self.ret@ }
    open spec fn hint(&self) -> (usize, Option<usize>) { ((N::n() - self.k) as usize, Some((N::n() - self.k) as usize)) }
    open spec fn inv(&self) -> bool {
        &&& self.k <= N::n() && self.la0@.len() == N::n() && self.ra0@.len() == N::n()
        &&& self.left.wf() &&& (self.k < N::n() ==> self.left.position == self.k) &&& (self.k == N::n() ==> self.left.position == N::n()) &&& forall|j: int| self.left.position <= j < N::n() ==> (#[trigger] self.left.array.view()[j]) == Some(self.la0@[j]) 
        &&& self.right.ok() && self.right.all_live() &&& forall|j: int| 0 <= j < N::n() ==> (#[trigger] self.right.view()[j]) == Some(self.ra0@[j]) 
        
        &&& self.f.log().len() == self.k
        &&& forall|j: int| 0 <= j < self.k ==> (#[trigger] self.f.log()[j]).0 == self.la0@[j] && *self.f.log()[j].1 == self.ra0@[j]
        &&& self.ret@.len() >= self.k
        &&& forall|j: int| 0 <= j < self.k ==> (#[trigger] self.ret@[j]) == Some(self.f.log()[j].2)
        &&& forall|j: int| self.k <= j < self.ret@.len() ==> (#[trigger] self.ret@[j]).is_none()
        &&& (self.ret@.len() > self.k ==> self.k == N::n())
    }
    fn next(&mut self) -> (r: Option<U>)
    {
        // Zip of two iterators over N items each
        if self.k >= N::usize_() {
            proof { self.ret = Ghost(self.ret@.push(None)); }
            return None;
        }
        let l = self.k;
        let r = self.k;
        self.k += 1;

        let right_value = self.right.peek(r);
        let left_value = self.left.array.take(l);
        self.left.position += 1;
        proof {
            assert(self.left.wf()) /*OB:inverted_zip_default.unwind@closure:C04*/;
        }
        let __r = self.f.call(left_value, right_value);
        proof {
            self.ret = Ghost(self.ret@.push(Some(__r)));
        }
        Some(__r)
    }
    fn size_hint(&self) -> (r: (usize, Option<usize>)) { (N::usize_() - self.k, Some(N::usize_() - self.k)) }
}

    // extracted from src/sequence.rs:37  `fn inverted_zip<B, U, F>( self, lhs: GenericArray<B, Self::Length>, mut f: F, ) -> MappedSequence<GenericArray<B, Self::Length>, B, U> where GenericArray<B, Self::Length>: GenericSequence<B, Length = Self::Length> + MappedGenericSequence<B, U>, Self: MappedGenericSequence<T, U>, F: FnMut(B, Self::Item) -> U,`
    pub fn inverted_zip_default<'a, B, T, U, N: ArrayLength, F: Foreign2<B, &'a T, U>>(this: &'a Slots<T, N>, lhs: GenericArray<B, N>, f: F) -> (ret: (PanicOr<GenericArray<U, N>>, F))
        requires
            this.ok(),
            this.all_live(),
            lhs.slots.ok(),
            lhs.slots.all_live(),
            f.log().len() == 0,
        ensures
            ret.0 is Ret, /*OB:inverted_zip_default.post.never-the-length-panic:C08*/
            ret.1.log().len() == N::n(), /*OB:inverted_zip_default.post.once-per-index:C08*/
            forall|k: int| 0 <= k < N::n() ==> (#[trigger] ret.0->Ret_0.elems()[k]) == ret.1.log()[k].2, /*OB:inverted_zip_default.post.result-k-at-index-k:C08*/
            forall|k: int| 0 <= k < N::n() ==> (#[trigger] ret.1.log()[k]).0 == lhs.elems()[k] && *ret.1.log()[k].1 == this.view()[k].unwrap(), /*OB:inverted_zip_default.post.pairs-ascending:C08*/
    {
        let ghost la0 = lhs.elems();
        let ghost ra0 = Seq::new(N::n() as nat, |k: int| this.view()[k].unwrap());
        {
            let left = ArrayConsumer::new(lhs);
            {
                let mut pipe = ZipRefRightPipe {
                    left: left, right: this, k: 0, f: f, nd_a: false, nd_b: false, ret: Ghost(Seq::empty()), la0: Ghost(la0), ra0: Ghost(ra0), _u: core::marker::PhantomData
                };
                proof {
                    assert(pipe.inv());
                }
                let r = from_iter::<U, N, ZipRefRightPipe<B, T, U, N, F>>(&mut pipe);
                proof {
                    assert(pipe.k == N::n());
                    assert(pipe.left.position == N::n());
                    assert(pipe.la0@ == la0 && pipe.ra0@ == ra0);
                    assert forall|k: int| 0 <= k < N::n() implies (#[trigger] r->Ret_0.elems()[k]) == pipe.f.log()[k].2 by {
                        assert(pipe.returned()[k] == Some(r->Ret_0.elems()[k]));
                        assert(pipe.ret@[k] == Some(pipe.f.log()[k].2));
                    }
                }
                let ZipRefRightPipe {
                    left, right: _, k: _, f, nd_a: _, nd_b: _, ret: _, la0: _, ra0: _, _u: _
                }
                = pipe;
                let mut left = left;
                left.drop_impl();
                (r, f)
            }
        }
    }
    proof fn reach_inverted_zip_default<'a, B, T, U, N: ArrayLength, F: Foreign2<B, &'a T, U>>(this: &'a Slots<T, N>, lhs: GenericArray<B, N>, f: F) requires this.ok(), this.all_live(), lhs.slots.ok(), lhs.slots.all_live(), f.log().len() == 0, { assert(false); } /*OB:canary.inverted_zip_default:*/


pub struct ZipRefRefPipe<'a, A, B, U, N: ArrayLength, F: Foreign2<&'a A, &'a B, U>> {
    pub left: &'a Slots<A, N>, pub right: &'a Slots<B, N>, pub k: usize, pub f: F, pub nd_a: bool, pub nd_b: bool,
    pub ret: Ghost<Seq<Option<U>>>, pub la0: Ghost<Seq<A>>, pub ra0: Ghost<Seq<B>>, pub _u: core::marker::PhantomData<U>,
}
impl<'a, A, B, U, N: ArrayLength, F: Foreign2<&'a A, &'a B, U>> ForeignIter<U> for ZipRefRefPipe<'a, A, B, U, N, F> {
    type K = (Seq<A>, Seq<B>);
    open spec fn konst(&self) -> (Seq<A>, Seq<B>) { (self.la0@, self.ra0@) }
    open spec fn returned(&self) -> Seq<Option<U>> { self.ret@ }
    open spec fn hint(&self) -> (usize, Option<usize>) { ((N::n() - self.k) as usize, Some((N::n() - self.k) as usize)) }
    open spec fn inv(&self) -> bool {
        &&& self.k <= N::n() && self.la0@.len() == N::n() && self.ra0@.len() == N::n()
        &&& self.left.ok() && self.left.all_live() &&& forall|j: int| 0 <= j < N::n() ==> (#[trigger] self.left.view()[j]) == Some(self.la0@[j]) 
        &&& self.right.ok() && self.right.all_live() &&& forall|j: int| 0 <= j < N::n() ==> (#[trigger] self.right.view()[j]) == Some(self.ra0@[j]) 
        
        &&& self.f.log().len() == self.k
        &&& forall|j: int| 0 <= j < self.k ==> *(#[trigger] self.f.log()[j]).0 == self.la0@[j] && *self.f.log()[j].1 == self.ra0@[j]
        &&& self.ret@.len() >= self.k
        &&& forall|j: int| 0 <= j < self.k ==> (#[trigger] self.ret@[j]) == Some(self.f.log()[j].2)
        &&& forall|j: int| self.k <= j < self.ret@.len() ==> (#[trigger] self.ret@[j]).is_none()
        &&& (self.ret@.len() > self.k ==> self.k == N::n())
    }
    fn next(&mut self) -> (r: Option<U>)
    {
        // Zip of two iterators over N items each
        if self.k >= N::usize_() {
            proof { self.ret = Ghost(self.ret@.push(None)); }
            return None;
        }
        let l = self.k;
        let r = self.k;
        self.k += 1;

        let __a = self.left.peek(l);
        let __b = self.right.peek(r);
        let __r = self.f.call(__a, __b);
        proof {
            self.ret = Ghost(self.ret@.push(Some(__r)));
        }
        Some(__r)
    }
    fn size_hint(&self) -> (r: (usize, Option<usize>)) { (N::usize_() - self.k, Some(N::usize_() - self.k)) }
}

    // extracted from src/sequence.rs:66  `fn inverted_zip2<B, Lhs, U, F>(self, lhs: Lhs, mut f: F) -> MappedSequence<Lhs, B, U> where Lhs: GenericSequence<B, Length = Self::Length> + MappedGenericSequence<B, U>, Self: MappedGenericSequence<T, U>, F: FnMut(Lhs::Item, Self::Item) -> U,`
    pub fn inverted_zip2_default<'a, B, T, U, N: ArrayLength, F: Foreign2<&'a B, &'a T, U>>(this: &'a Slots<T, N>, lhs: &'a Slots<B, N>, f: F) -> (ret: (PanicOr<GenericArray<U, N>>, F))
        requires
            this.ok(),
            this.all_live(),
            lhs.ok(),
            lhs.all_live(),
            f.log().len() == 0,
        ensures
            ret.0 is Ret, /*OB:inverted_zip2_default.post.never-the-length-panic:C08*/
            ret.1.log().len() == N::n(), /*OB:inverted_zip2_default.post.once-per-index:C08*/
            forall|k: int| 0 <= k < N::n() ==> (#[trigger] ret.0->Ret_0.elems()[k]) == ret.1.log()[k].2, /*OB:inverted_zip2_default.post.result-k-at-index-k:C08*/
            forall|k: int| 0 <= k < N::n() ==> *(#[trigger] ret.1.log()[k]).0 == lhs.view()[k].unwrap() && *ret.1.log()[k].1 == this.view()[k].unwrap(), /*OB:inverted_zip2_default.post.pairs-ascending:C08*/
    {
        let ghost la0 = Seq::new(N::n() as nat, |k: int| lhs.view()[k].unwrap());
        let ghost ra0 = Seq::new(N::n() as nat, |k: int| this.view()[k].unwrap());
        let mut pipe = ZipRefRefPipe {
            left: lhs, right: this, k: 0, f: f, nd_a: false, nd_b: false, ret: Ghost(Seq::empty()), la0: Ghost(la0), ra0: Ghost(ra0), _u: core::marker::PhantomData
        };
        proof {
            assert(pipe.inv());
        }
        let r = from_iter::<U, N, ZipRefRefPipe<B, T, U, N, F>>(&mut pipe);
        proof {
            assert(pipe.k == N::n());
            assert(pipe.la0@ == la0 && pipe.ra0@ == ra0);
            assert forall|k: int| 0 <= k < N::n() implies (#[trigger] r->Ret_0.elems()[k]) == pipe.f.log()[k].2 by {
                assert(pipe.returned()[k] == Some(r->Ret_0.elems()[k]));
                assert(pipe.ret@[k] == Some(pipe.f.log()[k].2));
            }
        }
        let ZipRefRefPipe {
            left: _, right: _, k: _, f, nd_a: _, nd_b: _, ret: _, la0: _, ra0: _, _u: _
        }
        = pipe;
        (r, f)
    }
    proof fn reach_inverted_zip2_default<'a, B, T, U, N: ArrayLength, F: Foreign2<&'a B, &'a T, U>>(this: &'a Slots<T, N>, lhs: &'a Slots<B, N>, f: F) requires this.ok(), this.all_live(), lhs.ok(), lhs.all_live(), f.log().len() == 0, { assert(false); } /*OB:canary.inverted_zip2_default:*/

proof fn canary() { assert(false); } /*OB:canary:*/
} // verus!
fn main() {}


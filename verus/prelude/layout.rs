// ===================== engine-V prelude: layout unit (TRUSTED) =====================
// The repr(C) layout algorithm as written in the Rust Reference ("Type layout", The C representation):
// fields in declaration order, each at the next offset that is a multiple of its alignment; the struct's alignment is the
// largest field alignment; its size is the end of the last field rounded up to the struct's alignment.
// `packed(k)` (k > 0) lowers every field alignment, and the struct alignment, to at most k.  repr(transparent) gives the
// layout of the single non-zero-sized field.  An array [T; n] has size n * size_of T and the alignment of T, also for n = 0.
pub struct Layout { pub size: nat, pub align: nat }

pub open spec fn round_up(x: nat, a: nat) -> nat
    recommends a > 0
{ if x % a == 0 { x } else { (x + a - x % a) as nat } }

pub open spec fn max(a: nat, b: nat) -> nat { if a >= b { a } else { b } }
pub open spec fn cap(a: nat, k: nat) -> nat { if k == 0 || a <= k { a } else { k } }

pub open spec fn phantom() -> Layout { Layout { size: 0, align: 1 } }      // PhantomData<T>
pub open spec fn native_array(n: nat, t: Layout) -> Layout { Layout { size: n * t.size, align: t.align } }

// every Rust type has align > 0 and a size that is a multiple of its alignment
pub open spec fn valid_elem(t: Layout) -> bool { t.align > 0 && t.size % t.align == 0 }

proof fn lemma_mul_mod(k: nat, s: nat, a: nat)
    requires a > 0, s % a == 0,
    ensures (k * s) % a == 0,
{
    vstd::arithmetic::div_mod::lemma_fundamental_div_mod(s as int, a as int);
    let q = s / a;
    assert(s == a * q);
    assert(k * s == a * (k * q)) by (nonlinear_arith) requires s == a * q;
    vstd::arithmetic::div_mod::lemma_mod_multiples_basic((k * q) as int, a as int);
    assert(a * (k * q) == (k * q) * a) by (nonlinear_arith);
}

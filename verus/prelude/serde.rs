// ===================== engine-V prelude: serde protocol objects (TRUSTED) =====================
// The serializer / sequence source are caller-supplied code (rule R-foreign): arbitrary results, every call logged.
pub enum SerEv<T> { Tuple(usize), Elem(T), End }
pub struct SerErr;
pub trait ForeignSerializer<T>: Sized {
    type Tup: ForeignTuple<T>;
    spec fn log(&self) -> Seq<SerEv<T>>;
    // serializer.serialize_tuple(len): consumes the serializer; on Ok the tuple serializer carries the log on
    fn serialize_tuple(self, len: usize) -> (r: Result<Self::Tup, SerErr>)
        ensures r is Ok ==> r->Ok_0.log() == self.log().push(SerEv::Tuple(len));
}
pub trait ForeignTuple<T>: Sized {
    spec fn log(&self) -> Seq<SerEv<T>>;
    fn serialize_element(&mut self, value: &T) -> (r: Result<(), SerErr>)
        ensures final(self).log() == old(self).log().push(SerEv::Elem(*value));
    fn end(self) -> (r: Result<Seq<SerEv<T>>, SerErr>)
        ensures r is Ok ==> r->Ok_0 == self.log().push(SerEv::End);
}

// a sequence source (serde::de::SeqAccess): every next_element result and every size hint is arbitrary
pub struct DeErr;
pub trait ForeignSeq<T> {
    spec fn results(&self) -> Seq<Result<Option<T>, ()>>;       // everything next_element has answered so far (elements read as T)
    spec fn probe_results(&self) -> Seq<Result<Option<()>, ()>>; // answers to next_element::<Dummy>() (the value is discarded)
    spec fn hint(&self) -> Option<usize>;                        // what size_hint() answers in the current state (arbitrary, may lie)
    fn next_element(&mut self) -> (r: Result<Option<T>, DeErr>)
        ensures final(self).probe_results() == old(self).probe_results(),
            final(self).results() == old(self).results().push(match r { Ok(v) => Ok(v), Err(_) => Err(()) });
    // seq.next_element::<Dummy>(): asks only whether another element exists
    fn next_element_dummy(&mut self) -> (r: Result<Option<()>, DeErr>)
        ensures final(self).results() == old(self).results(),
            final(self).probe_results() == old(self).probe_results().push(match r { Ok(v) => Ok(v), Err(_) => Err(()) });
    fn size_hint(&self) -> (r: Option<usize>) ensures r == self.hint();
}
// de::Error::invalid_length(n, &self)
#[verifier::external_body]
pub fn invalid_length(n: usize) -> (e: DeErr) { unimplemented!() }

// ===================== engine-V prelude: comparisons / hashing / formatting of slices (TRUSTED) =====================
// The slice operations of core are opaque here (uninterpreted spec functions); what is proved is that the array's impls
// hand them exactly the slices of the same elements, with the same hasher / formatter.
pub struct ArrV<T> { pub elems: Seq<T>, pub addr: int }          // a GenericArray<T, N> by reference
pub struct SliceV<T> { pub elems: Seq<T>, pub addr: int }        // a &[T]
pub struct Fmt { pub flags: int, pub out: Ghost<Seq<u8>> }
pub struct Hasher_ { pub fed: Ghost<Seq<u8>> }

pub uninterp spec fn spec_slice_eq<T>(a: Seq<T>, b: Seq<T>) -> bool;
pub uninterp spec fn spec_slice_partial_cmp<T>(a: Seq<T>, b: Seq<T>) -> int;
pub uninterp spec fn spec_slice_cmp<T>(a: Seq<T>, b: Seq<T>) -> int;
pub uninterp spec fn spec_slice_hash<T>(a: Seq<T>) -> Seq<u8>;
pub uninterp spec fn spec_slice_debug<T>(a: Seq<T>, flags: int) -> Seq<u8>;

impl<T> ArrV<T> {
    // GenericArray::as_slice (proved in unit `views`): same address, the N elements in order
    #[verifier::external_body]
    pub fn as_slice(&self) -> (s: SliceV<T>) ensures s.elems == self.elems, s.addr == self.addr { unimplemented!() }
    // `**self` (Deref to [T]) is as_slice (src/lib.rs: `fn deref(&self) -> &[T] { GenericArray::as_slice(self) }`)
    #[verifier::external_body]
    pub fn deref(&self) -> (s: SliceV<T>) ensures s.elems == self.elems, s.addr == self.addr { unimplemented!() }
}
#[verifier::external_body]
pub fn slice_eq<T>(a: SliceV<T>, b: SliceV<T>) -> (r: bool) ensures r == spec_slice_eq(a.elems, b.elems) { unimplemented!() }
#[verifier::external_body]
pub fn slice_partial_cmp<T>(a: SliceV<T>, b: SliceV<T>) -> (r: i8) ensures r as int == spec_slice_partial_cmp(a.elems, b.elems) { unimplemented!() }
#[verifier::external_body]
pub fn slice_cmp<T>(a: SliceV<T>, b: SliceV<T>) -> (r: i8) ensures r as int == spec_slice_cmp(a.elems, b.elems) { unimplemented!() }
#[verifier::external_body]
pub fn slice_hash<T>(a: SliceV<T>, state: &mut Hasher_) ensures final(state).fed@ == old(state).fed@ + spec_slice_hash(a.elems) { unimplemented!() }
#[verifier::external_body]
pub fn slice_debug_fmt<T>(a: SliceV<T>, fmt: &mut Fmt) ensures final(fmt).out@ == old(fmt).out@ + spec_slice_debug(a.elems, old(fmt).flags), final(fmt).flags == old(fmt).flags { unimplemented!() }

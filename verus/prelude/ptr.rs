// ===================== engine-V prelude: provenance-carrying pointers and slices (TRUSTED) =====================
// Rule R-ptr.  All offsets are in ELEMENTS of T (bytes = elements * size_of::<T>() is exactly C01's lemma).
//   Sl  = a slice / array reference: `len` items of `stride` elements each, starting `off` elements into allocation `base`
//         (stride 1: &[T];  stride N, len 1: &GenericArray<T,N> or &[T;N];  stride N, len k: &[GenericArray<T,N>])
//   Ptr = a raw pointer with the provenance [lo, hi) it was derived from
pub struct Sl { pub base: int, pub off: usize, pub len: usize, pub stride: usize }
#[derive(Clone, Copy)]
pub struct Ptr { pub base: int, pub off: usize, pub stride: usize, pub lo: usize, pub hi: usize }

impl Sl {
    pub open spec fn start(&self) -> int { self.off as int }
    pub open spec fn end(&self) -> int { self.off + self.len * self.stride }
    // a reference is valid only if its extent fits the address space
    pub open spec fn valid(&self) -> bool { self.end() <= usize::MAX && self.len * self.stride * size_of_t() <= isize::MAX && (self.stride == 1 ==> self.len * size_of_t() <= isize::MAX) }
    pub fn len(&self) -> (r: usize) ensures r == self.len { self.len }
    pub fn is_empty(&self) -> (r: bool) ensures r == (self.len == 0) { self.len == 0 }
    // slice.as_ptr() / as_mut_ptr() / `self as *const Self`: provenance is the whole referent
    #[verifier::external_body]
    pub fn as_ptr(&self) -> (p: Ptr)
        ensures p.base == self.base, p.off == self.off, p.stride == self.stride, p.lo == self.off, p.hi as int == self.end(),
    { unimplemented!() }
    // &[] / &mut []: an empty slice somewhere else
    #[verifier::external_body]
    pub fn empty() -> (s: Sl) ensures s.len == 0 { unimplemented!() }
    // the same, typed: `&[]` where a slice of items spanning `stride` elements each is expected
    #[verifier::external_body]
    pub fn empty_of(stride: usize) -> (s: Sl) ensures s.len == 0, s.stride == stride { unimplemented!() }
}
// NonNull::dangling().as_ref() / as_mut(): a well-aligned address that is NOT derived from any reference in scope (nothing is known about it)
#[verifier::external_body]
pub fn dangling_ref() -> (s: Sl) { unimplemented!() }
// Byte sizes (rule R-bytes).  mem::size_of::<T>() is some fixed size, POSSIBLY ZERO; align_of::<T>() is at least 1.
// By C01 a GenericArray<T, N> occupies exactly N * size_of::<T>() bytes; no Rust object exceeds isize::MAX bytes, so the byte
// size of an array type and of a valid slice fits a usize (axioms of the language, stated as contracts of these primitives).
pub uninterp spec fn size_of_t() -> usize;
pub uninterp spec fn align_of_t() -> usize;
#[verifier::external_body]
pub fn size_of_elem() -> (r: usize) ensures r == size_of_t() { unimplemented!() }
#[verifier::external_body]
pub fn align_of_elem() -> (r: usize) ensures r == align_of_t(), r >= 1 { unimplemented!() }
#[verifier::external_body]
pub fn size_of_array<N: ArrayLength>() -> (r: usize) ensures r as int == N::n() * size_of_t() { unimplemented!() }
impl Sl {
    // mem::size_of_val(slice)
    #[verifier::external_body]
    pub fn size_of_val(&self) -> (r: usize) ensures r as int == self.len * self.stride * size_of_t() { unimplemented!() }
}
impl Ptr {
    // `p as *const X`: same address and provenance, the pointee now spans `stride` elements
    #[verifier::external_body]
    pub fn cast(self, stride: usize) -> (p: Ptr) ensures p == (Ptr { stride: stride, ..self }) { unimplemented!() }
    // p.add(k): must stay inside (or one past) the provenance
    #[verifier::external_body]
    pub fn add(self, k: usize) -> (p: Ptr)
        requires self.lo <= self.off, self.off + k * self.stride <= self.hi,
        ensures p == (Ptr { off: (self.off + k * self.stride) as usize, ..self })
    { unimplemented!() }
}
// slice::from_raw_parts(_mut)(p, n): all n items must lie inside the provenance
#[verifier::external_body]
pub fn from_raw_parts(p: Ptr, n: usize) -> (s: Sl)
    requires p.lo <= p.off, p.off + n * p.stride <= p.hi,
    ensures s.base == p.base, s.off == p.off, s.len == n, s.stride == p.stride,
{ unimplemented!() }
// &*p / &mut *p: one whole pointee must lie inside the provenance
#[verifier::external_body]
pub fn deref(p: Ptr) -> (s: Sl)
    requires p.lo <= p.off, p.off + p.stride <= p.hi,
    ensures s.base == p.base, s.off == p.off, s.len == 1, s.stride == p.stride,
{ unimplemented!() }

pub struct LengthError;

proof fn lemma_chunks(l: usize, n: usize)
    requires n > 0,
    ensures (l / n) * n <= l, l - (l / n) * n == l % n, l < n ==> l / n == 0 && l % n == l, l == n ==> l / n == 1 && l % n == 0,
{
    vstd::arithmetic::div_mod::lemma_fundamental_div_mod(l as int, n as int);
    assert((l / n) * n == n * (l / n)) by (nonlinear_arith);
    let q = (l / n) as int; let r = (l % n) as int;
    assert(l as int == (n as int) * q + r && 0 <= r < n as int && 0 <= q);
    if l < n { assert(q == 0) by (nonlinear_arith) requires l as int == (n as int) * q + r, 0 <= r, (l as int) < n as int, n > 0, 0 <= q; assert((n as int) * q == 0) by (nonlinear_arith) requires q == 0; }
    if l == n { assert(q == 1) by (nonlinear_arith) requires l as int == (n as int) * q + r, 0 <= r < n as int, l as int == n as int, n > 0, 0 <= q; assert((n as int) * q == n as int) by (nonlinear_arith) requires q == 1; }
}
// arithmetic facts about L / N and L % N offered to every chunking function at entry (a body that takes a different but
// equivalent route - an early return for L < N, say - must not fail for want of a division lemma)
proof fn lemma_chunks_entry(l: usize, n: usize)
    ensures n > 0 ==> (l / n) * n <= l && l - (l / n) * n == l % n && (l < n ==> l / n == 0 && l % n == l) && (l == n ==> l / n == 1 && l % n == 0),
{
    if n > 0 { lemma_chunks(l, n); }
}

// const_transmute: reading field `b` of `union { a: A, b: B }` after writing `a` reinterprets size_of::<B>() bytes, of which only
// size_of::<A>() were written: defined only when the sizes agree (what mem::transmute checks at compile time)
// `elems`: the element values stored in those bytes, in address order
pub struct Bits { pub size: usize, pub ghost elems: Seq<int> }
#[verifier::external_body]
pub fn union_reinterpret(a: Bits, size_b: usize) -> (b: Bits)
    requires a.size == size_b,
    ensures b.size == size_b, b.elems == a.elems,
{ unimplemented!() }

// mem::transmute of a reference to a reference of another type with the same total extent: the address is unchanged
impl Sl {
    #[verifier::external_body]
    pub fn retype_ref(self, len: usize, stride: usize) -> (r: Sl)
        requires len * stride == self.len * self.stride,        // mem::transmute checks the (thin) pointer size only; the extents must agree
        ensures r.base == self.base, r.off == self.off, r.len == len, r.stride == stride,
    { unimplemented!() }
}

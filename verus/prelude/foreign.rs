// ===================== engine-V prelude: caller-supplied code (TRUSTED) =====================
// Rule R-foreign: a call of a closure parameter / Clone::clone / Iterator::next becomes a method of an opaque object:
// arbitrary result, the call is appended to a ghost log.  Every such call is an unwind point.
pub trait Foreign2<A, B, R> {
    spec fn log(&self) -> Seq<(A, B, R)>;
    fn call(&mut self, a: A, b: B) -> (r: R)
        ensures final(self).log() == old(self).log().push((a, b, r));
}
pub trait ForeignClone: Sized {
    spec fn cloned(&self, r: Self) -> bool;
    fn clone_(&self) -> (r: Self) ensures self.cloned(r);
}
pub trait Foreign1<A, R> {
    spec fn log(&self) -> Seq<(A, R)>;
    fn call(&mut self, a: A) -> (r: R)
        ensures final(self).log() == old(self).log().push((a, r));
}

// ===================== engine-V prelude: hex unit (TRUSTED) =====================
// specification of the output: two digits per byte, high nibble first
pub open spec fn digit(nib: u8, upper: bool) -> u8 {
    if nib < 10 { (48 + nib) as u8 } else if upper { (55 + nib) as u8 } else { (87 + nib) as u8 }
}
pub open spec fn hexdigits(s: Seq<u8>, upper: bool) -> Seq<u8> {
    Seq::new(2 * s.len(), |k: int| if k % 2 == 0 { digit(s[k / 2] >> 4, upper) } else { digit(s[k / 2] & 0xf, upper) })
}
pub open spec fn mini(a: int, b: int) -> int { if a <= b { a } else { b } }

// the formatter: a sink with ghost output (rule R-foreign).  `f.write_str(..)?` - an Err from the sink ends the call and
// is propagated; modelled as always Ok (what is DROPPED: the error path of the sink).
pub struct Fmt { pub precision: Option<usize>, pub out: Ghost<Seq<u8>> }
impl Fmt {
    pub fn precision(&self) -> (r: Option<usize>) ensures r == self.precision { self.precision }
    // f.write_str(unsafe { str::from_utf8_unchecked(buf.get_unchecked(..k)) }) - `..k` must be inside the buffer
    #[verifier::external_body]
    pub fn write_prefix(&mut self, buf: &Vec<u8>, k: usize)
        requires k <= buf@.len(),
        ensures final(self).out@ == old(self).out@ + buf@.subrange(0, k as int), final(self).precision == old(self).precision,
    { unimplemented!() }
}

// GenericArray::<u8, Sum<N, N>>::default() and [0u8; 2048]: a zeroed byte buffer of the given length (rule R-slots for plain bytes)
#[verifier::external_body]
pub fn zeroed(len: usize) -> (v: Vec<u8>) ensures v@.len() == len { unimplemented!() }

// &s[lo..hi] (rule R-view): bounds are a precondition, exactly as for the slice index operator
#[verifier::external_body]
pub fn subslice(s: &[u8], lo: usize, hi: usize) -> (r: &[u8])
    requires lo <= hi <= s@.len(), ensures r@ == s@.subrange(lo as int, hi as int)
{ unimplemented!() }

// ASSUMED contract of the external dependency faster_hex::hex_encode / hex_encode_upper (feature faster-hex):
// Err iff the destination is too short; otherwise the first 2*len bytes are the digits, the rest is untouched.
#[verifier::external_body]
pub fn faster_hex_encode(src: &[u8], dst: &mut Vec<u8>, upper: bool) -> (r: Result<(), ()>)
    ensures final(dst)@.len() == old(dst)@.len(),
        r.is_err() <==> old(dst)@.len() < 2 * src@.len(),
        r.is_ok() ==> final(dst)@.subrange(0, 2 * src@.len() as int) == hexdigits(src@, upper)
            && final(dst)@.subrange(2 * src@.len() as int, old(dst)@.len() as int) == old(dst)@.subrange(2 * src@.len() as int, old(dst)@.len() as int),
{ unimplemented!() }

// .unwrap_unchecked(): undefined behaviour on Err, so Ok is a precondition
pub fn unwrap_unchecked_unit(r: Result<(), ()>) requires r.is_ok() {}

proof fn lemma_hex_prefix(s: Seq<u8>, k: int, upper: bool)
    requires 0 <= k <= s.len(),
    ensures hexdigits(s.subrange(0, k), upper) =~= hexdigits(s, upper).subrange(0, 2 * k),
{}
proof fn lemma_hex_concat(a: Seq<u8>, b: Seq<u8>, upper: bool)
    ensures hexdigits(a + b, upper) =~= hexdigits(a, upper) + hexdigits(b, upper),
{
    assert forall|k: int| 0 <= k < 2 * (a.len() + b.len()) implies hexdigits(a + b, upper)[k] == (hexdigits(a, upper) + hexdigits(b, upper))[k] by {
        if k < 2 * a.len() { assert((a + b)[k / 2] == a[k / 2]); }
        else { assert((k - 2 * a.len()) / 2 == k / 2 - a.len()); assert((k - 2 * a.len()) % 2 == k % 2); assert((a + b)[k / 2] == b[k / 2 - a.len()]); }
    }
}

// ===================== engine-V prelude: slot ledger (TRUSTED) =====================
// Rule R-slots: a field or local of type GenericArray<T,N> / ManuallyDrop<..> / GenericArray<MaybeUninit<T>,N> becomes
// `Slots<T,N>`, whose view is Seq<Option<T>>: Some(v) = slot initialised and owned here, None = uninitialised / moved out /
// dropped.  "At most once" is a PRECONDITION of every primitive; "at least once" is the forget / function-exit obligation.
#[verifier::external_body]
#[verifier::accept_recursive_types(T)]
#[verifier::accept_recursive_types(N)]
pub struct Slots<T, N> { _p: core::marker::PhantomData<(T, N)> }

// a borrowed sub-slice of a Slots block: (lo, hi) element range; produced by rule R-view
pub struct SliceRange { pub lo: usize, pub hi: usize }

impl<T, N: ArrayLength> Slots<T, N> {
    pub uninterp spec fn view(&self) -> Seq<Option<T>>;

    pub open spec fn ok(&self) -> bool { self.view().len() == N::n() }
    pub open spec fn live(&self, k: int) -> bool { self.view()[k].is_some() }
    pub open spec fn all_dead(&self) -> bool { forall|k: int| 0 <= k < N::n() ==> (#[trigger] self.view()[k]).is_none() }
    pub open spec fn all_live(&self) -> bool { forall|k: int| 0 <= k < N::n() ==> (#[trigger] self.view()[k]).is_some() }
    pub open spec fn live_in(&self, lo: int, hi: int) -> bool { forall|k: int| lo <= k < hi ==> (#[trigger] self.view()[k]).is_some() }

    // R-read: ptr::read(X.get_unchecked(i)) - moves the value out of slot i
    #[verifier::external_body]
    pub fn take(&mut self, i: usize) -> (r: T)
        requires old(self).ok(), i < N::n(), old(self).live(i as int),
        ensures final(self).view() == old(self).view().update(i as int, None), r == old(self).view()[i as int].unwrap(),
    { unimplemented!() }

    // R-write: ptr::write(dst, v) / dst.write(v) - slot must not hold an owned value (it would be overwritten without drop)
    #[verifier::external_body]
    pub fn put(&mut self, i: usize, v: T)
        requires old(self).ok(), i < N::n(), !old(self).live(i as int),
        ensures final(self).view() == old(self).view().update(i as int, Some(v)),
    { unimplemented!() }

    // shared read of slot i
    #[verifier::external_body]
    pub fn peek(&self, i: usize) -> (r: &T)
        requires self.ok(), i < N::n(), self.live(i as int),
        ensures *r == self.view()[i as int].unwrap(),
    { unimplemented!() }

    // R-dip: ptr::drop_in_place(X.get_unchecked_mut(lo..hi)) - runs the destructors of slots [lo, hi)
    #[verifier::external_body]
    pub fn drop_range(&mut self, lo: usize, hi: usize)
        requires old(self).ok(), lo <= hi <= N::n(), old(self).live_in(lo as int, hi as int),
        ensures final(self).ok(),
                forall|k: int| 0 <= k < N::n() ==> #[trigger] final(self).view()[k] == (if lo <= k < hi { None } else { old(self).view()[k] }),
    { unimplemented!() }

    // R-view: X.get_unchecked(lo..hi) / get_unchecked_mut(lo..hi): the range must lie inside the block and be initialised
    #[verifier::external_body]
    pub fn range(&self, lo: usize, hi: usize) -> (r: SliceRange)
        requires self.ok(), lo <= hi <= N::n(), self.live_in(lo as int, hi as int),
        ensures r.lo == lo, r.hi == hi,
    { unimplemented!() }

    // ptr::read(&self.array) of a ManuallyDrop array: bitwise copy whose slots are owned by nobody yet
    #[verifier::external_body]
    pub fn bitcopy_dead(&self) -> (r: Self)
        requires self.ok(),
        ensures r.ok(), r.all_dead(),
    { unimplemented!() }

    // R-forget: mem::forget of the owner - a leak unless nothing is live
    #[verifier::external_body]
    pub fn forget(self)
        requires self.ok(), self.all_dead(),
    { unimplemented!() }
}

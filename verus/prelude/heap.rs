// ===================== engine-V prelude: heap blocks (TRUSTED) =====================
// A heap block is identified by `id` and was requested with room for `elems` elements of T at T's alignment (by C01 a
// GenericArray<T, N> has exactly the layout of N elements of T).  Box::from_raw frees - eventually - with the layout of
// the pointee type it is given, so that layout must be the one the block was requested with (size AND alignment).
// `content`: the values of the initialised elements the block holds, in order (ids of abstract values)
pub struct Block { pub id: int, pub elems: nat, pub content: Seq<int> }
pub struct BoxArr { pub block: Block }                    // Box<GenericArray<T, N>>: block.elems == N
pub struct BoxSlice { pub block: Block, pub len: usize }  // Box<[T]>: block.elems == len
pub struct VecT { pub block: Block, pub len: usize, pub cap: usize }   // Vec<T>: block.elems == cap
pub struct RawPtr { pub block: Block }

impl BoxSlice {
    pub open spec fn wf(&self) -> bool { self.block.elems == self.len }
    pub fn len(&self) -> (r: usize) ensures r == self.len { self.len }
}
impl VecT {
    pub open spec fn wf(&self) -> bool { self.block.elems == self.cap && self.len <= self.cap }
    pub fn len(&self) -> (r: usize) ensures r == self.len { self.len }
    // Vec::into_boxed_slice (std, assumed contract): shrinks to fit - the same block when len == capacity
    #[verifier::external_body]
    pub fn into_boxed_slice(self) -> (r: BoxSlice)
        requires self.wf(),
        ensures r.wf(), r.len == self.len, self.len == self.cap ==> r.block == self.block, r.block.content == self.block.content,
    { unimplemented!() }
}
// Box::into_raw: the caller now owns the block
#[verifier::external_body]
pub fn box_arr_into_raw<N: ArrayLength>(b: BoxArr) -> (p: RawPtr) requires b.block.elems == N::n(), ensures p.block == b.block { unimplemented!() }
#[verifier::external_body]
pub fn box_slice_into_raw(b: BoxSlice) -> (p: RawPtr) requires b.wf(), ensures p.block == b.block { unimplemented!() }
// Box::from_raw(slice_from_raw_parts_mut(p as *mut T, len)): the new Box<[T]> will free `len` elements
#[verifier::external_body]
pub fn box_slice_from_raw(p: RawPtr, len: usize) -> (r: BoxSlice)
    requires p.block.elems == len,
    ensures r.block == p.block, r.len == len, r.wf(),
{ unimplemented!() }
// Box::from_raw(p as *mut GenericArray<T, N>): the new Box will free N elements
#[verifier::external_body]
pub fn box_arr_from_raw<N: ArrayLength>(p: RawPtr) -> (r: BoxArr)
    requires p.block.elems == N::n(),
    ensures r.block == p.block,
{ unimplemented!() }
// Vec::from(Box<[T]>) (std, assumed contract): same block, len == capacity
#[verifier::external_body]
pub fn vec_from_box_slice(b: BoxSlice) -> (v: VecT) requires b.wf(), ensures v.wf(), v.block == b.block, v.len == b.len, v.cap == b.len { unimplemented!() }
// dropping a Box<[T]> whose elements nobody else owns (the error path of the conversions)
pub fn drop_box_slice(b: BoxSlice) requires b.wf() {}

pub struct LengthError;

// ===================== engine-V prelude: element moves inside one block (TRUSTED) =====================
impl<T, N: ArrayLength> Slots<T, N> {
    // ptr::copy(dst.add(1), dst, cnt) where dst = base.add(i): memmove of `cnt` elements one slot down.  Ownership view: the
    // values move with their bits; the destination range must not hold values owned by anyone else (they would be
    // overwritten without being dropped), the vacated last slot holds a stale duplicate nobody owns.
    #[verifier::external_body]
    pub fn shift_down(&mut self, i: usize, cnt: usize)
        requires old(self).ok(), i + 1 + cnt <= N::n(), !old(self).live(i as int), old(self).live_in(i + 1, i + 1 + cnt),
        ensures final(self).ok(),
            forall|k: int| 0 <= k < N::n() ==> #[trigger] final(self).view()[k] ==
                (if i <= k < i + cnt { old(self).view()[k + 1] } else if k == i + cnt { None } else { old(self).view()[k] }),
    { unimplemented!() }

    // <[T]>::swap(a, b): bounds-checked by the slice (a panic is not UB), both slots initialised
    #[verifier::external_body]
    pub fn swap(&mut self, a: usize, b: usize)
        requires old(self).ok(), a < N::n(), b < N::n(), old(self).live(a as int), old(self).live(b as int),
        ensures final(self).view() == old(self).view().update(a as int, old(self).view()[b as int]).update(b as int, old(self).view()[a as int]),
    { unimplemented!() }

    // mem::transmute_copy(&array) to GenericArray<T, Sub1<N>>: reads the first N-1 slots as a fully initialised array.
    // Everything read must be initialised; the slot left behind must hold nothing owned (it would leak).
    #[verifier::external_body]
    pub fn read_prefix_as_array(self) -> (r: Seq<T>)
        requires self.ok(), N::n() >= 1, self.live_in(0, N::n() - 1), !self.live(N::n() - 1),
        ensures r.len() == N::n() - 1, forall|k: int| 0 <= k < N::n() - 1 ==> #[trigger] r[k] == self.view()[k].unwrap(),
    { unimplemented!() }

    // an owned GenericArray<T, N> that is dropped normally (by scope exit or by unwinding): releases every element once
    #[verifier::external_body]
    pub fn drop_owned(self)
        requires self.ok(), self.all_live(),
    { unimplemented!() }

    pub open spec fn elems(&self) -> Seq<T> { Seq::new(N::n() as nat, |k: int| self.view()[k].unwrap()) }
}

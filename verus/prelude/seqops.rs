// ===================== engine-V prelude: element moves inside one block (TRUSTED) =====================
impl<T, N: ArrayLength> Slots<T, N> {
    // ptr::copy(dst.add(1), dst, cnt) where dst = base.add(i): memmove of `cnt` elements one slot down.  Ownership view: the
    // values move with their bits; the destination range must not hold values owned by anyone else (they would be
    // overwritten without being dropped), the vacated last slot holds a stale duplicate nobody owns.
    #[verifier::external_body]
    pub fn shift_down(&mut self, i: usize, cnt: usize)
        requires old(self).ok(), i + 1 + cnt <= N::n(), !old(self).live(i as int), old(self).live_in(i + 1, i + 1 + cnt),
        ensures final(self).ok(),
            forall|k: int| 0 <= k < N::n() ==> #[trigger] final(self).view()[k] ==
                (if i <= k < i + cnt { old(self).view()[k + 1] } else if k == i + cnt { None } else { old(self).view()[k] }),
    { unimplemented!() }

    // <[T]>::swap(a, b): bounds-checked by the slice (a panic is not UB), both slots initialised
    #[verifier::external_body]
    pub fn swap(&mut self, a: usize, b: usize)
        requires old(self).ok(), a < N::n(), b < N::n(), old(self).live(a as int), old(self).live(b as int),
        ensures final(self).view() == old(self).view().update(a as int, old(self).view()[b as int]).update(b as int, old(self).view()[a as int]),
    { unimplemented!() }

    // mem::transmute_copy(&array) to GenericArray<T, Sub1<N>>: reads the first N-1 slots as a fully initialised array.
    // Everything read must be initialised; the slot left behind must hold nothing owned (it would leak).
    #[verifier::external_body]
    pub fn read_prefix_as_array(self) -> (r: Seq<T>)
        requires self.ok(), N::n() >= 1, self.live_in(0, N::n() - 1), !self.live(N::n() - 1),
        ensures r.len() == N::n() - 1, forall|k: int| 0 <= k < N::n() - 1 ==> #[trigger] r[k] == self.view()[k].unwrap(),
    { unimplemented!() }

    // an owned GenericArray<T, N> that is dropped normally (by scope exit or by unwinding): releases every element once
    #[verifier::external_body]
    pub fn drop_owned(self)
        requires self.ok(), self.all_live(),
    { unimplemented!() }

    pub open spec fn elems(&self) -> Seq<T> { Seq::new(N::n() as nat, |k: int| self.view()[k].unwrap()) }
}

// ---- whole-array moves into a longer / out of a whole array (append, prepend, pop, split, concat) ----
// An output buffer MaybeUninit<GenericArray<T, L>> of L element slots, and a typed cursor into it (rule R-ptr in elements).
pub struct OutBuf<T> { pub slots: Seq<Option<T>> }
#[derive(Clone, Copy)]
pub struct Cur { pub off: usize, pub stride: usize }

impl<T> OutBuf<T> {
    // MaybeUninit::<GenericArray<T, L>>::uninit()
    #[verifier::external_body]
    pub fn uninit(len: usize) -> (r: Self) ensures r.slots.len() == len, forall|k: int| 0 <= k < len ==> (#[trigger] r.slots[k]).is_none() { unimplemented!() }
    // buf.as_mut_ptr() as *mut X: cursor at element 0, pointee spanning `stride` elements
    pub fn as_mut_ptr(&self, stride: usize) -> (c: Cur) ensures c.off == 0, c.stride == stride { Cur { off: 0, stride } }
    // ptr::write(cur as *mut GenericArray<T, K>, array): K elements, all inside the buffer, over slots that hold nothing
    #[verifier::external_body]
    pub fn write_array(&mut self, c: Cur, src: Seq<T>)
        requires c.off + src.len() <= old(self).slots.len(), forall|k: int| c.off <= k < c.off + src.len() ==> (#[trigger] old(self).slots[k]).is_none(),
        ensures final(self).slots.len() == old(self).slots.len(),
            forall|k: int| 0 <= k < old(self).slots.len() ==> #[trigger] final(self).slots[k] == (if c.off <= k < c.off + src.len() { Some(src[k - c.off]) } else { old(self).slots[k] }),
    { unimplemented!() }
    // ptr::write(cur as *mut T, v)
    #[verifier::external_body]
    pub fn write_elem(&mut self, c: Cur, v: T)
        requires c.off < old(self).slots.len(), old(self).slots[c.off as int].is_none(),
        ensures final(self).slots == old(self).slots.update(c.off as int, Some(v)),
    { unimplemented!() }
    // buf.assume_init(): UB unless every slot is initialised
    #[verifier::external_body]
    pub fn assume_init(self) -> (r: Seq<T>)
        requires forall|k: int| 0 <= k < self.slots.len() ==> (#[trigger] self.slots[k]).is_some(),
        ensures r.len() == self.slots.len(), forall|k: int| 0 <= k < r.len() ==> #[trigger] r[k] == self.slots[k].unwrap(),
    { unimplemented!() }
}
impl Cur {
    // cur.add(k) / cur.offset(k): k pointees further
    pub fn add(self, k: usize) -> (c: Cur) requires self.off + k * self.stride <= usize::MAX, ensures c.off == self.off + k * self.stride, c.stride == self.stride
    { Cur { off: self.off + k * self.stride, stride: self.stride } }
    // `as *mut X`: same address, new pointee extent
    pub fn cast(self, stride: usize) -> (c: Cur) ensures c.off == self.off, c.stride == stride { Cur { off: self.off, stride } }
}
// a whole array wrapped in ManuallyDrop whose elements are moved out piecewise with ptr::read
pub struct Whole<T> { pub slots: Seq<Option<T>> }
impl<T> Whole<T> {
    #[verifier::external_body]
    pub fn new(a: Seq<T>) -> (r: Self) ensures r.slots.len() == a.len(), forall|k: int| 0 <= k < a.len() ==> #[trigger] r.slots[k] == Some(a[k]) { unimplemented!() }
    pub fn as_ptr(&self) -> (c: Cur) ensures c.off == 0, c.stride == 1 { Cur { off: 0, stride: 1 } }
    // ptr::read(cur as *const GenericArray<T, K>): K elements inside the array, each still owned here (else: duplicate)
    #[verifier::external_body]
    pub fn read_array(&mut self, c: Cur, k: usize) -> (r: Seq<T>)
        requires c.off + k <= old(self).slots.len(), forall|j: int| c.off <= j < c.off + k ==> (#[trigger] old(self).slots[j]).is_some(),
        ensures r.len() == k, forall|j: int| 0 <= j < k ==> #[trigger] r[j] == old(self).slots[c.off + j].unwrap(),
            final(self).slots.len() == old(self).slots.len(),
            forall|j: int| 0 <= j < old(self).slots.len() ==> #[trigger] final(self).slots[j] == (if c.off <= j < c.off + k { None } else { old(self).slots[j] }),
    { unimplemented!() }
    #[verifier::external_body]
    pub fn read_elem(&mut self, c: Cur) -> (r: T)
        requires c.off < old(self).slots.len(), old(self).slots[c.off as int].is_some(),
        ensures r == old(self).slots[c.off as int].unwrap(), final(self).slots == old(self).slots.update(c.off as int, None),
    { unimplemented!() }
    // end of scope of the ManuallyDrop: whatever is still owned here leaks
    pub fn scope_exit(&self) requires forall|j: int| 0 <= j < self.slots.len() ==> (#[trigger] self.slots[j]).is_none() {}
}

// ===================== engine-V prelude: macro expansions (TRUSTED) =====================
// One element expression of a macro invocation.  Evaluating expression number i is a foreign computation: it appends i to the
// evaluation log and yields the abstract value number i.  (An expression that is evaluated twice, or out of order, shows in the log.)
pub struct Val { pub id: usize }
pub struct Log { pub ghost order: Seq<int> }
#[verifier::external_body]
pub fn ev(log: &mut Log, i: usize) -> (v: Val)
    ensures final(log).order == old(log).order.push(i as int), v.id == i,
{ unimplemented!() }

// A native array [T; U]: its length and the values it holds, in index order.  A native array LITERAL is read by Verus itself
// (elements evaluated left to right, as in Rust); `arr_lit` only forgets the const-generic length.
pub struct Arr { pub len: usize, pub ghost elems: Seq<int> }
#[verifier::external_body]
pub fn arr_lit<const U: usize>(a: [Val; U]) -> (r: Arr)
    ensures r.len == U, r.elems == Seq::new(U as nat, |i: int| a@[i].id as int),
{ unimplemented!() }
// [x; n] with x: Copy - x is evaluated once, the array holds n bitwise copies
#[verifier::external_body]
pub fn arr_repeat(x: Val, n: usize) -> (r: Arr)
    ensures r.len == n, r.elems == Seq::new(n as nat, |i: int| x.id as int),
{ unimplemented!() }
// the bytes of a native array: `len` elements (sizes are in elements of T; bytes are factored out by C01)
#[verifier::external_body]
pub fn bits_of_arr(a: Arr) -> (b: Bits)
    ensures b.size == a.len, b.elems == a.elems,
{ unimplemented!() }
// GenericArray<T, N> is N elements of T and nothing else (C01, unit layout)
pub struct GA { pub ghost elems: Seq<int> }
#[verifier::external_body]
pub fn ga_of_bits<N: ArrayLength>(b: Bits) -> (g: GA)
    requires b.size == N::n(),
    ensures g.elems == b.elems,
{ unimplemented!() }

// alloc::vec![e0, .., ek] and alloc::vec![x; n] (alloc, assumed contracts): a fresh block holding exactly those values
#[verifier::external_body]
pub fn vec_lit<const U: usize>(a: [Val; U]) -> (v: VecT)
    ensures v.wf(), v.len == U, v.cap == U, v.block.content == Seq::new(U as nat, |i: int| a@[i].id as int),
{ unimplemented!() }
#[verifier::external_body]
pub fn vec_repeat(x: Val, n: usize) -> (v: VecT)
    ensures v.wf(), v.len == n, v.cap >= n, v.block.content == Seq::new(n as nat, |i: int| x.id as int),
{ unimplemented!() }
// Result::unwrap_unchecked: undefined behaviour unless the value is Ok
#[verifier::external_body]
pub fn unwrap_unchecked(r: Result<BoxArr, LengthError>) -> (b: BoxArr)
    requires r is Ok,
    ensures b == r->Ok_0,
{ unimplemented!() }

// ===================== engine-V prelude: common (TRUSTED; the only place external_body may appear) =====================
// Type-level lengths: rule R-len maps `N::USIZE` to `N::usize_()`; `n()` is the mathematical length.
pub trait ArrayLength { spec fn n() -> usize; fn usize_() -> (r: usize) ensures r == Self::n(); }

pub open spec fn min_spec(a: usize, b: usize) -> usize { if a <= b { a } else { b } }
// core::cmp::min on usize (rule R-misc)
pub fn cmp_min(a: usize, b: usize) -> (r: usize) ensures r == min_spec(a, b) { if a <= b { a } else { b } }

// rule R-panic: a function that may panic returns PanicOr; `ret is Panic <==> ..` is then an ordinary postcondition
pub enum PanicOr<R> { Panic, Ret(R) }

// ===================== engine-V prelude: construction (TRUSTED) =====================
impl<T, N: ArrayLength> Slots<T, N> {
    // GenericArray::uninit(): a block of N uninitialised slots
    #[verifier::external_body]
    pub fn uninit() -> (r: Self) ensures r.ok(), r.all_dead() { unimplemented!() }

    // a MaybeUninit array going out of scope is not dropped: anything still live in it is leaked
    pub fn scope_exit_unowned(&self) requires self.ok(), self.all_dead() {}
}

// the finished array: a fully live block
pub struct GenericArray<T, N: ArrayLength> { pub slots: Slots<T, N> }
impl<T, N: ArrayLength> GenericArray<T, N> {
    pub open spec fn elems(&self) -> Seq<T> { Seq::new(N::n() as nat, |k: int| self.slots.view()[k].unwrap()) }
}
// ptr::read(&array as *const _ as *const MaybeUninit<GenericArray<T, N>>).assume_init(): UB unless every slot is initialised
#[verifier::external_body]
pub fn assume_init_read<T, N: ArrayLength>(array: Slots<T, N>) -> (r: GenericArray<T, N>)
    requires array.ok(), array.all_live(),
    ensures r.slots == array,
{ unimplemented!() }

// Box::<GenericArray<MaybeUninit<T>, N>>::new_uninit().assume_init(): std allocates (or ends in handle_alloc_error - assumed
// contract of Box::new_uninit) and the Box owns the block; for the slot ledger a boxed block is a block (rule R-box)
#[verifier::external_body]
pub fn box_new_uninit<T, N: ArrayLength>() -> (r: Slots<T, N>) ensures r.ok(), r.all_dead() { unimplemented!() }
// Box::from_raw(Box::into_raw(array).cast()): reinterprets Box<[MaybeUninit<T>; N]> as Box<[T; N]> - UB unless all initialised
#[verifier::external_body]
pub fn box_assume_init<T, N: ArrayLength>(array: Slots<T, N>) -> (r: GenericArray<T, N>)
    requires array.ok(), array.all_live(),
    ensures r.slots == array,
{ unimplemented!() }

pub struct LengthError;

// caller-supplied iterator (rule R-foreign): opaque; its ghost state is everything it has returned so far, so sources
// that are not fused, and every item count, are covered by quantification
pub trait ForeignIter<T> {
    spec fn returned(&self) -> Seq<Option<T>>;
    spec fn hint(&self) -> (usize, Option<usize>);
    // whatever the iterator's owner needs preserved across polls, and ghost data that stays fixed (used by the closure
    // conversion of lazy adapter pipelines, rule R-pipe; an opaque caller-supplied iterator may choose `true` / `()`)
    spec fn inv(&self) -> bool;
    type K;
    spec fn konst(&self) -> Self::K;
    fn next(&mut self) -> (r: Option<T>)
        requires old(self).inv(),
        ensures final(self).inv(), final(self).konst() == old(self).konst(), final(self).returned() == old(self).returned().push(r);
    fn size_hint(&self) -> (r: (usize, Option<usize>)) requires self.inv(), ensures r == self.hint();
}
pub open spec fn polled_after_none<T>(s: Seq<Option<T>>) -> bool {
    exists|i: int| 0 <= i < s.len() - 1 && (#[trigger] s[i]).is_none()
}

"""V unit `impls`: PartialEq / PartialOrd / Ord / Hash / Debug / Borrow / AsRef for GenericArray (src/impls.rs), C13, for ALL N.
The bodies are one-line delegations; what is proved is that each hands core's SLICE operation exactly the slices of the same
elements (and the caller's hasher / formatter, untouched), so the result is by definition the slice's result - including
incomparable elements, the length prefix of the hash, and every format flag."""
import re

NAME = 'impls'
PROPS = ['C13']
DROPPED = 'core\'s slice comparison / hashing / formatting (opaque spec functions; engine K runs the real ones per instantiation); trait dispatch'
FILE = 'src/impls.rs'


def generate(g, ex):
    from verus_engine import Fn
    g.raw('use vstd::prelude::*;\nverus! {\n')
    g.prelude('cmp.rs')
    g.raw('\n// ===== extracted: src/impls.rs =====\n')

    def one(impl, fn, vname, vsig, ensures, rules):
        f = g.extract_method(FILE, impl, fn)
        stats = {}
        body = ex.normalize(f['body'])
        n = ex.statements(body)
        body = ex.apply_rules(body, rules, stats)
        ex.check_supported(vname, body)
        if re.search(r'\*\*|\bPartialOrd::|\bOrd::|\bHash::|\.fmt\(|core::ptr', body):
            raise ex.Unsupported('%s: body is not a plain delegation to the slice operation: %s' % (vname, body))
        g.emit_fn(Fn(vname, FILE, f['line'], f['sig'], vsig, body, [], ensures, stats, n, PROPS))

    one('impl<T: PartialEq, N: ArrayLength> PartialEq for GenericArray<T, N>', 'eq', 'eq', 'pub fn eq<T>(self_: &ArrV<T>, other: &ArrV<T>) -> (r: bool)',
        [('as-slices', PROPS, 'r == spec_slice_eq(self_.elems, other.elems)')],
        [('R-call', r'^\*\*self == \*\*other$', 'slice_eq(self_.deref(), other.deref())')])
    one('impl<T: PartialOrd, N: ArrayLength> PartialOrd for GenericArray<T, N>', 'partial_cmp', 'partial_cmp', 'pub fn partial_cmp<T>(self_: &ArrV<T>, other: &ArrV<T>) -> (r: i8)',
        [('as-slices', PROPS, 'r as int == spec_slice_partial_cmp(self_.elems, other.elems)')],
        [('R-call', r'^PartialOrd::partial_cmp\(self\.as_slice\(\), other\.as_slice\(\)\)$', 'slice_partial_cmp(self_.as_slice(), other.as_slice())')])
    one('impl<T: Ord, N: ArrayLength> Ord for GenericArray<T, N>', 'cmp', 'cmp', 'pub fn cmp<T>(self_: &ArrV<T>, other: &ArrV<T>) -> (r: i8)',
        [('as-slices', PROPS, 'r as int == spec_slice_cmp(self_.elems, other.elems)')],
        [('R-call', r'^Ord::cmp\(self\.as_slice\(\), other\.as_slice\(\)\)$', 'slice_cmp(self_.as_slice(), other.as_slice())')])
    one('impl<T: Hash, N: ArrayLength> Hash for GenericArray<T, N>', 'hash', 'hash', 'pub fn hash<T>(self_: &ArrV<T>, state: &mut Hasher_)',
        [('feeds-what-the-slice-feeds', PROPS, 'final(state).fed@ == old(state).fed@ + spec_slice_hash(self_.elems)')],
        [('R-call', r'^Hash::hash\(self\.as_slice\(\), state\)$', 'slice_hash(self_.as_slice(), state)')])
    one('impl<T: Debug, N: ArrayLength> Debug for GenericArray<T, N>', 'fmt', 'debug_fmt', 'pub fn debug_fmt<T>(self_: &ArrV<T>, fmt: &mut Fmt)',
        [('prints-what-the-slice-prints-under-the-same-flags', PROPS, 'final(fmt).out@ == old(fmt).out@ + spec_slice_debug(self_.elems, old(fmt).flags)')],
        [('R-call', r'^self\.as_slice\(\)\.fmt\(fmt\)$', 'slice_debug_fmt(self_.as_slice(), fmt)')])
    for impl, fn, vname in (('impl<T, N: ArrayLength> Borrow<[T]> for GenericArray<T, N>', 'borrow', 'borrow'),
                            ('impl<T, N: ArrayLength> AsRef<[T]> for GenericArray<T, N>', 'as_ref', 'as_ref_slice')):
        one(impl, fn, vname, 'pub fn %s<T>(self_: &ArrV<T>) -> (r: SliceV<T>)' % vname,
            [('is-the-slice', PROPS, 'r.elems == self_.elems && r.addr == self_.addr')],
            [('R-call', r'^self\.as_slice\(\)$', 'self_.as_slice()')])
    g.raw('proof fn canary() { assert(false); } /*OB:canary:*/')
    g.raw('} // verus!\nfn main() {}\n')


def props_for(fname, what):
    return PROPS

"""V unit `views`: the reference reinterpretations of src/lib.rs (C02, C10) for ALL N and ALL slice lengths L.

Extracted: as_slice, as_mut_slice, from_slice, try_from_slice, from_mut_slice, try_from_mut_slice, chunks_from_slice,
chunks_from_slice_mut, slice_from_chunks, slice_from_chunks_mut.  Pointers carry their provenance (rule R-ptr), so an
out-of-range reinterpretation fails a precondition of `deref` / `from_raw_parts` / `add`, not just a postcondition;
panics are values (rule R-panic), so "panics iff L != N" is an ordinary postcondition."""
import re

NAME = 'views'
PROPS = ['C02', 'C09', 'C10', 'C11', 'C18']
DROPPED = 'bytes (offsets are in elements; element size is factored out by C01); panic messages; the const-ness of the functions'
FILE = 'src/lib.rs'
GA = 'impl<T, N: ArrayLength> GenericArray<T, N>'


def find_in_impls(g, ex, name):
    text = g.src(FILE)
    for mm in re.finditer(r'impl<T, N: ArrayLength> GenericArray<T, N>\s*\{', text):
        i = mm.end() - 1
        j = ex.match_brace(text, i)
        block = text[i + 1:j]
        if re.search(r'\bfn\s+' + name + r'\s*[<(]', block):
            return ex.find_fn(block, name, i + 1, text)
    raise ex.LostAnchor('fn %s not found in any `%s` block' % (name, GA))


RULES = [
    ('R-misc', r'\bunsafe \{', '{'),
    # byte sizes: the element size is some fixed number, possibly zero (a length test written in bytes says nothing for zero-sized T)
    ('R-bytes', r'\b(?:core::)?mem::size_of::<T>\(\)', 'size_of_elem()'),
    ('R-bytes', r'\b(?:core::)?mem::align_of::<T>\(\)', 'align_of_elem()'),
    ('R-bytes', r'\b(?:core::)?mem::size_of::<(?:Self|GenericArray<T, N>)>\(\)', 'size_of_array::<N>()'),
    ('R-bytes', r'\b(?:core::)?mem::size_of_val(?:::<\[T\]>)?\(&?slice\)', 'slice.size_of_val()'),
    ('R-len', r'\bN::USIZE\b', 'N::usize_()'),
    # the same reinterpretations written with `pointer::cast::<X>()` instead of `as *const X`
    ('R-ptr', r'&(?:mut )?\*\(?slice\.as_(?:mut_)?ptr\(\)\.cast::<GenericArray<T, N>>\(\)\)?', 'deref(slice.as_ptr().cast(N::usize_()))'),
    ('R-ptr', r'\(self as \*(?:const|mut) Self\)\.cast::<T>\(\)', 'self_.as_ptr().cast(1)'),
    ('R-ptr', r'\bslice\.as_(?:mut_)?ptr\(\)\.cast::<GenericArray<T, N>>\(\)', 'slice.as_ptr().cast(N::usize_())'),
    ('R-ptr', r'\bslice\.as_(?:mut_)?ptr\(\)\.cast::<T>\(\)', 'slice.as_ptr().cast(1)'),
    ('R-ptr', r'&(?:mut )?\*\(slice\.as_(?:mut_)?ptr\(\) as \*(?:const|mut) GenericArray<T, N>\)', 'deref(slice.as_ptr().cast(N::usize_()))'),
    ('R-ptr', r'\bself as \*(?:const|mut) Self as \*(?:const|mut) T\b', 'self_.as_ptr().cast(1)'),
    ('R-ptr', r'\bslice\.as_(?:mut_)?ptr\(\) as \*(?:const|mut) GenericArray<T, N>', 'slice.as_ptr().cast(N::usize_())'),
    ('R-ptr', r'\bslice\.as_(?:mut_)?ptr\(\) as \*(?:const|mut) T\b', 'slice.as_ptr().cast(1)'),
    ('R-ptr', r'\bslice\.as_mut_ptr\(\)', 'slice.as_ptr()'),
    ('R-ptr', r'\bslice::from_raw_parts(?:_mut)?\(', 'from_raw_parts('),
    ('R-panic', r'panic!\("[^"]*"\);', 'return PanicOr::Panic;'),
    # a debug assertion is absent in release builds: it guarantees nothing, but it must never be able to fail
    ('R-panic', r'debug_assert!\( ?([^,;]+?)(?:, "[^"]*")?,? ?\);', r'if !(\1) { assert(false) /*OB:views.debug-assertion-can-never-fail:C02,C10,C18*/; }'),
    ('R-panic', r'(?<!debug_)assert!\( ?([^,]+), "[^"]*",? ?\);', r'if !(\1) { return PanicOr::Panic; }'),
    # `&[]` typed by the declared result (&[GenericArray<T, N>], &[T]): items of N elements, items of 1 element
    ('R-view', r'\(&(?:mut )?\[\], &(?:mut )?\[\]\)', '(Sl::empty_of(N::usize_()), Sl::empty_of(1))'),
    ('R-view', r'\(&(?:mut )?\[\], slice\)', '(Sl::empty_of(N::usize_()), slice)'),
    ('R-panic', r'\breturn (?!PanicOr)([^;]+);', r'return PanicOr::Ret(\1);'),
    ('R-call', r'GenericArray::from_mut_slice\(slice\)', 'match from_mut_slice::<N>(slice) { PanicOr::Ret(__r) => __r, PanicOr::Panic => { return PanicOr::Panic; } }'),
]

SRC_OK = 'slice.valid()'


def emit_const_transmute(g, ex, panic_props, same_props, span_props):
    """const_transmute (free fn): panics iff the sizes differ; the union read needs equal sizes and yields the same bytes,
    i.e. the same element sequence (used by the units views and macros)"""
    from verus_engine import Fn
    f = g.extract_free(FILE, 'const_transmute')
    stats = {}
    body = ex.normalize(f['body'])
    n = ex.statements(body)
    body = ex.apply_rules(body, [
        ('R-len', r'mem::size_of::<A>\(\)', 'a.size'),
        ('R-len', r'mem::size_of::<B>\(\)', 'size_b'),
        ('R-panic', r'panic!\("[^"]*"\);', 'return PanicOr::Panic;'),
        ('R-misc', r'union Union<A, B> \{ a: ManuallyDrop<A>, b: ManuallyDrop<B>, \} ', ''),
        ('R-slots', r'let a = ManuallyDrop::new\(a\); ', ''),
        ('R-ptr', r'ManuallyDrop::into_inner\(Union \{ a \}\.b\)', 'PanicOr::Ret(union_reinterpret(a, size_b))'),
    ], stats)
    ex.check_supported('const_transmute', body)
    g.emit_fn(Fn('const_transmute', FILE, f['line'], f['sig'], 'pub fn const_transmute(a: Bits, size_b: usize) -> (ret: PanicOr<Bits>)', body, [],
                 [('panics-iff-sizes-differ', panic_props, 'ret is Panic <==> a.size != size_b'),
                  ('reinterprets-the-same-bytes', same_props, 'ret is Ret ==> ret->Ret_0.size == size_b && ret->Ret_0.elems == a.elems')], stats, n, span_props))


def generate(g, ex):
    from verus_engine import Fn
    g.raw('use vstd::prelude::*;\nverus! {\n')
    g.prelude('common.rs')
    g.prelude('ptr.rs')
    g.raw('\n// ===== extracted: src/lib.rs =====\n')

    def one(name, vsig, requires, ensures, hints=()):
        f = find_in_impls(g, ex, name)
        stats = {}
        body = ex.normalize(f['body'])
        n = ex.statements(body)
        body = ex.apply_rules(body, RULES, stats)
        for pat, rep in hints:
            body, k = re.subn(pat, rep, body, count=1)
            if k != 1:
                raise ex.Unsupported('%s: anchor for proof hint lost: %s' % (name, pat))
        body = 'let __r = { ' + body + ' }; PanicOr::Ret(__r)'
        if name.startswith('chunks_from_slice'):
            body = 'proof { lemma_chunks_entry(slice.len, N::n()); } ' + body
        ex.check_supported(name, body, allow=('.cast(', '.add('))
        g.emit_fn(Fn(name, FILE, f['line'], f['sig'], vsig, body, requires, [(l, pp + ['C18'], t) for l, pp, t in ensures], stats, n, PROPS))

    ALIAS = 'ret->Ret_0.base == %s.base && ret->Ret_0.off == %s.off'
    one('as_slice', 'pub fn as_slice<N: ArrayLength>(self_: Sl) -> (ret: PanicOr<Sl>)', ['self_.stride == N::n()', 'self_.len == 1', 'self_.valid()'],
        [('never-panics', ['C02'], 'ret is Ret'), ('aliases', ['C02'], ALIAS % ('self_', 'self_')),
         ('n-elements', ['C02'], 'ret->Ret_0.len == N::n() && ret->Ret_0.stride == 1 && ret->Ret_0.end() == self_.end()')])
    one('as_mut_slice', 'pub fn as_mut_slice<N: ArrayLength>(self_: Sl) -> (ret: PanicOr<Sl>)', ['self_.stride == N::n()', 'self_.len == 1', 'self_.valid()'],
        [('never-panics', ['C02'], 'ret is Ret'), ('aliases', ['C02'], ALIAS % ('self_', 'self_')),
         ('n-elements', ['C02'], 'ret->Ret_0.len == N::n() && ret->Ret_0.stride == 1 && ret->Ret_0.end() == self_.end()')])
    ARR = 'ret->Ret_0.base == slice.base && ret->Ret_0.off == slice.off && ret->Ret_0.len == 1 && ret->Ret_0.stride == N::n()'
    one('from_slice', 'pub fn from_slice<N: ArrayLength>(slice: Sl) -> (ret: PanicOr<Sl>)', ['slice.stride == 1', SRC_OK],
        [('panics-iff-wrong-length', ['C02'], 'ret is Panic <==> slice.len != N::n()'), ('aliases', ['C02'], 'ret is Ret ==> ' + ARR)])
    one('from_mut_slice', 'pub fn from_mut_slice<N: ArrayLength>(slice: Sl) -> (ret: PanicOr<Sl>)', ['slice.stride == 1', SRC_OK],
        [('panics-iff-wrong-length', ['C02'], 'ret is Panic <==> slice.len != N::n()'), ('aliases', ['C02'], 'ret is Ret ==> ' + ARR)])
    RES = 'ret->Ret_0->Ok_0.base == slice.base && ret->Ret_0->Ok_0.off == slice.off && ret->Ret_0->Ok_0.len == 1 && ret->Ret_0->Ok_0.stride == N::n()'
    one('try_from_slice', 'pub fn try_from_slice<N: ArrayLength>(slice: Sl) -> (ret: PanicOr<Result<Sl, LengthError>>)', ['slice.stride == 1', SRC_OK],
        [('never-panics', ['C02'], 'ret is Ret'), ('err-iff-wrong-length', ['C02'], 'ret->Ret_0 is Err <==> slice.len != N::n()'),
         ('aliases', ['C02'], 'ret->Ret_0 is Ok ==> ' + RES)])
    one('try_from_mut_slice', 'pub fn try_from_mut_slice<N: ArrayLength>(slice: Sl) -> (ret: PanicOr<Result<Sl, LengthError>>)', ['slice.stride == 1', SRC_OK],
        [('never-panics', ['C02'], 'ret is Ret'), ('err-iff-wrong-length', ['C02'], 'ret->Ret_0 is Err <==> slice.len != N::n()'),
         ('aliases', ['C02'], 'ret->Ret_0 is Ok ==> ' + RES)])
    # the address of an EMPTY part is not observable as memory covered ("together cover the source exactly")
    CH = ('N::n() > 0 ==> ret is Ret && ({ let (c, r) = ret->Ret_0; &&& c.stride == N::n() && r.stride == 1 '
          '&&& c.len == slice.len / N::n() && r.len == slice.len % N::n() '
          '&&& c.len > 0 ==> c.base == slice.base && c.start() == slice.start() '
          '&&& r.len > 0 ==> r.base == slice.base && r.start() == slice.start() + c.len * N::n() && r.end() == slice.end() })')
    for nm in ('chunks_from_slice', 'chunks_from_slice_mut'):
        one(nm, 'pub fn %s<N: ArrayLength>(slice: Sl) -> (ret: PanicOr<(Sl, Sl)>)' % nm, ['slice.stride == 1', SRC_OK],
            [('n0-panics-iff-nonempty', ['C10'], 'N::n() == 0 ==> (ret is Panic <==> slice.len != 0)'),
             ('n0-empty-gives-two-empty', ['C10'], 'N::n() == 0 && slice.len == 0 ==> ret->Ret_0.0.len == 0 && ret->Ret_0.1.len == 0'),
             ('partition', ['C10'], CH)])   # division facts: lemma_chunks_entry at function entry (no anchor inside the body)
    for nm in ('slice_from_chunks', 'slice_from_chunks_mut'):
        one(nm, 'pub fn %s<N: ArrayLength>(slice: Sl) -> (ret: PanicOr<Sl>)' % nm, ['slice.stride == N::n()', SRC_OK],
            [('never-panics', ['C10'], 'ret is Ret'),
             ('inverse', ['C10'], 'ret->Ret_0.stride == 1 && ret->Ret_0.len == slice.len * N::n() && (ret->Ret_0.len > 0 ==> ret->Ret_0.base == slice.base && ret->Ret_0.off == slice.off && ret->Ret_0.end() == slice.end())')])

    emit_const_transmute(g, ex, ['C02', 'C10', 'C11'], ['C02', 'C11'], PROPS)

    # ---- by-reference Split::split (src/sequence.rs): the two adjacent sub-ranges of the original storage, no copy ----
    seq = g.src('src/sequence.rs')
    for form, hdr in (('ref', r"unsafe impl<'a, T, N, K> Split<T, K> for &'a GenericArray<T, N>\s*where[^{]*\{"),
                      ('mut', r"unsafe impl<'a, T, N, K> Split<T, K> for &'a mut GenericArray<T, N>\s*where[^{]*\{")):
        m = re.search(hdr, seq)
        if not m:
            raise ex.LostAnchor('by-reference Split impl (%s) not found' % form)
        i = m.end() - 1
        block = seq[i + 1:ex.match_brace(seq, i)]
        f = ex.find_fn(block, 'split', i + 1, seq)
        stats = {}
        body = ex.normalize(f['body'])
        n = ex.statements(body)
        body = ex.apply_rules(body, [
            ('R-misc', r'\bunsafe \{', '{'),
            ('R-ptr', r'let ptr_to_first: \*(?:const|mut) T = self\.as_(?:mut_)?ptr\(\);', 'let ptr_to_first = self_.as_ptr().cast(1);'),
            # `as *const _`: the pointee is inferred from the declared result types (First = GenericArray<T, K>, Second = GenericArray<T, N - K>)
            ('R-ptr', r'let head = &(?:mut )?\*\(ptr_to_first as \*(?:const|mut) _\);', 'let head = deref(ptr_to_first.cast(K::usize_()));'),
            ('R-ptr', r'let tail = &(?:mut )?\*\(ptr_to_first\.add\(K::USIZE\) as \*(?:const|mut) _\);', 'let tail = deref(ptr_to_first.add(K::usize_()).cast(N::usize_() - K::usize_()));'),
        ], stats)
        ex.check_supported('split_' + form, body, allow=('.cast(', '.add('))
        g.emit_fn(Fn('split_' + form, 'src/sequence.rs', f['line'], f['sig'],
                     'pub fn split_%s<N: ArrayLength, K: ArrayLength>(self_: Sl) -> (ret: (Sl, Sl))' % form, body,
                     ['self_.stride == N::n()', 'self_.len == 1', 'self_.valid()', 'K::n() <= N::n()'],
                     [('first-half-at-the-start', ['C09'], 'ret.0.base == self_.base && ret.0.off == self_.off && ret.0.len == 1 && ret.0.stride == K::n()'),
                      ('second-half-adjacent', ['C09'], 'ret.1.base == self_.base && ret.1.off == self_.off + K::n() && ret.1.len == 1 && ret.1.stride == N::n() - K::n()'),
                      ('cover-exactly', ['C09'], 'ret.0.end() == ret.1.start() && ret.1.end() == self_.end()')],
                     stats, n, ['C09']))

    # ---- Flatten / Unflatten (src/sequence.rs): owned forms go through const_transmute (sizes must agree), reference forms through
    #      mem::transmute of the reference (same address, same extent).  Sizes are in elements of T (bytes: C01's lemma, unit `layout`) ----
    def flat(trait, hdr_re, form, vname, vsig, requires, ensures, rules):
        m = re.search(hdr_re, seq)
        if not m:
            raise ex.LostAnchor('%s impl (%s) not found' % (trait, form))
        i = m.end() - 1
        block = seq[i + 1:ex.match_brace(seq, i)]
        fn = 'flatten' if trait == 'Flatten' else 'unflatten'
        f = ex.find_fn(block, fn, i + 1, seq)
        stats = {}
        body = ex.normalize(f['body'])
        n = ex.statements(body)
        body = ex.apply_rules(body, [('R-misc', r'\bunsafe \{', '{'), ('R-len', r'\b(?:core::)?mem::size_of::<T>\(\)', 'size_of_elem()'),
                                     ('R-ptr', r'\b(?:core::)?ptr::NonNull::dangling\(\)\.as_(?:mut|ref)\(\)', 'dangling_ref()')] + rules, stats)
        ex.check_supported(vname, body, allow=('const_transmute(',))
        g.emit_fn(Fn(vname, 'src/sequence.rs', f['line'], f['sig'], vsig, body, requires, ensures, stats, n, ['C11']))

    OWN_REQ = ['a.size == N::n() * M::n()  /* M arrays of N elements: extent N*M elements (lemma_nested, unit layout) */']
    flat('Flatten', r'unsafe impl<T, N, M> Flatten<T, N, M> for GenericArray<GenericArray<T, N>, M>\s*where[^{]*\{', 'owned', 'flatten_owned',
         'pub fn flatten_owned<N: ArrayLength, M: ArrayLength>(a: Bits) -> (ret: PanicOr<Bits>)', OWN_REQ + ['N::n() * M::n() <= usize::MAX'],
         [('never-panics-same-extent', ['C11'], 'ret is Ret && ret->Ret_0.size == N::n() * M::n()'),
          ('same-element-sequence', ['C11'], 'ret is Ret ==> ret->Ret_0.elems == a.elems  /* row-major: the M inner arrays lie one after another (lemma_nested, unit layout) */')],
         [('R-call', r'crate::const_transmute\(self\)', 'const_transmute(a, (N::usize_() * M::usize_()))')])
    flat('Unflatten', r'unsafe impl<T, NM, N> Unflatten<T, NM, N> for GenericArray<T, NM>\s*where[^{]*\{', 'owned', 'unflatten_owned',
         'pub fn unflatten_owned<NM: ArrayLength, N: ArrayLength>(a: Bits) -> (ret: PanicOr<Bits>)', ['a.size == NM::n()', 'N::n() > 0', 'NM::n() % N::n() == 0'],
         [('never-panics-same-extent', ['C11'], 'ret is Ret && ret->Ret_0.size == NM::n()'),
          ('same-element-sequence', ['C11'], 'ret is Ret ==> ret->Ret_0.elems == a.elems')],
         [('R-call', r'crate::const_transmute\(self\)', '({ proof { vstd::arithmetic::div_mod::lemma_fundamental_div_mod(NM::n() as int, N::n() as int); assert((NM::n() / N::n()) * N::n() == N::n() * (NM::n() / N::n())) by (nonlinear_arith); } const_transmute(a, ((NM::usize_() / N::usize_()) * N::usize_())) })')])
    for form, pref in (('ref', r"&'a "), ('mut', r"&'a mut ")):
        flat('Flatten', r"unsafe impl<'a, T, N, M> Flatten<T, N, M> for " + pref + r"GenericArray<GenericArray<T, N>, M>\s*where[^{]*\{", form, 'flatten_' + form,
             'pub fn flatten_%s<N: ArrayLength, M: ArrayLength>(self_: Sl) -> (ret: Sl)' % form, ['self_.len == M::n()', 'self_.stride == N::n()', 'self_.valid()'],
             [('same-address', ['C11'], 'ret.base == self_.base && ret.off == self_.off'),
              ('same-extent-N-times-M-elements', ['C11'], 'ret.len == 1 && ret.stride == N::n() * M::n() && ret.end() == self_.end()')],
             [('R-ptr', r'mem::transmute\(self\)', '({ assert(N::n() * M::n() == M::n() * N::n()) by (nonlinear_arith); self_.retype_ref(1, N::usize_() * M::usize_()) })')])
        flat('Unflatten', r"unsafe impl<'a, T, NM, N> Unflatten<T, NM, N> for " + pref + r"GenericArray<T, NM>\s*where[^{]*\{", form, 'unflatten_' + form,
             'pub fn unflatten_%s<NM: ArrayLength, N: ArrayLength>(self_: Sl) -> (ret: Sl)' % form, ['self_.len == 1', 'self_.stride == NM::n()', 'self_.valid()', 'N::n() > 0', 'NM::n() % N::n() == 0'],
             [('same-address', ['C11'], 'ret.base == self_.base && ret.off == self_.off'),
              ('same-extent-rows-of-N', ['C11'], 'ret.len == NM::n() / N::n() && ret.stride == N::n() && ret.end() == self_.end()')],
             [('R-ptr', r'mem::transmute\(self\)', '({ proof { vstd::arithmetic::div_mod::lemma_fundamental_div_mod(NM::n() as int, N::n() as int); assert((NM::n() / N::n()) * N::n() == N::n() * (NM::n() / N::n())) by (nonlinear_arith); } self_.retype_ref(NM::usize_() / N::usize_(), N::usize_()) })')])
    g.raw('proof fn canary() { assert(false); } /*OB:canary:*/')
    g.raw('} // verus!\nfn main() {}\n')


def props_for(fname, what):
    if fname and fname.startswith('split_'):
        return ['C09']
    if fname and 'flatten' in fname:
        return ['C11']
    if fname and ('chunks' in fname):
        return ['C10', 'C18']
    return ['C02', 'C18']

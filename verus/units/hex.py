"""V unit `hex`: src/hex.rs (C14) for ALL N, all precisions, both cases, with and without feature faster-hex.

Extracted: hex_encode_fallback, hex_encode (once per cfg configuration), generic_hex.  The formatter is a sink with
ghost output; the postcondition of generic_hex is the property statement itself:
    output == hexdigits(arr).take(min(precision, 2N))
through all three internal strategies (N < 16, N <= 1024, chunked)."""
import re

NAME = 'hex'
PROPS = ['C14']
DROPPED = ('the error path of the formatter sink (`?` after write_str: modelled as Ok); core::fmt itself (engine K runs it); '
           'the SIMD bodies of faster-hex (assumed contract); `str::from_utf8_unchecked` (bytes are ASCII digits by the postcondition)')

FILE = 'src/hex.rs'


def lit_to_array(lit):
    return '[' + ', '.join(str(ord(c)) for c in lit) + ']'


def generate(g, ex):
    from verus_engine import Fn
    g.raw('use vstd::prelude::*;\nverus! {\n')
    g.prelude('common.rs')
    g.prelude('hex.rs')
    g.raw('\n// ===== extracted: src/hex.rs =====\n')

    # ---------------- hex_encode_fallback ----------------
    f = g.extract_free(FILE, 'hex_encode_fallback')
    stats = {}
    body = ex.normalize(f['body'])
    n = ex.statements(body)
    m = re.search(r'let alphabet = match UPPER \{ true => b"([^"]{16})", false => b"([^"]{16})",? \};', body)
    if not m:
        raise ex.Unsupported('hex_encode_fallback: alphabet tables not found in the expected form')
    alpha_proof = ('proof { assert forall|i: int| 0 <= i < 16 implies #[trigger] alphabet@[i] == digit(i as u8, upper) by { '
                   + ' '.join('if i == %d { assert(alphabet@[%d] == digit(%du8, upper)); }' % (i, i, i) for i in range(16)) + ' } }')
    body = body.replace(m.group(0), 'let alphabet: [u8; 16] = if upper { %s } else { %s }; ' % (lit_to_array(m.group(1)), lit_to_array(m.group(2))) + alpha_proof)
    stats['R-lit'] = 1
    loop = re.search(r'dst\.chunks_exact_mut\(2\)\.zip\(src\)\.for_each\(\|\(s, c\)\| \{ (.*?) \}\);', body)
    if not loop:
        raise ex.Unsupported('hex_encode_fallback: chunks_exact_mut(2).zip(src).for_each loop not found (rule R-iter)')
    inner = loop.group(1)
    inner, k1 = re.subn(r's\[(\d)\] = ([^;]+);', lambda mm: 'dst.set(2 * __k + %s, %s);' % (mm.group(1), mm.group(2)), inner)
    inner = re.sub(r'\(c (>>|&) (\w+)\) as usize', r'(c \1 \2) as usize', inner)
    stats['R-iter'] = 1
    stats['R-write'] = k1
    w = ('let __n = cmp_min(dst.len() / 2, src.len()); let mut __k: usize = 0; '
         'while __k < __n invariant __n == src@.len(), __k <= __n, dst@.len() == old(dst)@.len(), dst@.len() >= 2 * src@.len(), dst@.len() <= usize::MAX, '
         'forall|i: int| 0 <= i < 16 ==> #[trigger] alphabet@[i] == digit(i as u8, upper), '
         'forall|j: int| 0 <= j < 2 * __k ==> #[trigger] dst@[j] == hexdigits(src@, upper)[j], '
         'forall|j: int| 2 * __k <= j < dst@.len() ==> #[trigger] dst@[j] == old(dst)@[j], decreases __n - __k, { '
         'let c = src[__k]; '
         'proof { assert((c >> 4) < 16 && (c & 0xF) < 16 && (c & 0xF) == (c & 0xf)) by (bit_vector); } '
         + inner +
         ' proof { assert(hexdigits(src@, upper)[2 * __k as int] == digit(src@[__k as int] >> 4, upper)); assert(hexdigits(src@, upper)[2 * __k + 1] == digit(src@[__k as int] & 0xf, upper)); } '
         '__k += 1; }')
    body = body.replace(loop.group(0), w)
    body = ex.apply_rules(body, [
        ('R-panic', r'unsafe \{ core::hint::unreachable_unchecked\(\) \};', 'assert(false) /*OB:hex_encode_fallback.unreachable-hint-is-unreachable:C14*/;'),
    ], stats)
    body += (' proof { assert(dst@.subrange(0, 2 * src@.len() as int) =~= hexdigits(src@, upper)); '
             'assert(dst@.subrange(2 * src@.len() as int, old(dst)@.len() as int) =~= old(dst)@.subrange(2 * src@.len() as int, old(dst)@.len() as int)); }')
    ex.check_supported('hex_encode_fallback', body)
    ENC_REQ = ['old(dst)@.len() >= 2 * src@.len()']
    ENC_ENS = [('len', PROPS, 'final(dst)@.len() == old(dst)@.len()'),
               ('digits', PROPS, 'final(dst)@.subrange(0, 2 * src@.len() as int) == hexdigits(src@, upper)'),
               ('frame', PROPS, 'final(dst)@.subrange(2 * src@.len() as int, old(dst)@.len() as int) == old(dst)@.subrange(2 * src@.len() as int, old(dst)@.len() as int)')]
    g.emit_fn(Fn('hex_encode_fallback', FILE, f['line'], f['sig'], 'pub fn hex_encode_fallback(src: &[u8], dst: &mut Vec<u8>, upper: bool)',
                 body, ENC_REQ, [(l, p, t) for l, p, t in ENC_ENS], stats, n, PROPS))

    # ---------------- hex_encode, one copy per cfg configuration ----------------
    raw = g.src_with_attrs(FILE)
    f = ex.find_free_fn(raw, 'hex_encode')
    src_body = ex.normalize(f['body'])
    A = re.search(r'#\[cfg\(any\(miri, not\(feature = "faster-hex"\)\)\)\] (hex_encode_fallback::<UPPER>\(src, dst\);)', src_body)
    FH = (r'match UPPER \{ (true|false) => unsafe \{ faster_hex::(hex_encode(?:_upper)?)\(src, dst\)\.unwrap_unchecked\(\) \}, '
          r'(true|false) => unsafe \{ faster_hex::(hex_encode(?:_upper)?)\(src, dst\)\.unwrap_unchecked\(\) \}, \};')
    B = re.search(r'#\[cfg\(all\(feature = "faster-hex", not\(miri\)\)\)\] (' + FH + ')', src_body)
    if not A or not B:
        raise ex.Unsupported('hex_encode: the two cfg-gated statements are not in the expected form')
    OFF = 0
    if B and B.group(2) == B.group(4):
        raise ex.Unsupported('hex_encode: both match arms have the same pattern')
    for cfgname, keep, drop_ in (('hex_encode', A, B), ('hex_encode_with_faster_hex', B, A)):
        stats = {'R-cfg': 1}
        body = src_body.replace(drop_.group(0), '').replace(keep.group(0), keep.group(1))
        body = ex.apply_rules(body, [
            ('R-panic', r'debug_assert!\(dst\.len\(\) >= \(src\.len\(\) \* 2\)\);', 'assert(dst@.len() >= src@.len() * 2) /*OB:%s.debug-assertion:C14*/;' % cfgname),
            ('R-call', r'hex_encode_fallback::<UPPER>\(src, dst\);', 'hex_encode_fallback(src, dst, upper);'),
            # the dependency is called with the case the const parameter selects; unwrap_unchecked needs Ok
            # the dependency function named in each arm decides the case it encodes with; unwrap_unchecked needs Ok
            ('R-foreign', FH, lambda mm: (
                'if upper == %s { let __r = faster_hex_encode(src, dst, %s); unwrap_unchecked_unit(__r) /*OB:%s.unwrap_unchecked-never-sees-Err:C14*/; } '
                'else { let __r = faster_hex_encode(src, dst, %s); unwrap_unchecked_unit(__r) /*OB:%s.unwrap_unchecked-never-sees-Err:C14*/; }'
                % (mm.group(1 + OFF), 'true' if mm.group(2 + OFF) == 'hex_encode_upper' else 'false', cfgname,
                   'true' if mm.group(4 + OFF) == 'hex_encode_upper' else 'false', cfgname))),
        ], stats)
        ex.check_supported(cfgname, body)
        g.emit_fn(Fn(cfgname, FILE, f['line'], f['sig'] + ('  [cfg: feature faster-hex %s]' % ('ON' if keep is B else 'OFF')),
                     'pub fn %s(src: &[u8], dst: &mut Vec<u8>, upper: bool)' % cfgname, body, ENC_REQ,
                     [(l, p, t) for l, p, t in ENC_ENS], stats, ex.statements(src_body), PROPS))

    # ---------------- generic_hex ----------------
    f = g.extract_free(FILE, 'generic_hex')
    stats = {}
    body = ex.normalize(f['body'])
    n = ex.statements(body)
    body = ex.apply_rules(body, [
        ('R-len', r'\bN::USIZE\b', 'N::usize_()'),
        ('R-panic', r'unsafe \{ core::hint::unreachable_unchecked\(\) \};', 'assert(false) /*OB:generic_hex.unreachable-hint-is-unreachable:C14*/;'),
        ('R-view', r'&(\w+)\[\.\.([^\]]+)\]', r'subslice(\1, 0, \2)'),
        ('R-view', r'\b(\w+)\[\.\.([^\]]+)\]\.chunks\(', r'subslice(\1, 0, \2).chunks('),
        ('R-slots', r'GenericArray::<u8, Sum<N, N>>::default\(\)', 'zeroed(N::usize_() + N::usize_())'),
        ('R-slots', r'\[0u8; (\d+)\]', r'zeroed(\1)'),
        ('R-call', r'hex_encode_fallback::<UPPER>\(([^;]*?)\);', r'hex_encode_fallback(\1, upper);'),
        ('R-call', r'hex_encode::<UPPER>\(([^;]*?)\);', r'hex_encode(\1, upper);'),
        ('R-foreign', r'f\.write_str\(unsafe \{ str::from_utf8_unchecked\((\w+)\.get_unchecked\(\.\.([^()]+?)\)\) \}\)\?;', r'f.write_prefix(&\1, \2);'),
        ('R-misc', r'\bmin\(', 'cmp_min('),
        ('R-misc', r' Ok\(\(\)\)$', ''),
    ], stats)
    # rule R-iter: `for chunk in X.chunks(1024) { BODY }` is the while loop slice::chunks is documented to be
    loop = re.search(r'for chunk in (\w+|subslice\([^)]*\))\.chunks\((\d+)\) \{ (.*?) \} \}$', body)
    if not loop:
        raise ex.Unsupported('generic_hex: `for chunk in <slice>.chunks(K)` loop not found (rule R-iter)')
    it, K, inner = loop.group(1), loop.group(2), loop.group(3)
    stats['R-iter'] = 1
    hints_in = ('proof { lemma_hex_concat(__it@.subrange(0, __off as int), chunk@, upper); '
                'assert(__it@.subrange(0, __off as int) + chunk@ =~= __it@.subrange(0, __end as int)); '
                'lemma_hex_prefix(__it@, __off as int, upper); lemma_hex_prefix(__it@, __end as int, upper); } ')
    inner2, k = re.subn(r'(f\.write_prefix\(&buf, n\);)', hints_in + r'let ghost __dl0 = digits_left as int; \1', inner)
    if k != 1:
        raise ex.Unsupported('generic_hex: write inside the chunk loop not found')
    tail_hint = ('proof { let e0 = mini(2 * __off, max_digits as int); let e1 = mini(2 * __end, max_digits as int); '
                 'assert(e0 == 2 * __off); assert(__dl0 == max_digits - 2 * __off); assert(chunk@.len() == __end - __off); '
                 'assert(e1 == e0 + n); assert(f.out@ =~= hexdigits(__it@, upper).subrange(0, e1)); } ')
    w = ('let __it = %s; let mut __off: usize = 0; proof { assert(f.out@ =~= hexdigits(__it@, upper).subrange(0, 0)); } '
         'while __off < __it.len() invariant '
         '__it@ == arr@.subrange(0, max_bytes as int), max_bytes <= N::n(), arr@.len() == N::n(), '
         'max_bytes == (max_digits / 2) + (max_digits %% 2), max_digits <= 2 * N::n(), '
         '__off <= __it@.len(), __off %% %s == 0 || __off == __it@.len(), buf@.len() == 2048, '
         'digits_left == max_digits - mini(2 * __off, max_digits as int), '
         'f.out@ == hexdigits(__it@, upper).subrange(0, mini(2 * __off, max_digits as int)), '
         'decreases __it@.len() - __off, { '
         'let __end = cmp_min(__off + %s, __it.len()); let chunk = subslice(__it, __off, __end); '
         '%s %s __off = __end; } '
         'proof { assert(mini(2 * max_bytes, max_digits as int) == max_digits); assert(f.out@ =~= hexdigits(arr@, upper).subrange(0, max_digits as int)); } }'
         % (it, K, K, inner2, tail_hint))
    body = body[:loop.start()] + w
    # proof hints anchored on statements of the carried body
    def hint(pat, rep, what):
        nonlocal body
        body, k = re.subn(pat, rep, body, count=1)
        if k != 1:
            raise ex.Unsupported('generic_hex: anchor for proof hint lost: ' + what)
    hint(r'(let max_bytes = )', r'assert(max_digits >> 1 == max_digits / 2 && max_digits & 1 == max_digits % 2) by (bit_vector); \1', 'before max_bytes')
    hint(r'(if N::usize_\(\) <=? \d+ \{)', r'proof { lemma_hex_prefix(arr@, max_bytes as int, upper); } \1', 'before strategy split')
    hint(r'(f\.write_prefix\(&buf, max_digits\);)', r'\1 proof { assert(f.out@ =~= hexdigits(arr@, upper).subrange(0, max_digits as int)); }', 'after small-array write')
    ex.check_supported('generic_hex', body)
    WANT = 'match old(f).precision { Some(p) => if p < 2 * N::n() { p as int } else { 2 * N::n() as int }, None => 2 * N::n() as int }'
    g.emit_fn(Fn('generic_hex', FILE, f['line'], f['sig'], 'pub fn generic_hex<N: ArrayLength>(arr: &[u8], f: &mut Fmt, upper: bool)', body,
                 ['arr@.len() == N::n()', 'N::n() * 2 <= usize::MAX', 'old(f).out@.len() == 0'],
                 [('output', PROPS, 'final(f).out@ == hexdigits(arr@, upper).subrange(0, ' + WANT + ')')], stats, n, PROPS))
    g.raw('proof fn canary() { assert(false); } /*OB:canary:*/\n')
    g.raw('} // verus!\nfn main() {}\n')


def props_for(fname, what):
    return PROPS

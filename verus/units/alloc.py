"""V unit `alloc`: the O(1) heap conversions of src/impl_alloc.rs (C15, C16) for ALL N and ALL source lengths:
into_boxed_slice, into_vec, try_from_boxed_slice, try_from_vec.  Obligation at every Box::from_raw: the layout the new
Box will free with is the layout the block was requested with - size and ALIGNMENT (CBMC, engine K, tracks only the
size).  Also: Ok iff length == N, and the same heap block is handed over (no copy)."""
import re

NAME = 'alloc'
PROPS = ['C15', 'C16']
DROPPED = 'element contents (engine K); Vec::into_boxed_slice / Vec::from (std, assumed contracts); allocation failure inside std'
FILE = 'src/impl_alloc.rs'
IMPL = 'impl<T, N: ArrayLength> GenericArray<T, N>'


def generate(g, ex):
    g.raw('use vstd::prelude::*;\nverus! {\n')
    g.prelude('common.rs')
    g.prelude('heap.rs')
    g.raw('\n// ===== extracted: src/impl_alloc.rs =====\n')
    emit(g, ex)
    g.raw('proof fn canary() { assert(false); } /*OB:canary:*/')
    g.raw('} // verus!\nfn main() {}\n')


def emit(g, ex, only=None, extra=()):
    """`only`: restrict to these functions (used by unit macros, which re-checks the two conversions box_arr! goes through);
    `extra`: further property tags for every clause"""
    from verus_engine import Fn
    text = g.src(FILE)
    m = re.search(r'impl<T, N: ArrayLength> GenericArray<T, N>\s*\{', text)
    if not m:
        raise ex.LostAnchor('inherent impl in impl_alloc.rs not found')
    i = m.end() - 1
    block = text[i + 1:ex.match_brace(text, i)]

    def one(name, vsig, requires, ensures, rules):
        if only is not None and name not in only:
            return
        ensures = [(l, pp + list(extra), t) for l, pp, t in ensures]
        f = ex.find_fn(block, name, i + 1, text)
        stats = {}
        body = ex.normalize(f['body'])
        n = ex.statements(body)
        body = ex.apply_rules(body, [('R-misc', r'\bunsafe \{', '{'), ('R-len', r'\bN::USIZE\b', 'N::usize_()')] + rules, stats)
        ex.check_supported(name, body)
        g.emit_fn(Fn(name, FILE, f['line'], f['sig'], vsig, body, requires, ensures, stats, n, PROPS + list(extra)))

    one('into_boxed_slice', 'pub fn into_boxed_slice<N: ArrayLength>(this: BoxArr) -> (r: BoxSlice)', ['this.block.elems == N::n()'],
        [('same-block', ['C15'], 'r.block == this.block'), ('n-elements', ['C15'], 'r.len == N::n()'), ('frees-with-its-layout', ['C16'], 'r.wf()')],
        [('R-box', r'Box::from_raw\(core::ptr::slice_from_raw_parts_mut\( ?Box::into_raw\(self\) as \*mut T, ([^()]+(?:\(\))?),? ?\)\)',
          r'box_slice_from_raw(box_arr_into_raw::<N>(this), \1)')])
    one('into_vec', 'pub fn into_vec<N: ArrayLength>(this: BoxArr) -> (r: VecT)', ['this.block.elems == N::n()'],
        [('same-block', ['C15'], 'r.block == this.block'), ('n-elements', ['C15'], 'r.len == N::n() && r.cap == N::n()'), ('frees-with-its-layout', ['C16'], 'r.wf()')],
        [('R-box', r'Vec::from\(self\.into_boxed_slice\(\)\)', 'vec_from_box_slice(into_boxed_slice::<N>(this))')])
    one('try_from_boxed_slice', 'pub fn try_from_boxed_slice<N: ArrayLength>(slice: BoxSlice) -> (r: Result<BoxArr, LengthError>)', ['slice.wf()'],
        [('ok-iff-length-N', ['C15'], 'r is Ok <==> slice.len == N::n()'), ('same-block', ['C15'], 'r is Ok ==> r->Ok_0.block == slice.block'),
         ('frees-with-its-layout', ['C16'], 'r is Ok ==> r->Ok_0.block.elems == N::n()')],
        [('R-drop', r'return Err\(LengthError\);', '{ drop_box_slice(slice); return Err(LengthError); }'),
         ('R-box', r'Box::from_raw\(Box::into_raw\(slice\) as \*mut _\)', 'box_arr_from_raw::<N>(box_slice_into_raw(slice))')])
    one('try_from_vec', 'pub fn try_from_vec<N: ArrayLength>(vec: VecT) -> (r: Result<BoxArr, LengthError>)', ['vec.wf()'],
        [('ok-iff-length-N', ['C15'], 'r is Ok <==> vec.len == N::n()'), ('same-block-when-len-eq-cap', ['C15'], 'r is Ok && vec.len == vec.cap ==> r->Ok_0.block == vec.block'),
         ('same-elements', ['C15'], 'r is Ok ==> r->Ok_0.block.content == vec.block.content'),
         ('frees-with-its-layout', ['C16'], 'r is Ok ==> r->Ok_0.block.elems == N::n()')],
        [('R-call', r'Self::try_from_boxed_slice\(vec\.into_boxed_slice\(\)\)', 'try_from_boxed_slice::<N>(vec.into_boxed_slice())')])


def props_for(fname, what):
    return PROPS

"""V unit `iter`: the by-value iterator of src/iter.rs (C03, C04, C05, C06), for ALL N.

Extracted (token for token, then the rules below): len, next, next_back, nth, nth_back, size_hint, count, last,
as_slice, as_mut_slice, into_iter, drop, clone.  Contracts are the deque semantics of the property statement over the
abstract view `remaining()`, from an arbitrary state satisfying the representation invariant `wf()`; because `wf` is
pre- and postcondition of every method, every finite interleaving follows by induction."""
import re

NAME = 'iter'
PROPS = ['C03', 'C04', 'C05', 'C06']
DROPPED = ('byte representation of the array (covered by C01 + engine K); order of destructor calls inside one drop_in_place range; '
           'trait dispatch (trait methods become inherent fns); Rust\'s implicit drop at scope exit is made explicit (rule R-drop)')

IT = 'impl<T, N: ArrayLength> Iterator for GenericArrayIter<T, N>'
DEI = 'impl<T, N: ArrayLength> DoubleEndedIterator for GenericArrayIter<T, N>'
ESI = 'impl<T, N: ArrayLength> ExactSizeIterator for GenericArrayIter<T, N>'
DROP = 'impl<T, N: ArrayLength> Drop for GenericArrayIter<T, N>'
CLONE = 'impl<T: Clone, N: ArrayLength> Clone for GenericArrayIter<T, N>'
INH = 'impl<T, N: ArrayLength> GenericArrayIter<T, N>'
INTO = 'impl<T, N: ArrayLength> IntoIterator for GenericArray<T, N>'

UNWIND_DIP = ' proof { assert(%s.wf()) /*OB:%s.unwind@drop_in_place:C05,C06*/; }'


def rules(selfname, fname):
    s = re.escape(selfname)
    return [
        ('R-misc', r'\bunsafe \{', '{'),
        ('R-len', r'\bN::USIZE\b', 'N::usize_()'),
        ('R-misc', r'\bcmp::min\(', 'cmp_min('),
        ('R-replace', r'let (\w+) = mem::replace\(&mut (' + s + r'\.\w+), (\w+)\);', r'let \1 = \2; \2 = \3;'),
        ('R-read', r'ptr::read\(' + s + r'\.array\.get_unchecked\(([^()]+(?:\([^()]*\))?[^()]*)\)\)', selfname + r'.array.take(\1)'),
        # drop_in_place over an index range of the array: the destructors may unwind -> unwind obligation right after
        ('R-dip', r'ptr::drop_in_place\(' + s + r'\.array\.get_unchecked_mut\(([^.()]+(?:\.[a-z_]+)?)\s*\.\.\s*([^()]+?)\)\);',
         selfname + r'.array.drop_range(\1, \2);' + (UNWIND_DIP % (selfname, fname))),
        # drop_in_place over the iterator's own remaining slice (inside Drop: the guard is already being destroyed)
        ('R-dip', r'ptr::drop_in_place\(' + s + r'\.as_mut_slice\(\)\);', 'let __s = ' + selfname + '.as_mut_slice(); ' + selfname + '.array.drop_range(__s.lo, __s.hi);'
         + ('' if fname == 'drop_impl' else (UNWIND_DIP % (selfname, fname)))),
        ('R-view', s + r'\.array\.get_unchecked(?:_mut)?\(([^.()]+(?:\.[a-z_]+)?)\s*\.\.\s*([^()]+?)\)', selfname + r'.array.range(\1, \2)'),
        ('R-forget', r'mem::forget\(' + s + r'\);', selfname + '.array.forget();'),
    ]


REM = 'old(self).remaining()'


def generate(g, ex):
    g.raw('use vstd::prelude::*;\nverus! {\n')
    g.prelude('common.rs')
    g.prelude('slots.rs')
    g.prelude('foreign.rs')
    g.raw('''
// ===== extracted: src/iter.rs =====
// rule R-slots: `array: ManuallyDrop<GenericArray<T, N>>` becomes the slot ledger
pub struct GenericArrayIter<T, N: ArrayLength> {
    pub array: Slots<T, N>,
    pub index: usize,
    pub index_back: usize,
}

impl<T, N: ArrayLength> GenericArrayIter<T, N> {
    // representation invariant (the comment on the struct in src/iter.rs, made checkable)
    pub open spec fn wf(&self) -> bool {
        &&& self.index <= self.index_back <= N::n()
        &&& self.array.ok()
        &&& forall|k: int| 0 <= k < N::n() ==> ((#[trigger] self.array.view()[k]).is_some() <==> self.index <= k < self.index_back)
    }
    // abstract view: the elements still to come, front to back
    pub open spec fn remaining(&self) -> Seq<T> {
        Seq::new((self.index_back - self.index) as nat, |j: int| self.array.view()[self.index + j].unwrap())
    }
''')

    def method(impl, name, vname, vsig, requires, ensures, props, selfname='self', pre='', post='', tail_proof=None, extra_rules=()):
        f = g.extract_method('src/iter.rs', impl, name)
        stats = {}
        body = ex.normalize(f['body'])
        n = ex.statements(body)
        if selfname != 'self':
            body = re.sub(r'\bself\b', selfname, body)
            stats['R-mutself'] = 1
        body = ex.apply_rules(body, list(extra_rules) + rules(selfname, vname), stats)
        body = pre + body + post
        ex.check_supported(vname, body)
        from verus_engine import Fn
        g.emit_fn(Fn(vname, 'src/iter.rs', f['line'], f['sig'], vsig, body, requires, ensures, stats, n, props, tail_proof=tail_proof))

    C6 = ['C06']
    method(ESI, 'len', 'len', 'fn len(&self) -> (r: usize)', ['self.wf()'],
           [('len', C6, 'r == self.remaining().len()')], PROPS)
    method(IT, 'size_hint', 'size_hint', 'fn size_hint(&self) -> (r: (usize, Option<usize>))', ['self.wf()'],
           [('exact', C6, 'r.0 == self.remaining().len() && r.1 == Some(self.remaining().len() as usize)')], PROPS)
    method(IT, 'next', 'next', 'fn next(&mut self) -> (r: Option<T>)', ['old(self).wf()'],
           [('wf', ['C03', 'C06'], 'final(self).wf()'),
            ('fused', C6, REM + '.len() == 0 ==> r.is_none() && final(self).remaining() == ' + REM),
            ('front', C6, REM + '.len() > 0 ==> r == Some(' + REM + '.first()) && final(self).remaining() == ' + REM + '.drop_first()')],
           PROPS, tail_proof='proof { if %s.len() > 0 { assert(self.remaining() =~= %s.drop_first()); } }' % (REM, REM))
    method(DEI, 'next_back', 'next_back', 'fn next_back(&mut self) -> (r: Option<T>)', ['old(self).wf()'],
           [('wf', ['C03', 'C06'], 'final(self).wf()'),
            ('fused', C6, REM + '.len() == 0 ==> r.is_none() && final(self).remaining() == ' + REM),
            ('back', C6, REM + '.len() > 0 ==> r == Some(' + REM + '.last()) && final(self).remaining() == ' + REM + '.drop_last()')],
           PROPS, tail_proof='proof { if %s.len() > 0 { assert(self.remaining() =~= %s.drop_last()); } }' % (REM, REM))
    method(IT, 'nth', 'nth', 'fn nth(&mut self, n: usize) -> (r: Option<T>)', ['old(self).wf()'],
           [('wf', ['C03', 'C06'], 'final(self).wf()'),
            ('exhaust', C6, 'n >= ' + REM + '.len() ==> r.is_none() && final(self).remaining().len() == 0'),
            ('nth', C6, 'n < %s.len() ==> r == Some(%s[n as int]) && final(self).remaining() == %s.subrange(n + 1, %s.len() as int)' % (REM, REM, REM, REM))],
           PROPS,
           tail_proof='proof { if n < %s.len() { assert(self.remaining() =~= %s.subrange(n + 1, %s.len() as int)); } }' % (REM, REM, REM),
           extra_rules=[('R-hint', r'self\.next\(\)$', 'proof { if n < %s.len() { assert(self.remaining() =~= %s.subrange(n as int, %s.len() as int)); } } self.next()' % (REM, REM, REM))])
    method(DEI, 'nth_back', 'nth_back', 'fn nth_back(&mut self, n: usize) -> (r: Option<T>)', ['old(self).wf()'],
           [('wf', ['C03', 'C06'], 'final(self).wf()'),
            ('exhaust', C6, 'n >= ' + REM + '.len() ==> r.is_none() && final(self).remaining().len() == 0'),
            ('nth_back', C6, 'n < %s.len() ==> r == Some(%s[%s.len() - 1 - n]) && final(self).remaining() == %s.subrange(0, %s.len() - 1 - n)' % (REM, REM, REM, REM, REM))],
           PROPS,
           tail_proof='proof { if n < %s.len() { assert(self.remaining() =~= %s.subrange(0, %s.len() - 1 - n)); } }' % (REM, REM, REM),
           extra_rules=[('R-hint', r'self\.next_back\(\)$', 'proof { if n < %s.len() { assert(self.remaining() =~= %s.subrange(0, %s.len() - n)); } } self.next_back()' % (REM, REM, REM))])
    method(INH, 'as_slice', 'as_slice', 'fn as_slice(&self) -> (r: SliceRange)', ['self.wf()'],
           [('range', ['C06'], 'r.lo == self.index && r.hi == self.index_back')], PROPS)
    method(INH, 'as_mut_slice', 'as_mut_slice', 'fn as_mut_slice(&mut self) -> (r: SliceRange)', ['old(self).wf()'],
           [('range', ['C06'], 'r.lo == old(self).index && r.hi == old(self).index_back && *final(self) == *old(self)')], PROPS)
    method(DROP, 'drop', 'drop_impl', 'fn drop_impl(&mut self)', ['old(self).wf()'],
           [('releases-all', ['C03', 'C05'], 'final(self).array.ok() && final(self).array.all_dead()'),
            ('exactly-remaining', ['C03'], 'forall|k: int| 0 <= k < N::n() && !(old(self).index <= k < old(self).index_back) ==> (#[trigger] final(self).array.view()[k]) == old(self).array.view()[k]')],
           PROPS)
    # count(self) / last(mut self): `self` is dropped at scope exit (rule R-drop makes it explicit) - unless the body itself
    # ends the iterator's life with mem::forget(self), in which case rule R-forget carries the release obligation
    for (nm, rtype, posts) in (
            ('count', 'usize', [('count', C6, '%s == self.remaining().len()')]),
            ('last', 'Option<T>', [('last', C6, 'self.remaining().len() > 0 ==> %s == Some(self.remaining().last())'), ('none', C6, 'self.remaining().len() == 0 ==> %s.is_none()')])):
        raw_body = ex.normalize(g.extract_method('src/iter.rs', IT, nm)['body'])
        if 'mem::forget(self)' in raw_body:
            method(IT, nm, nm, 'fn %s(self) -> (r: %s)' % (nm, rtype), ['self.wf()'],
                   [(l, pp, t % 'r') for l, pp, t in posts], PROPS, selfname='this', pre='let mut this = self; ', post='')
        else:
            method(IT, nm, nm, 'fn %s(self) -> (r: (%s, Self))' % (nm, rtype), ['self.wf()'],
                   [(l, pp, t % 'r.0') for l, pp, t in posts] + [('dropped', ['C03', 'C05'], 'r.1.array.ok() && r.1.array.all_dead()')],
                   PROPS, selfname='this', pre='let mut this = self; let __ret = { ', post=' }; this.drop_impl(); (__ret, this)')
    # ---- fold / rfold: the slice adapter's fold is the loop it is documented to be (rule R-iter), the closure body verbatim ----
    def fold_like(impl, name, back):
        f = g.extract_method('src/iter.rs', impl, name)
        stats = {}
        body = ex.normalize(f['body'])
        n = ex.statements(body)
        body = re.sub(r'\bself\b', 'this', body)
        stats['R-mutself'] = 1
        md = re.search(r'let GenericArrayIter \{ ([^}]*) \} = this;', body)
        if not md:
            raise ex.Unsupported('%s: destructuring of self not found (rule R-trait)' % name)
        pre, copied = '', []
        rest = body[:md.start()] + '@@D@@' + body[md.end():]
        for fld in [x.strip() for x in md.group(1).split(',') if x.strip() and x.strip() != '..']:
            mm = re.match(r'(ref mut |ref )?(\w+)$', fld)
            if not mm:
                raise ex.Unsupported('%s: field pattern %r' % (name, fld))
            kind, x = mm.group(1), mm.group(2)
            if kind == 'ref mut ':
                rest = re.sub(r'\*' + x + r'\b', 'this.' + x, rest)
            elif kind == 'ref ':
                rest = re.sub(r'\b' + x + r'\.', 'this.' + x + '.', rest)
            else:
                pre += 'let %s = this.%s; ' % (x, x)
                copied.append(x)
        stats['R-trait'] = 1
        body = rest.replace('@@D@@', pre)
        body = ex.apply_rules(body, [
            ('R-misc', r'\bunsafe \{', '{'),
            ('R-view', r'this\.array\.get_unchecked\(\.\.([^()]+?)\)', r'this.array.range(0, \1)'),
            ('R-view', r'this\.array\.get_unchecked\(([^.()]+(?:\.\w+)?)\s*\.\.\s*([^()]+?)\)', r'this.array.range(\1, \2)'),
            ('R-forget', r'mem::forget\(this\);', 'this.array.forget();'),
        ], stats)
        # optional `.enumerate()`: the closure then also receives the element's position in `remaining` (counted from its start)
        ml = re.search(r'remaining\.iter\(\)(\.enumerate\(\))?\.' + name + r'\(init, \|acc, (?:src|\((\w+), src\))\| \{ (.*?) f\(acc, value\) \}\)', body)
        if not ml or bool(ml.group(1)) != bool(ml.group(2)):
            raise ex.Unsupported('%s: `remaining.iter()[.enumerate()].%s(init, |acc, src| {..; f(acc, value)})` not found (rule R-iter)' % (name, name))
        inner = ml.group(3)
        if ml.group(2):
            inner = 'let %s: usize = %s; ' % (ml.group(2), '__cnt - 1 - __k' if back else '__k') + inner
        inner, k1 = re.subn(r'ptr::read\(src\)', 'this.array.take(src)', inner)
        if k1 != 1:
            raise ex.Unsupported('%s: closure does not read its element with ptr::read(src)' % name)
        stats.update({'R-iter': 1, 'R-read': 1, 'R-foreign': 1})
        src_expr = '(remaining.hi - 1 - __k)' if back else '(remaining.lo + __k)'
        idx_inv = ('this.index == i0, this.index_back == b0 - __k,' if back else 'this.index == i0 + __k, this.index_back == b0,')
        elem = 'rem0[rem0.len() - 1 - j]' if back else 'rem0[j]'
        cur = 'rem0[rem0.len() - 1 - __k]' if back else 'rem0[__k as int]'
        shrink = 'before.drop_last()' if back else 'before.drop_first()'
        keep = ('forall|j: int| 0 <= j < __cnt - __k ==> this.remaining()[j] == rem0[j],' if back else
                'forall|j: int| 0 <= j < __cnt - __k ==> this.remaining()[j] == rem0[__k + j],')
        loop = ('{ let ghost rem0 = this.remaining(); let ghost i0 = this.index; let ghost b0 = this.index_back; '
                'let __cnt = remaining.hi - remaining.lo; let mut acc = init; let mut __k: usize = 0; '
                'while __k < __cnt invariant ' + ''.join('%s == %s, ' % (x, {'index': 'i0', 'index_back': 'b0'}[x]) for x in copied if x in ('index', 'index_back')) + 'this.wf(), remaining.lo == i0, remaining.hi == b0, __cnt == rem0.len(), i0 + __cnt == b0, __k <= __cnt, '
                + idx_inv + ' ' + keep +
                ' f.log().len() == __k, forall|j: int| 0 <= j < __k ==> (#[trigger] f.log()[j]).1 == ' + elem + ', '
                '__k == 0 ==> acc == init, __k > 0 ==> f.log()[0].0 == init && acc == f.log().last().2, '
                'forall|j: int| 0 < j < __k ==> (#[trigger] f.log()[j]).0 == f.log()[j - 1].2, decreases __cnt - __k, { '
                'let src = ' + src_expr + '; let ghost before = this.remaining(); '
                + inner +
                ' proof { assert(this.wf()) /*OB:%s.unwind@closure:C04*/; ' + ('assert(value == before[before.len() - 1]); ' if back else 'assert(value == before[0]); assert(before[0] == rem0[__k + 0]); ') + 'assert(value == %s); assert(this.remaining() =~= %s); } '
                'acc = f.call(acc, value); __k += 1; } acc }') % (name, cur, shrink)
        body = body[:ml.start()] + loop + body[ml.end():]
        ex.check_supported(name, body)
        LOG = 'final(f).log()'
        REMS = 'self.remaining()'
        arg = (REMS + '[' + REMS + '.len() - 1 - k]') if back else (REMS + '[k]')
        from verus_engine import Fn
        g.emit_fn(Fn(name, 'src/iter.rs', f['line'], f['sig'], 'fn %s<B, F: Foreign2<B, T, B>>(self, init: B, f: &mut F) -> (ret: B)' % name, 'let mut this = self; ' + body,
                     ['self.wf()', 'old(f).log().len() == 0'],
                     [('once-per-element', ['C06', 'C03'], LOG + '.len() == ' + REMS + '.len()'),
                      ('in-order', ['C06'], 'forall|k: int| 0 <= k < ' + REMS + '.len() ==> (#[trigger] ' + LOG + '[k]).1 == ' + arg),
                      ('empty-returns-init', ['C06'], REMS + '.len() == 0 ==> ret == init'),
                      ('threads-accumulator', ['C06'], REMS + '.len() > 0 ==> ' + LOG + '[0].0 == init && ret == ' + LOG + '.last().2'),
                      ('threads-accumulator-step', ['C06'], 'forall|k: int| 0 < k < ' + REMS + '.len() ==> (#[trigger] ' + LOG + '[k]).0 == ' + LOG + '[k - 1].2')],
                     stats, n, PROPS))

    fold_like(IT, 'fold', False)
    fold_like(DEI, 'rfold', True)
    g.raw('}\n')

    # ---- clone: needs T: Clone -> ForeignClone ----
    g.raw('impl<T: ForeignClone, N: ArrayLength> GenericArrayIter<T, N> {')
    f = g.extract_method('src/iter.rs', CLONE, 'clone')
    stats = {}
    body = ex.normalize(f['body'])
    n = ex.statements(body)
    # which value owns the clones made so far?  a GenericArrayIter local is a guard (its Drop releases [index, index_back));
    # a bare array copy is owned by nobody.
    m_iter = re.search(r'let mut (\w+) = GenericArrayIter \{', body)
    m_bare = re.search(r'let mut (\w+) = unsafe \{ ptr::read\(&self\.array\) \};', body)
    if m_iter:
        guard, arr = m_iter.group(1), m_iter.group(1) + '.array'
        unwind = 'assert(%s.wf());' % guard
        inv_guard = '%s.wf(), %s.index == 0, %s.index_back == __k,' % (guard, guard, guard)
        counter = guard + '.index_back'
    elif m_bare:
        guard, arr = None, m_bare.group(1)
        # no guard owns `array`: on unwinding its live slots would leak, so none may be live at the foreign call
        unwind = 'assert(%s.all_dead());' % arr
        inv_guard = '%s.ok(), forall|j: int| 0 <= j < N::n() ==> ((#[trigger] %s.view()[j]).is_some() <==> j < __k), index_back == __k,' % (arr, arr)
        counter = 'index_back'
    else:
        raise ex.Unsupported('clone: cannot find the destination of the clones')
    loop_pat = (r'for \(dst, src\) in ' + re.escape(arr) + r'\.as_mut_slice\(\)\.iter_mut\(\)\.zip\(self\.as_slice\(\)\) \{ '
                r'unsafe \{ ptr::write\(dst, src\.clone\(\)\) \}; (' + re.escape(counter) + r' \+= 1;) \}')
    loop_rep = ('let __src = self.as_slice(); let __n = cmp_min(N::usize_(), __src.hi - __src.lo); let mut __k: usize = 0; '
                'while __k < __n invariant self.wf(), __src.lo == self.index, __src.hi == self.index_back, __n == self.index_back - self.index, __k <= __n, '
                + inv_guard +
                ' forall|j: int| 0 <= j < __k ==> self.remaining()[j].cloned(#[trigger] ' + arr + '.view()[j].unwrap()), decreases __n - __k, { '
                'let dst = __k; let src = __src.lo + __k; '
                'proof { ' + unwind[:-1] + ' /*OB:clone.unwind@src.clone:C04*/; } '
                'let __c = self.array.peek(src).clone_(); ' + arr + r'.put(dst, __c); \1 __k += 1; }')
    body, k = re.subn(loop_pat, loop_rep, body)
    if k != 1:
        raise ex.Unsupported('clone: the zip loop does not have the expected shape (rule R-iter/zip)')
    stats['R-iter'] = 1
    stats['R-write'] = 1
    stats['R-foreign'] = 1
    body = ex.apply_rules(body, [('R-read', r'unsafe \{ ptr::read\(&self\.array\) \}', 'self.array.bitcopy_dead()')], stats)
    ex.check_supported('clone', body)
    from verus_engine import Fn
    g.emit_fn(Fn('clone', 'src/iter.rs', f['line'], f['sig'], 'fn clone(&self) -> (r: Self)', body, ['self.wf()'],
                 [('wf', ['C03', 'C06'], 'r.wf()'),
                  ('same-len', C6, 'r.remaining().len() == self.remaining().len()'),
                  ('elementwise', C6, 'forall|k: int| 0 <= k < self.remaining().len() ==> self.remaining()[k].cloned(#[trigger] r.remaining()[k])')],
                 stats, n, PROPS))
    g.raw('}\n')

    # ---- into_iter ----
    g.raw('// rule R-slots: the consumed GenericArray<T, N> is a fully live Slots block\n'
          'pub fn manually_drop_new<T, N: ArrayLength>(a: Slots<T, N>) -> (r: Slots<T, N>) ensures r == a { a }\n')
    f = g.extract_method('src/iter.rs', INTO, 'into_iter')
    stats = {}
    body = ex.normalize(f['body'])
    n = ex.statements(body)
    body = ex.apply_rules(body, [('R-slots', r'ManuallyDrop::new\(self\)', 'manually_drop_new(this)'), ('R-len', r'\bN::USIZE\b', 'N::usize_()')], stats)
    ex.check_supported('into_iter', body)
    g.emit_fn(Fn('into_iter', 'src/iter.rs', f['line'], f['sig'], 'fn into_iter<T, N: ArrayLength>(this: Slots<T, N>) -> (r: GenericArrayIter<T, N>)',
                 body, ['this.ok()', 'this.all_live()'],
                 [('wf', ['C03', 'C06'], 'r.wf()'),
                  ('all', C6, 'r.remaining().len() == N::n() && forall|k: int| 0 <= k < N::n() ==> #[trigger] r.remaining()[k] == this.view()[k].unwrap()')],
                 stats, n, PROPS))
    g.raw('proof fn canary() { assert(false); } /*OB:canary:*/\n')
    g.raw('} // verus!\nfn main() {}\n')


def props_for(fname, what):
    if what in ('take', 'put', 'peek', 'drop_range', 'forget', 'range'):
        return ['C03', 'C05'] if what == 'drop_range' else ['C03']
    return PROPS

"""V unit `layout`: the storage of GenericArray<T, N> (C01, and the corollaries used by C11 and C19), for ALL N and ALL
element layouts.

Nothing here is a function body: what is extracted mechanically from src/lib.rs are the DEFINITIONS the layout depends
on - which node type each binary digit of N selects (the three `unsafe impl ArrayLength`), the zero base `[T; 0]`, the
field lists in declaration order and the #[repr(..)] attributes of GenericArrayImplEven / GenericArrayImplOdd /
GenericArray.  From them the generator writes the spec functions `arr(n, t)` (layout of the storage for length n) and
`elem_off(n, i, t)` (offset of the i-th T-typed leaf in declaration order) by instantiating the Reference's repr(C)
algorithm (prelude) on the parsed field lists; the obligations are proved by induction on n:
    arr(n, t).size == n * t.size,  arr(n, t).align == t.align,  elem_off(n, i, t) == i * t.size   (i < n),
with the only hypothesis `t.align > 0 && t.size % t.align == 0` (true of every Rust type)."""
import re

NAME = 'layout'
PROPS = ['C01', 'C11', 'C19']
DROPPED = 'rustc\'s actual layout computation (engine K compares against rustc at the lattice); the Reference\'s repr(C) algorithm is the trusted model'
FILE = 'src/lib.rs'


def parse_struct(text, name, ex):
    m = re.search(r'((?:#\[[^\]]*\]\s*)*)pub struct ' + name + r'\s*<([^>{]*)>\s*\{', text)
    if not m:
        raise ex.LostAnchor('struct %s not found' % name)
    attrs = m.group(1)
    end = ex.match_brace(text, m.end() - 1)
    body = text[m.end():end]
    body = re.sub(r'#\[[^\]]*\]', '', body)
    fields = []
    for fm in re.finditer(r'(?:pub(?:\([a-z]+\))?\s+)?(\w+)\s*:\s*([^,]+),?', body):
        fields.append((fm.group(1), ' '.join(fm.group(2).split())))
    reprs = re.findall(r'#\[repr\(([^\]]*)\)\]', attrs)
    return {'name': name, 'attrs': attrs, 'repr': [x.strip() for r in reprs for x in re.split(r',(?![^()]*\))', r)], 'fields': fields,
            'line': text[:m.start()].count('\n') + 1}


def field_kind(ty):
    if ty == 'U':
        return 'U'
    if ty == 'T':
        return 'T'
    if re.match(r'(core::marker::)?PhantomData<', ty):
        return 'P'
    return None


def gen_node(st, fname, ex):
    """spec fns for a repr(C) node with fields of kind U (half), T (element), P (phantom): layout and per-field offsets"""
    kinds = [field_kind(t) for _, t in st['fields']]
    if None in kinds:
        raise ex.Unsupported('struct %s has a field of unexpected type: %s' % (st['name'], st['fields']))
    packed = 0
    known = True
    has_c = False
    for r in st['repr']:
        if r == 'C':
            has_c = True
        elif r == 'packed':
            packed = 1
        elif re.match(r'packed\((\d+)\)', r):
            packed = int(re.match(r'packed\((\d+)\)', r).group(1))
        else:
            known = False
    lay = {'U': 'u', 'T': 't', 'P': 'phantom()'}
    if not has_c or not known:
        # without repr(C) (or with a repr this model does not know) the layout is unspecified: nothing can be proved about it
        return ('pub uninterp spec fn %s(t: Layout, u: Layout) -> Layout; // repr of %s is %s: layout unspecified\n'
                'pub uninterp spec fn %s_off(t: Layout, u: Layout, k: nat) -> nat;\n' % (fname, st['name'], st['repr'] or 'default', fname)), kinds
    lines = ['pub open spec fn %s_all(t: Layout, u: Layout) -> (Layout, Seq<nat>) {' % fname]
    prev = '0'
    offs, aligns = [], []
    for i, k in enumerate(kinds):
        a = 'cap(%s.align, %d)' % (lay[k], packed)
        lines.append('    let o%d = round_up(%s, %s);' % (i, prev, a))
        lines.append('    let c%d = o%d + %s.size;' % (i, i, lay[k]))
        prev = 'c%d' % i
        offs.append('o%d' % i)
        aligns.append(a)
    al = aligns[0] if aligns else '1'
    for a in aligns[1:]:
        al = 'max(%s, %s)' % (al, a)
    lines.append('    let al = %s;' % al)
    lines.append('    (Layout { size: round_up(%s, al), align: al }, seq![%s])' % (prev, ', '.join(offs)))
    lines.append('}')
    lines.append('pub open spec fn %s(t: Layout, u: Layout) -> Layout { %s_all(t, u).0 }' % (fname, fname))
    lines.append('pub open spec fn %s_off(t: Layout, u: Layout, k: nat) -> nat { %s_all(t, u).1[k as int] }' % (fname, fname))
    return '\n'.join(lines) + '\n', kinds


def generate(g, ex):
    from verus_engine import Fn
    raw = g.src_with_attrs(FILE)
    g.raw('use vstd::prelude::*;\nverus! {\n')
    g.prelude('layout.rs')
    # ---- which node does each digit select, and what is the zero base ----
    m0 = re.search(r'unsafe impl ArrayLength for UTerm \{\s*(?:#\[[^\]]*\]\s*)*type ArrayType<T> = (.+?);\s*\}', raw)
    mE = re.search(r'unsafe impl<N: ArrayLength> ArrayLength for UInt<N, B0> \{\s*(?:#\[[^\]]*\]\s*)*type ArrayType<T> = (.+?);\s*\}', raw)
    mO = re.search(r'unsafe impl<N: ArrayLength> ArrayLength for UInt<N, B1> \{\s*(?:#\[[^\]]*\]\s*)*type ArrayType<T> = (.+?);\s*\}', raw)
    if not (m0 and mE and mO):
        raise ex.LostAnchor('the three `unsafe impl ArrayLength` items were not found')
    base_ty = ' '.join(m0.group(1).split())
    def node_of(s):
        mm = re.match(r'(\w+)<T, N::ArrayType<T>>$', ' '.join(s.split()))
        if not mm:
            raise ex.Unsupported('ArrayType of a digit impl is not `Node<T, N::ArrayType<T>>`: %s' % s)
        return mm.group(1)
    nodeE, nodeO = node_of(mE.group(1)), node_of(mO.group(1))
    stE, stO = parse_struct(raw, nodeE, ex), parse_struct(raw, nodeO, ex)
    stG = parse_struct(raw, 'GenericArray', ex)
    g.raw('\n// ===== generated from the definitions in src/lib.rs =====')
    g.raw('// UTerm            => %s   (src/lib.rs:%d)' % (base_ty, raw[:m0.start()].count('\n') + 1))
    g.raw('// UInt<N, B0>      => %s %s fields %s   (src/lib.rs:%d)' % (nodeE, stE['repr'], stE['fields'], stE['line']))
    g.raw('// UInt<N, B1>      => %s %s fields %s   (src/lib.rs:%d)' % (nodeO, stO['repr'], stO['fields'], stO['line']))
    g.raw('// GenericArray     => %s fields %s   (src/lib.rs:%d)' % (stG['repr'], stG['fields'], stG['line']))
    mb = re.match(r'\[T; (\d+)\]$', base_ty)
    if mb:
        g.raw('pub open spec fn base(t: Layout) -> Layout { native_array(%s, t) }' % mb.group(1))
        base_elems = int(mb.group(1))
    elif base_ty == '()':
        g.raw('pub open spec fn base(t: Layout) -> Layout { Layout { size: 0, align: 1 } }  // unit type')
        base_elems = 0
    else:
        raise ex.Unsupported('zero base type %s' % base_ty)
    if base_elems != 0:
        raise ex.Unsupported('zero base holds %d elements' % base_elems)
    txtE, kE = gen_node(stE, 'even', ex)
    txtO, kO = gen_node(stO, 'odd', ex)
    g.raw(txtE)
    g.raw(txtO)
    # the wrapper struct
    if len(stG['fields']) != 1 or 'transparent' not in stG['repr'] or stG['fields'][0][1] != 'N::ArrayType<T>':
        g.raw('pub uninterp spec fn wrap(inner: Layout) -> Layout; // GenericArray is not #[repr(transparent)] over N::ArrayType<T>: layout unspecified')
    else:
        g.raw('pub open spec fn wrap(inner: Layout) -> Layout { inner }   // #[repr(transparent)] over the single field')
    # the proofs below are written for the declared shape (two halves, then the odd element / a phantom marker)
    if kE != ['U', 'U', 'P'] or kO != ['U', 'U', 'T']:
        raise ex.Unsupported('storage node shape changed (even: %s, odd: %s): the layout induction must be re-proved for the new shape' % (kE, kO))
    g.raw('''
pub open spec fn storage(n: nat, t: Layout) -> Layout
    decreases n
{
    if n == 0 { base(t) } else if n % 2 == 0 { even(t, storage(n / 2, t)) } else { odd(t, storage(n / 2, t)) }
}
pub open spec fn arr(n: nat, t: Layout) -> Layout { wrap(storage(n, t)) }

// number of T-typed leaves (C19: no slot skipped or counted twice)
pub open spec fn slots(n: nat) -> nat
    decreases n
{
    if n == 0 { 0 } else if n % 2 == 0 { slots(n / 2) + slots(n / 2) } else { slots(n / 2) + slots(n / 2) + 1 }
}

// byte offset of the i-th T-typed leaf, leaves counted in declaration order (first half, second half, own element)
pub open spec fn elem_off(n: nat, i: nat, t: Layout) -> nat
    recommends i < n
    decreases n
{
    if n == 0 { 0 } else {
        let h = n / 2;
        let u = storage(h, t);
        if i < h { (if n % 2 == 0 { even_off(t, u, 0) } else { odd_off(t, u, 0) }) + elem_off(h, i, t) }
        else if i < 2 * h { (if n % 2 == 0 { even_off(t, u, 1) } else { odd_off(t, u, 1) }) + elem_off(h, (i - h) as nat, t) }
        else { odd_off(t, u, 2) }
    }
}

// ===== obligations (induction on n) =====
proof fn lemma_layout(n: nat, t: Layout)
    requires valid_elem(t),
    ensures
        arr(n, t).size == n * t.size, /*OB:lemma_layout.size-is-N-times-size_of-T:C01,C11*/
        arr(n, t).align == t.align, /*OB:lemma_layout.align-is-align_of-T:C01,C11*/
        arr(n, t) == native_array(n, t), /*OB:lemma_layout.same-as-native-array:C01*/
        storage(n, t) == arr(n, t),
    decreases n
{
    if n == 0 {
    } else {
        let h = n / 2;
        lemma_layout(h, t);
        lemma_mul_mod(h, t.size, t.align);
        lemma_mul_mod(2 * h, t.size, t.align);
        lemma_mul_mod(2 * h + 1, t.size, t.align);
        assert(h * t.size + h * t.size == (2 * h) * t.size) by (nonlinear_arith);
        assert((2 * h) * t.size + t.size == (2 * h + 1) * t.size) by (nonlinear_arith);
        assert(0nat % t.align == 0);
        if n % 2 == 0 { assert(n == 2 * h); } else { assert(n == 2 * h + 1); }
    }
}

proof fn lemma_elem_off(n: nat, i: nat, t: Layout)
    requires valid_elem(t), i < n,
    ensures
        elem_off(n, i, t) == i * t.size, /*OB:lemma_elem_off.element-i-at-i-times-size:C01,C19*/
        elem_off(n, i, t) + t.size <= arr(n, t).size, /*OB:lemma_elem_off.element-inside-the-array:C01*/
    decreases n
{
    let h = n / 2;
    lemma_layout(h, t);
    lemma_layout(n, t);
    lemma_mul_mod(h, t.size, t.align);
    lemma_mul_mod(2 * h, t.size, t.align);
    assert(h * t.size + h * t.size == (2 * h) * t.size) by (nonlinear_arith);
    assert(0nat % t.align == 0);
    assert(i * t.size + t.size <= n * t.size) by (nonlinear_arith) requires i < n;
    if i < h {
        lemma_elem_off(h, i, t);
    } else if i < 2 * h {
        lemma_elem_off(h, (i - h) as nat, t);
        assert(h * t.size + (i - h) * t.size == i * t.size) by (nonlinear_arith) requires i >= h;
    } else {
        assert(i == 2 * h);
    }
}

proof fn lemma_slots(n: nat)
    ensures slots(n) == n, /*OB:lemma_slots.exactly-N-element-slots:C19,C01*/
    decreases n
{
    if n > 0 { lemma_slots(n / 2); }
}

// an array of arrays is itself a valid element (C11): M arrays of N elements occupy exactly the storage of N*M elements
proof fn lemma_nested(n: nat, m: nat, t: Layout)
    requires valid_elem(t),
    ensures
        valid_elem(arr(n, t)),
        arr(m, arr(n, t)).size == arr(n * m, t).size, /*OB:lemma_nested.flatten-same-extent:C11*/
        arr(m, arr(n, t)).align == arr(n * m, t).align, /*OB:lemma_nested.flatten-same-alignment:C11*/
{
    lemma_layout(n, t);
    lemma_mul_mod(n, t.size, t.align);
    lemma_layout(m, arr(n, t));
    lemma_layout(n * m, t);
    assert(m * (n * t.size) == (n * m) * t.size) by (nonlinear_arith);
}

// element (i, j) of the nested array is element i*N + j of the flat one (row-major), for the same storage
proof fn lemma_row_major(n: nat, m: nat, i: nat, j: nat, t: Layout)
    requires valid_elem(t), i < m, j < n,
    ensures
        i * n + j < n * m,
        elem_off(m, i, arr(n, t)) + elem_off(n, j, t) == elem_off(n * m, i * n + j, t), /*OB:lemma_row_major.element-ij-is-flat-element-iN+j:C11*/
{
    lemma_nested(n, m, t);
    assert(i * n + j < n * m) by (nonlinear_arith) requires i < m, j < n;
    lemma_elem_off(m, i, arr(n, t));
    lemma_elem_off(n, j, t);
    lemma_elem_off(n * m, i * n + j, t);
    lemma_layout(n, t);
    assert(i * (n * t.size) + j * t.size == (i * n + j) * t.size) by (nonlinear_arith);
}
''')

    # ---- C19: the ConstDefault impls initialise every field, and the zeroize impl hands zeroize the full mutable slice ----
    cd = g.src('src/impl_const_default.rs')
    def init_of(struct):
        m = re.search(r'impl<[^>]*>\s*ConstDefault for ' + struct + r'<[^>]*>\s*(?:where[^{]*)?\{\s*const DEFAULT: Self = Self \{([^}]*)\};', cd)
        if not m:
            raise ex.Unsupported('ConstDefault impl for %s is not a struct literal `Self { .. }`' % struct)
        fields = {}
        for fm in re.finditer(r'(\w+)\s*:\s*([^,]+),?', m.group(1)):
            fields[fm.group(1)] = ' '.join(fm.group(2).split())
        return fields, cd[:m.start()].count('\n') + 1
    def count(struct_parsed, inits):
        cu = ct = 0
        for fname, fty in struct_parsed['fields']:
            v = inits.get(fname)
            k = field_kind(fty)
            if k == 'U' and v == 'U::DEFAULT':
                cu += 1
            elif k == 'T' and v == 'T::DEFAULT':
                ct += 1
            elif k == 'P' and re.match(r'(core::marker::)?PhantomData$', v or ''):
                pass
            else:
                raise ex.Unsupported('ConstDefault for %s: field %s: %s is initialised with %r' % (struct_parsed['name'], fname, fty, v))
        return cu, ct
    iE, lE = init_of(nodeE)
    iO, lO = init_of(nodeO)
    iG, lG = init_of('GenericArray')
    cuE, ctE = count(stE, iE)
    cuO, ctO = count(stO, iO)
    if iG.get('data') != 'ConstDefault::DEFAULT':
        raise ex.Unsupported('ConstDefault for GenericArray: data is initialised with %r' % iG.get('data'))
    g.raw("""
// generated from src/impl_const_default.rs:%d,%d,%d: number of leaves of storage(n) that are initialised with T::DEFAULT
//   even node: %d halves initialised with U::DEFAULT, %d elements with T::DEFAULT;  odd node: %d halves, %d elements
pub open spec fn default_leaves(n: nat) -> nat
    decreases n
{
    if n == 0 { 0 } else if n %% 2 == 0 { %d * default_leaves(n / 2) + %d } else { %d * default_leaves(n / 2) + %d }
}
proof fn lemma_const_default(n: nat)
    ensures default_leaves(n) == slots(n) && default_leaves(n) == n, /*OB:lemma_const_default.every-one-of-the-N-slots-is-T-DEFAULT:C19*/
    decreases n
{
    lemma_slots(n);
    if n > 0 { lemma_const_default(n / 2); lemma_slots(n / 2); }
}
""" % (lE, lO, lG, cuE, ctE, cuO, ctO, cuE, ctE, cuO, ctO))
    zt = g.src('src/impl_zeroize.rs')
    mz = re.search(r'impl<T: Zeroize, N: ArrayLength> Zeroize for GenericArray<T, N>\s*\{\s*fn zeroize\(&mut self\)\s*\{([^}]*)\}', zt)
    if not mz:
        raise ex.LostAnchor('Zeroize impl not found')
    zbody = ' '.join(mz.group(1).split())
    if zbody != 'self.as_mut_slice().iter_mut().zeroize()':
        raise ex.Unsupported('zeroize is not `self.as_mut_slice().iter_mut().zeroize()` (delegation to the full mutable slice): %s' % zbody)
    g.raw("""
// src/impl_zeroize.rs:%d  `fn zeroize(&mut self) { self.as_mut_slice().iter_mut().zeroize() }`
// as_mut_slice is the full view of N elements (proved in unit `views`); zeroize's own impl for IterMut zeroizes every item it
// yields (assumed contract of the dependency); so the elements reached are exactly the N slots:
proof fn lemma_zeroize_reaches_every_slot(n: nat)
    ensures slots(n) == n, /*OB:lemma_zeroize.the-full-mutable-slice-has-all-N-slots:C19*/
{ lemma_slots(n); }
""" % (zt[:mz.start()].count('\n') + 1))
    # ---- C11: the type-level length expression of each Flatten / Unflatten impl gives the same extent ----
    seq = g.src('src/sequence.rs')
    outs = re.findall(r'unsafe impl<([^>]*)> (Flatten|Unflatten)<T, (\w+), (\w+)> for (&\'a mut |&\'a )?GenericArray<([^{]*?)>\s*where[^{]*\{\s*type Output = (&\'a mut |&\'a )?GenericArray<([^;]*)>;', seq)
    if len(outs) != 6:
        raise ex.LostAnchor('expected 6 Flatten/Unflatten impls for GenericArray, found %d' % len(outs))
    k = 0
    for gen, trait, p1, p2, selfref, selfty, outref, outty in outs:
        k += 1
        form = (selfref or 'owned').strip()
        selfty, outty = ' '.join(selfty.split()), ' '.join(outty.split())
        if trait == 'Flatten':
            # self: GenericArray<GenericArray<T, N>, M>   output: GenericArray<T, LEN>
            mo = re.match(r'T, (.+)$', outty)
            if selfty != 'GenericArray<T, N>, M' or not mo:
                raise ex.Unsupported('Flatten impl %d: unexpected types %s -> %s' % (k, selfty, outty))
            ln = mo.group(1)
            expr = {'Prod<N, M>': 'n * m', 'Prod<M, N>': 'm * n'}.get(ln)
            if expr is None:
                expr = 'unknown_len(n, m) /* %s */' % ln
            g.raw('proof fn lemma_flatten_impl_%d(n: nat, m: nat, t: Layout) requires valid_elem(t), ensures arr(m, arr(n, t)).size == arr(%s, t).size, /*OB:flatten_%s.output-length-gives-same-extent:C11*/\n{ lemma_nested(n, m, t); assert(m * n == n * m) by (nonlinear_arith); }' % (k, expr, form.replace("'a ", '').replace('&', 'ref').replace(' ', '')))
        else:
            mo = re.match(r'GenericArray<T, N>, (.+)$', outty)
            if selfty != 'T, NM' or not mo:
                raise ex.Unsupported('Unflatten impl %d: unexpected types %s -> %s' % (k, selfty, outty))
            ln = mo.group(1)
            expr = {'Quot<NM, N>': 'nm / n'}.get(ln)
            if expr is None:
                expr = 'unknown_len(nm, n) /* %s */' % ln
            g.raw('proof fn lemma_unflatten_impl_%d(nm: nat, n: nat, t: Layout) requires valid_elem(t), n > 0, nm %% n == 0, ensures arr(%s, arr(n, t)).size == arr(nm, t).size, /*OB:unflatten_%s.output-length-gives-same-extent:C11*/\n{ lemma_nested(n, nm / n, t); vstd::arithmetic::div_mod::lemma_fundamental_div_mod(nm as int, n as int); assert(n * (nm / n) == nm); }' % (k, expr, form.replace("'a ", '').replace('&', 'ref').replace(' ', '')))
    g.raw('pub uninterp spec fn unknown_len(a: nat, b: nat) -> nat;')
    g.fn_spans.append(('lemmas', 1, len(g.lines), PROPS))
    g.functions.append({'function': 'storage definitions (3 ArrayLength impls, GenericArrayImplEven, GenericArrayImplOdd, GenericArray) + 6 Flatten/Unflatten Output types',
                        'source': 'src/lib.rs:%d,%d,%d; src/sequence.rs' % (stE['line'], stO['line'], stG['line']), 'signature': 'definitions', 'statements_carried': 0,
                        'rules_fired': {'parsed-struct': 3, 'parsed-impl': 9}, 'ensures_clauses': 12, 'requires_clauses': 0})
    g.raw('proof fn canary() { assert(false); } /*OB:canary:*/')
    g.raw('} // verus!\nfn main() {}\n')


def props_for(fname, what):
    return PROPS

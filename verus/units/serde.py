"""V unit `serde`: Serialize::serialize and GAVisitor::visit_seq of src/impl_serde.rs (C17) for ALL N.
The serializer and the sequence source are opaque caller-supplied objects with ghost logs (rule R-foreign).  serialize:
the protocol is exactly serialize_tuple(N), the N elements in index order, end - and the first error is propagated.
visit_seq: on Ok the result holds exactly the first N elements read, in order; on every exit - Ok, Err, or `?` - each
element read is either in the result or released by the builder's Drop (rule R-drop), never left unowned."""
import re

NAME = 'serde'
PROPS = ['C17']
DROPPED = 'the concrete serde data formats; error values (only Ok/Err matters); `expecting()`'
FILE = 'src/impl_serde.rs'


def generate(g, ex):
    from verus_engine import Fn
    g.raw('use vstd::prelude::*;\nverus! {\n')
    g.prelude('common.rs')
    g.prelude('slots.rs')
    g.prelude('builder.rs')
    g.prelude('serde.rs')
    g.raw('''
// the builder of src/internal.rs (its own contracts are proved in unit `tfi`); here only what visit_seq uses
pub struct IntrusiveArrayBuilder<T, N: ArrayLength> { pub array: Slots<T, N>, pub position: usize }
impl<T, N: ArrayLength> IntrusiveArrayBuilder<T, N> {
    pub open spec fn wf(&self) -> bool {
        &&& self.position <= N::n()
        &&& self.array.ok()
        &&& forall|k: int| 0 <= k < N::n() ==> ((#[trigger] self.array.view()[k]).is_some() <==> k < self.position)
    }
    pub open spec fn built(&self) -> Seq<T> { Seq::new(self.position as nat, |k: int| self.array.view()[k].unwrap()) }
    // contracts proved in unit `tfi` (same names, same text)
    #[verifier::external_body]
    pub fn new(array: Slots<T, N>) -> (r: Self) requires array.ok(), array.all_dead(), ensures r.wf() && r.position == 0 { unimplemented!() }
    #[verifier::external_body]
    pub fn finish(self) -> (r: Slots<T, N>) requires self.wf(), self.position == N::n(), ensures r == self.array { unimplemented!() }
    #[verifier::external_body]
    pub fn drop_impl(&mut self) requires old(self).wf(), ensures final(self).array.ok() && final(self).array.all_dead() { unimplemented!() }
}
#[verifier::external_body]
pub fn array_assume_init<T, N: ArrayLength>(array: Slots<T, N>) -> (r: GenericArray<T, N>) requires array.ok(), array.all_live(), ensures r.slots == array { unimplemented!() }

// ===== extracted: src/impl_serde.rs =====
''')
    # ---------------- serialize ----------------
    f = g.extract_method(FILE, 'impl<T, N: ArrayLength> Serialize for GenericArray<T, N>', 'serialize')
    stats = {}
    body = ex.normalize(f['body'])
    n = ex.statements(body)
    m = re.match(r'let mut tup = serializer\.serialize_tuple\(N::USIZE\)\?; for el in self \{ (.*?) \} tup\.end\(\)$', body)
    if not m:
        raise ex.Unsupported('serialize: not `let mut tup = serializer.serialize_tuple(N::USIZE)?; for el in self {..} tup.end()`')
    inner = m.group(1)
    inner, k = re.subn(r'tup\.serialize_element\(el\)\?;', 'match tup.serialize_element(el) { Ok(_) => {}, Err(e) => { return Err(e); } }', inner)
    if k != 1:
        raise ex.Unsupported('serialize: loop body is not `tup.serialize_element(el)?;`')
    stats.update({'R-len': 1, 'R-foreign': 3, 'R-iter': 1})
    body = ('let mut tup = match serializer.serialize_tuple(N::usize_()) { Ok(t) => t, Err(e) => { return Err(e); } }; '
            'let mut __k: usize = 0; while __k < N::usize_() invariant self_.ok(), self_.all_live(), __k <= N::n(), tup.log().len() == 1 + __k, tup.log()[0] == SerEv::<T>::Tuple(N::n()), '
            'forall|j: int| 0 <= j < __k ==> (#[trigger] tup.log()[1 + j]) == SerEv::Elem(self_.view()[j].unwrap()), decreases N::n() - __k, { '
            'let el = self_.peek(__k); ' + inner + ' __k += 1; } tup.end()')
    ex.check_supported('serialize', body)
    g.emit_fn(Fn('serialize', FILE, f['line'], f['sig'], 'pub fn serialize<T, N: ArrayLength, S: ForeignSerializer<T>>(self_: &Slots<T, N>, serializer: S) -> (ret: Result<Seq<SerEv<T>>, SerErr>)', body,
                 ['self_.ok()', 'self_.all_live()', 'serializer.log().len() == 0'],
                 [('tuple-of-N-elements-in-order-then-end', ['C17'], 'ret is Ok ==> ret->Ok_0.len() == N::n() + 2 && ret->Ok_0[0] == SerEv::<T>::Tuple(N::n()) && ret->Ok_0[N::n() + 1] == SerEv::<T>::End '
                   '&& forall|j: int| 0 <= j < N::n() ==> (#[trigger] ret->Ok_0[1 + j]) == SerEv::Elem(self_.view()[j].unwrap())')],
                 stats, n, ['C17']))

    # ---------------- visit_seq ----------------
    text = g.src(FILE)
    m = re.search(r"impl<'de, T, N: ArrayLength> Visitor<'de> for GAVisitor<T, N>\s*where[^{]*\{", text)
    if not m:
        raise ex.LostAnchor('Visitor impl for GAVisitor not found')
    i = m.end() - 1
    block = text[i + 1:ex.match_brace(text, i)]
    f = ex.find_fn(block, 'visit_seq', i + 1, text)
    stats = {}
    body = ex.normalize(f['body'])
    n = ex.statements(body)
    body = ex.apply_rules(body, [
        ('R-misc', r'\bunsafe \{', '{'),
        ('R-len', r'\bN::USIZE\b', 'N::usize_()'),
        ('R-slots', r'let mut dst = GenericArray::uninit\(\);', 'let dst = Slots::uninit();'),
        ('R-guard', r'IntrusiveArrayBuilder::new\(&mut dst\)', 'IntrusiveArrayBuilder::new(dst)'),
        ('R-guard', r'let \(build_iter, position\) = builder\.iter_position\(\); ', ''),
        ('R-guard', r'\*position\b', 'builder.position'),
        ('R-foreign', r'de::Error::invalid_length\(([^,]+), &self\)', r'invalid_length(\1)'),
    ], stats)
    # the fill loop: `for dst in build_iter { match seq.next_element()? { Some(el) => { dst.write(el); position += 1; } None => break, } }`
    ml = re.search(r'for dst in build_iter \{ match seq\.next_element\(\)\? \{ Some\(el\) => \{ (.*?) \} None => break, \} \}', body)
    if not ml:
        raise ex.Unsupported('visit_seq: fill loop not found in the expected form (rule R-iter)')
    inner = ml.group(1)
    inner, k1 = re.subn(r'dst\.write\(el\);', 'builder.array.put(__k, el);', inner)
    if k1 != 1 or 'builder.position += 1;' not in inner:
        raise ex.Unsupported('visit_seq: loop body is not {dst.write(el); *position += 1;}')
    loop = ('let mut __k: usize = 0; loop invariant_except_break builder.wf(), builder.position == __k, __k <= N::n(), seq.probe_results().len() == 0, seq.results().len() == __k, '
            'forall|j: int| 0 <= j < __k ==> (#[trigger] seq.results()[j]) == Ok::<Option<T>, ()>(Some(builder.built()[j])), '
            'ensures builder.wf(), seq.probe_results().len() == 0, builder.position <= seq.results().len() <= builder.position + 1, '
            'forall|j: int| 0 <= j < builder.position ==> (#[trigger] seq.results()[j]) == Ok::<Option<T>, ()>(Some(builder.built()[j])), '
            'builder.position < N::n() ==> seq.results().len() == builder.position + 1 && seq.results().last() == Ok::<Option<T>, ()>(None), '
            'builder.position == N::n() ==> seq.results().len() == N::n(), decreases N::n() - __k, { '
            'if __k >= N::usize_() { break; } let ghost bb = builder.built(); let ghost rb = seq.results(); '
            'proof { assert(builder.wf()) /*OB:visit_seq.unwind@next_element:C04,C17*/; } '
            'match (match seq.next_element() { Ok(v) => v, Err(e) => { builder.drop_impl(); return Err(e); } }) { Some(el) => { ' + inner +
            ' __k += 1; proof { assert forall|j: int| 0 <= j < __k implies (#[trigger] seq.results()[j]) == Ok::<Option<T>, ()>(Some(builder.built()[j])) by { '
            'if j < __k - 1 { assert(builder.built()[j] == bb[j]); assert(seq.results()[j] == rb[j]); } } } } None => { break; } } }')
    body = body[:ml.start()] + loop + body[ml.end():]
    stats.update({'R-iter': 1, 'R-write': 1, 'R-foreign': stats.get('R-foreign', 0) + 3, 'R-drop': 4})
    # the surplus probe `seq.next_element::<Dummy>()?.is_some()`
    body, k = re.subn(r'seq\.next_element::<Dummy>\(\)\?\.is_some\(\)',
                      '({ proof { assert(builder.wf()) /*OB:visit_seq.unwind@surplus-probe:C04,C17*/; } match seq.next_element_dummy() { Ok(v) => v, Err(e) => { builder.drop_impl(); return Err(e); } } }).is_some()', body)
    if k != 1:
        raise ex.Unsupported('visit_seq: surplus probe not found')
    # R-drop / R-guard: finish hands the block back; every other exit drops the builder
    body, k = re.subn(r'builder\.finish\(\); IntrusiveArrayBuilder::array_assume_init\(dst\)', 'let dst = builder.finish(); proof { assert(dst.all_live()); } array_assume_init(dst)', body)
    if k != 1:
        raise ex.Unsupported('visit_seq: builder.finish(); array_assume_init(dst) not found')
    fin = body.find('let dst = builder.finish();')
    new = body.find('IntrusiveArrayBuilder::new(dst)')
    out, last = [], 0
    for mm in re.finditer(r'return Err\(invalid_length\(([^;]*?)\)\);|Err\(invalid_length\((builder\.position)\)\) \}$', body):
        out.append(body[last:mm.start()])
        arg = mm.group(1) or mm.group(2)
        tail = ' }' if mm.group(2) else ''
        if mm.start() < new:
            out.append('return Err(invalid_length(%s));' % arg)
        elif mm.start() < fin or mm.group(2):
            out.append('{ let __e = invalid_length(%s); builder.drop_impl(); return Err(__e); }%s' % (arg, tail))
        else:
            out.append('{ dst.scope_exit_unowned() /*OB:visit_seq.nothing-live-leaves-scope-unowned:C17,C03*/; return Err(invalid_length(%s)); }' % arg)
        last = mm.end()
    out.append(body[last:])
    body = ''.join(out)
    ex.check_supported('visit_seq', body)
    g.emit_fn(Fn('visit_seq', FILE, f['line'], f['sig'], 'pub fn visit_seq<T, N: ArrayLength, A: ForeignSeq<T>>(seq: &mut A) -> (ret: Result<GenericArray<T, N>, DeErr>)', body,
                 ['old(seq).results().len() == 0', 'old(seq).probe_results().len() == 0', 'N::n() < usize::MAX  /* `*position + 1` in the error value; a sequence of usize::MAX elements cannot be delivered */'],
                 [('ok-means-the-first-N-elements-in-order', ['C17'], 'ret is Ok ==> final(seq).results().len() == N::n() && forall|k: int| 0 <= k < N::n() ==> (#[trigger] final(seq).results()[k]) == Ok::<Option<T>, ()>(Some(ret->Ok_0.elems()[k]))'),
                  ('reads-at-most-N-elements-plus-one-probe', ['C17'], 'final(seq).results().len() <= N::n() + 1 && final(seq).probe_results().len() <= 1'),
                  ('an-up-front-hint-other-than-N-is-rejected', ['C17'], '(old(seq).hint() is Some && old(seq).hint()->Some_0 != N::n()) ==> ret is Err'),
                  ('surplus-is-rejected', ['C17'], 'ret is Ok ==> (forall|k: int| 0 <= k < final(seq).probe_results().len() ==> (#[trigger] final(seq).probe_results()[k]) == Ok::<Option<()>, ()>(None)) '
                   '&& (final(seq).probe_results().len() == 0 ==> final(seq).hint() == Some(0usize))'),
                  ('a-short-or-failing-source-is-rejected', ['C17'], 'ret is Ok ==> forall|k: int| 0 <= k < N::n() ==> (#[trigger] final(seq).results()[k]) is Ok && final(seq).results()[k]->Ok_0 is Some')],
                 stats, n, PROPS))
    g.raw('proof fn canary() { assert(false); } /*OB:canary:*/')
    g.raw('} // verus!\nfn main() {}\n')


def props_for(fname, what):
    if what in ('put', 'drop_range', 'take'):
        return ['C03', 'C17']
    return ['C17']

"""V unit `macros`: the arms of `arr!` and `box_arr!` (src/arr.rs) and the functions they expand to (C20).

The macro arms are read from /repo's current src/arr.rs on every run and TRANSCRIBED mechanically, the way macro_rules does
it: the repetition `$( .. ),*` is instantiated with k element expressions `ev(log, 0) .. ev(log, k-1)`, the helper macro
`box_arr_helper!` is expanded from its own arm, metavariables are substituted.  Each element expression is a foreign
computation that appends its index to an evaluation log, so "each expression exactly once, left to right" is a
postcondition about the log.  The expansion is then rewritten by the rule table and checked against the contracts of the
functions it calls (from_array, const_transmute, __from_vec_helper, try_from_vec, try_from_boxed_slice), which are
extracted and verified in the same file.

List forms are per element count k (a macro invocation is a program; k is part of its text) with all values symbolic; the
repeat forms are proved for ALL N / all n at once.  What the type checker decides - that the length type inferred from
`Const<k>` / `Const<n>` is the N with N::USIZE == k - is the stated precondition of each list / const-length arm (engine K
exercises it per length)."""
import re

NAME = 'macros'
PROPS = ['C20']
DROPPED = ('macro pattern matching (which arm rustc selects; engine K compiles real invocations); the typenum Const<k> -> N table (precondition); '
           'bytes (sizes in elements); the const-ness of the expansions; hygiene')
FILE = 'src/arr.rs'

OPEN, CLOSE = '([{', ')]}'


def match_delim(text, i):
    """text[i] in OPEN -> index of the matching closer (all three bracket kinds nest)"""
    stack, j = [], i
    while j < len(text):
        c = text[j]
        if c in OPEN:
            stack.append(CLOSE[OPEN.index(c)])
        elif c in CLOSE:
            if not stack or stack.pop() != c:
                return -1
            if not stack:
                return j
        j += 1
    return -1


def macro_arms(text, name, ex):
    """-> [(pattern, body, line)] of `macro_rules! name { (pat) => (body); ... }`, whitespace-normalized"""
    m = re.search(r'macro_rules!\s+' + name + r'\s*\{', text)
    if not m:
        raise ex.LostAnchor('macro_rules! %s not found' % name)
    i = m.end() - 1
    j = ex.match_brace(text, i)
    inner, base = text[i + 1:j], i + 1
    arms, p = [], 0
    while True:
        while p < len(inner) and inner[p] in ' \t\r\n;':
            p += 1
        if p >= len(inner):
            break
        if inner[p] not in OPEN:
            raise ex.LostAnchor('macro %s: arm does not start with a delimiter' % name)
        e = match_delim(inner, p)
        if e < 0:
            raise ex.LostAnchor('macro %s: unbalanced arm pattern' % name)
        pat = ' '.join(inner[p + 1:e].split())
        line = text[:base + p].count('\n') + 1
        q = e + 1
        mm = re.match(r'\s*=>\s*', inner[q:])
        if not mm:
            raise ex.LostAnchor('macro %s: `=>` expected after the pattern' % name)
        q += mm.end()
        if q >= len(inner) or inner[q] not in OPEN:
            raise ex.LostAnchor('macro %s: arm body is not delimited' % name)
        e2 = match_delim(inner, q)
        if e2 < 0:
            raise ex.LostAnchor('macro %s: unbalanced arm body' % name)
        arms.append((pat, ' '.join(inner[q + 1:e2].split()), line))
        p = e2 + 1
    return arms


def transcribe(body, reps, singles, ex):
    """macro_rules transcription: `$( inner ) sep *` is instantiated once per bound fragment of the repetition variables
    in `reps` (name -> list of fragments); `$name` in `singles` is substituted; `$crate::` names this crate."""
    out, i = [], 0
    while i < len(body):
        if body.startswith('$(', i):
            e = match_delim(body, i + 1)
            if e < 0:
                raise ex.Unsupported('unbalanced repetition in a macro arm')
            inner = body[i + 2:e]
            m = re.match(r'\s*([^\s*+?$]?)\s*([*+])', body[e + 1:])
            if not m:
                raise ex.Unsupported('repetition operator missing in a macro arm')
            sep = m.group(1)
            used = [v for v in reps if re.search(r'\$' + v + r'\b', inner)]
            if not used:
                raise ex.Unsupported('repetition without a repetition variable in a macro arm')
            k = len(reps[used[0]])
            parts = []
            for idx in range(k):
                parts.append(transcribe(inner, {}, dict(singles, **{v: reps[v][idx] for v in used}), ex))
            out.append(((sep + ' ') if sep else ' ').join(parts))
            i = e + 1 + m.end()
        else:
            out.append(body[i])
            i += 1
    s = ''.join(out)
    for v, frag in singles.items():
        s = re.sub(r'\$' + v + r'\b', frag.replace('\\', '\\\\'), s)
    s = s.replace('$crate::', '')
    if '$' in s:
        raise ex.Unsupported('unbound metavariable left after transcription: %s' % s[max(0, s.index('$') - 20):s.index('$') + 30])
    return s


def expand_helper(s, helper_arms, ex):
    """expand every `box_arr_helper!(@unit E)` with the helper macro's own arm"""
    while True:
        m = re.search(r'\bbox_arr_helper!\s*\(', s)
        if not m:
            return s
        o = m.end() - 1
        e = match_delim(s, o)
        arg = s[o + 1:e].strip()
        if not arg.startswith('@unit '):
            raise ex.Unsupported('box_arr_helper! called with an unknown form: %s' % arg[:40])
        pats = [a for a in helper_arms if a[0] == '@unit $e:expr']
        if len(pats) != 1:
            raise ex.Unsupported('box_arr_helper!: the `(@unit $e:expr)` arm changed')
        s = s[:m.start()] + transcribe(pats[0][1], {}, {'e': arg[len('@unit '):]}, ex) + s[e + 1:]


SHAPE = ['$($x:expr),* $(,)*', '$x:expr; $N:ty', '$x:expr; $n:expr']

NOBR = r'[^\[\]]*'
RULES = [
    ('R-misc', r'\bunsafe \{', '{'),
    ('R-len', r'<N as typenum::Unsigned>::USIZE\b', 'N::usize_()'),
    ('R-len', r'<N as typenum::Unsigned>::U8 as usize\b', '(N::usize_() % 256)'),      # typenum: U8 = USIZE truncated to u8
    ('R-len', r'<N as typenum::Unsigned>::U16 as usize\b', '(N::usize_() % 65536)'),
    ('R-len', r'\bN::USIZE\b', 'N::usize_()'),
    # a const item inside the expansion (its initialiser may name the arm's length type): a let with the same initialiser
    ('R-const', r'\bconst (\w+): usize = ([^;{}]+);', r'let \1: usize = \2;'),
    # native array literals / repeat expressions in argument position of the conversions
    ('R-arr', r'\bGenericArray::from_array\(\[(' + NOBR + r'); (\w+)\]\)', r'from_array::<N>(arr_repeat(\1, \2))'),
    ('R-arr', r'\bGenericArray::<_, N>::from_array\(\[(' + NOBR + r'); (' + NOBR + r')\]\)', r'from_array::<N>(arr_repeat(\1, \2))'),
    ('R-arr', r'\bGenericArray::from_array\(\[(' + NOBR + r')\]\)', r'from_array::<N>(arr_lit([\1]))'),
    ('R-arr', r'\b__do_transmute::<_, N>\(\[(' + NOBR + r'); (\w+)\]\)', r'do_transmute::<N>(arr_repeat(\1, \2), \2)'),
    ('R-vec', r'\balloc::vec!\[(' + NOBR + r'); (' + NOBR + r')\]', r'vec_repeat(\1, \2)'),
    ('R-vec', r'\balloc::vec!\[(' + NOBR + r')\]', r'vec_lit([\1])'),
    ('R-call', r'\bGenericArray::__from_vec_helper\(', 'from_vec_helper::<N, _>('),
    ('R-call', r'\bGenericArray::<_, N>::try_from_vec\(', 'try_from_vec::<N>('),
    # the length type named through Const<LEN>: it is the N of this arm exactly when N::USIZE == LEN (obligation)
    ('R-call', r'\bGenericArray::<_, <typenum::Const<(\w+)> as IntoArrayLength>::ArrayLength>::try_from_vec\(',
     r'try_from_vec_checked::<N>(Ghost(\1), '),
    ('R-call', r'\b(?:GenericArray|Self)::try_from_vec\((\w+)\)\.unwrap_unchecked\(\)', r'unwrap_unchecked(try_from_vec::<N>(\1))'),
    ('R-call', r'(?<![\w:])(?:crate::)?const_transmute\((\w+)\)',
     r'match const_transmute(bits_of_arr(\1), N::usize_()) { PanicOr::Ret(__b) => PanicOr::Ret(ga_of_bits::<N>(__b)), PanicOr::Panic => PanicOr::Panic }'),
]
UNWRAP = ('R-panic', r'(try_from_vec(?:_checked)?::<N>\(.*\))\.unwrap\(\)', r'match \1 { Ok(__v) => PanicOr::Ret(__v), Err(_) => PanicOr::Panic }')

ALLOW = ('const_transmute(',)


def seq_id(k):
    return 'Seq::new(%s as nat, |i: int| i)' % k


def seq_const(k, v='0int'):
    return 'Seq::new(%s as nat, |i: int| %s)' % (k, v)


def generate(g, ex):
    from verus_engine import Fn
    import importlib.util, os
    here = os.path.dirname(os.path.abspath(__file__))

    def unit(n):
        spec = importlib.util.spec_from_file_location('vunit_dep_' + n, os.path.join(here, n + '.py'))
        mod = importlib.util.module_from_spec(spec)
        spec.loader.exec_module(mod)
        return mod

    tier = getattr(g, 'tier', 'quick')
    counts = list(range(0, 9)) if tier != 'thorough' else list(range(0, 17)) + [32, 64]
    g.raw('use vstd::prelude::*;\nverus! {\n')
    g.prelude('common.rs')
    g.prelude('ptr.rs')
    g.raw(open(os.path.join(here, '..', 'prelude', 'heap.rs')).read().replace('pub struct LengthError;\n', ''))   # LengthError: already in ptr.rs
    g.prelude('macros.rs')
    g.raw('\n// ===== extracted: the functions the macro arms call =====\n')
    views = unit('views')
    views.emit_const_transmute(g, ex, ['C20'], ['C20'], PROPS)
    unit('alloc').emit(g, ex, only=('try_from_boxed_slice', 'try_from_vec'), extra=('C20',))

    # ---- GenericArray::from_array (src/lib.rs) ----
    f = views.find_in_impls(g, ex, 'from_array')
    pm = re.search(r'\( ?(\w+): \[T; U\],? ?\)', f['sig'])
    if not pm or not re.search(r'where Const<U>: IntoArrayLength<ArrayLength = N>', f['sig']):
        raise ex.Unsupported('from_array: the signature / where-clause tying U to N changed: %s' % f['sig'])
    pa = pm.group(1)
    stats = {}
    body = ex.normalize(f['body'])
    n = ex.statements(body)
    body = ex.apply_rules(body, RULES, stats)
    ex.check_supported('from_array', body, allow=ALLOW)
    g.emit_fn(Fn('from_array', 'src/lib.rs', f['line'], f['sig'], 'pub fn from_array<N: ArrayLength>(%s: Arr) -> (ret: PanicOr<GA>)' % pa, body,
                 ['%s.len == N::n()  /* where Const<U>: IntoArrayLength<ArrayLength = N> */' % pa],
                 [('never-panics', ['C20'], 'ret is Ret'), ('same-elements-in-order', ['C20'], 'ret->Ret_0.elems == %s.elems' % pa)], stats, n, PROPS))

    # ---- GenericArray::__from_vec_helper (src/arr.rs, mod alloc_helper) ----
    text = g.src(FILE)
    m = re.search(r'mod alloc_helper\s*\{', text)
    if not m:
        raise ex.LostAnchor('mod alloc_helper not found in src/arr.rs')
    i = m.end() - 1
    block = text[i + 1:ex.match_brace(text, i)]
    f = ex.find_fn(block, '__from_vec_helper', i + 1, text)
    pm = re.search(r'\( ?(\w+): \[\(\); U\], (\w+): (?:alloc::vec::)?Vec<T>,? ?\)', f['sig'])
    if not pm or not re.search(r'Const<U>: IntoArrayLength<ArrayLength = N>', f['sig']):
        raise ex.Unsupported('__from_vec_helper: signature changed: %s' % f['sig'])
    pe, pv = pm.group(1), pm.group(2)
    stats = {}
    body = ex.normalize(f['body'])
    n = ex.statements(body)
    body = ex.apply_rules(body, RULES, stats)
    ex.check_supported('from_vec_helper', body, allow=ALLOW)
    g.emit_fn(Fn('from_vec_helper', FILE, f['line'], f['sig'], 'pub fn from_vec_helper<N: ArrayLength, const U: usize>(%s: [(); U], %s: VecT) -> (r: BoxArr)' % (pe, pv), body,
                 ['%s.wf()' % pv, '%s.len == U  /* the macro passes one () per element of the vec! */' % pv, 'U == N::n()  /* where Const<U>: IntoArrayLength<ArrayLength = N> */'],
                 [('same-elements-in-order', ['C20'], 'r.block.content == %s.block.content' % pv), ('n-elements', ['C20'], 'r.block.elems == N::n()')], stats, n, PROPS))
    # Const<LEN> names the length type of the arm: checked where the expansion uses it
    g.raw('    pub fn try_from_vec_checked<N: ArrayLength>(Ghost(len): Ghost<usize>, vec: VecT) -> (r: Result<BoxArr, LengthError>)\n'
          '        requires vec.wf(), N::n() == len,\n'
          '        ensures r is Ok <==> vec.len == N::n(), r is Ok ==> r->Ok_0.block.content == vec.block.content && r->Ok_0.block.elems == N::n(),\n'
          '    { try_from_vec::<N>(vec) }\n')

    # ---- the macro arms ----
    g.raw('\n// ===== transcribed: macro_rules! arr / box_arr / box_arr_helper (src/arr.rs) =====\n')
    arr = macro_arms(text, 'arr', ex)
    box = macro_arms(text, 'box_arr', ex)
    helper = macro_arms(text, 'box_arr_helper', ex)
    for nm, arms in (('arr', arr), ('box_arr', box)):
        if [a[0] for a in arms] != SHAPE:
            raise ex.Unsupported('macro %s: the arm patterns are not the three documented forms (in order): %r' % (nm, [a[0] for a in arms]))

    def arm_fn(name, mac, arm, exp, vsig, requires, ensures, hoist=None):
        stats = {}
        n = ex.statements(exp)
        body = exp
        if hoist:
            body = hoist(body, stats)
        body = ex.apply_rules(body, RULES, stats)
        body, c = re.subn(UNWRAP[1], UNWRAP[2], body)
        if c:
            stats['R-panic'] = stats.get('R-panic', 0) + c
        ex.check_supported(name, body, allow=ALLOW)
        if re.search(r'\bGenericArray\b|\btypenum\b|!\s*[\[(]', body):
            raise ex.Unsupported('%s: construct outside the rewrite table survives in the expansion: %s' % (name, body[:200]))
        g.emit_fn(Fn(name, FILE, arm[2], 'macro_rules! %s arm `(%s)`' % (mac, arm[0]), vsig, body, requires, ensures, stats, n, PROPS))

    EMPTY = 'old(log).order == Seq::<int>::empty()'
    # list forms: per element count k
    for k in counts:
        elems = ['ev(log, %d)' % i for i in range(k)]
        exp = transcribe(arr[0][1], {'x': elems}, {}, ex)
        arm_fn('arr_list_%d' % k, 'arr', arr[0], exp, 'pub fn arr_list_%d<N: ArrayLength>(log: &mut Log) -> (ret: PanicOr<GA>)' % k,
               ['N::n() == %d  /* the length inferred from Const<%d> */' % (k, k), EMPTY],
               [('never-panics', ['C20'], 'ret is Ret'),
                ('holds-e0-to-ek-in-order', ['C20'], 'ret is Ret ==> ret->Ret_0.elems =~= ' + seq_id(k)),
                ('each-expression-once-left-to-right', ['C20'], 'final(log).order =~= ' + seq_id(k))])
        exp = expand_helper(transcribe(box[0][1], {'x': elems}, {}, ex), helper, ex)
        arm_fn('box_list_%d' % k, 'box_arr', box[0], exp, 'pub fn box_list_%d<N: ArrayLength>(log: &mut Log) -> (r: BoxArr)' % k,
               ['N::n() == %d  /* the length inferred from Const<%d> */' % (k, k), EMPTY],
               [('holds-e0-to-ek-in-order', ['C20'], 'r.block.content =~= ' + seq_id(k)),
                ('n-elements', ['C20'], 'r.block.elems == N::n()'),
                ('each-expression-once-left-to-right', ['C20'], 'final(log).order =~= ' + seq_id(k))])

    ONCE = ('x-evaluated-once', ['C20'], 'final(log).order =~= seq![0int]')
    # arr![x; N] for ALL N: the local const fn is hoisted (rule R-nested), its array-typed parameter becomes a precondition
    def hoist(body, stats):
        m = re.search(r'const fn (\w+)<T, N: ArrayLength>\((\w+): \[T; (\w+)\]\) -> GenericArray<T, N> \{ (unsafe \{ .*? \}) \} ', body)
        if not m:
            return body
        stats['R-nested'] = 1
        fn_name, par, ln, inner = m.groups()
        inner = ex.apply_rules(inner, RULES, {})
        ex.check_supported('do_transmute', inner, allow=ALLOW)
        g.emit_fn(Fn('do_transmute', FILE, arr[1][2], 'local `const fn %s` of macro_rules! arr arm `(%s)`' % (fn_name, arr[1][0]),
                     'pub fn do_transmute<N: ArrayLength>(%s: Arr, %s: usize) -> (ret: PanicOr<GA>)' % (par, ln), inner,
                     ['%s.len == %s  /* parameter type [T; %s] */' % (par, ln, ln)],
                     [('panics-iff-lengths-differ', ['C20'], 'ret is Panic <==> %s != N::n()' % ln),
                      ('same-elements-in-order', ['C20'], 'ret is Ret ==> ret->Ret_0.elems == %s.elems' % par)], {'R-nested': 1}, ex.statements(inner), PROPS))
        rest = body[:m.start()] + body[m.end():]
        return re.sub(r'\b' + fn_name + r'::<_, N>\(', '__do_transmute::<_, N>(', rest)

    exp = transcribe(arr[1][1], {}, {'x': 'ev(log, 0)', 'N': 'N'}, ex)
    arm_fn('arr_repeat_ty', 'arr', arr[1], exp, 'pub fn arr_repeat_ty<N: ArrayLength>(log: &mut Log) -> (ret: PanicOr<GA>)', [EMPTY],
           [('never-panics-for-any-N', ['C20'], 'ret is Ret'), ('n-copies-of-x', ['C20'], 'ret is Ret ==> ret->Ret_0.elems =~= ' + seq_const('N::n()')), ONCE], hoist=hoist)
    exp = transcribe(arr[2][1], {}, {'x': 'ev(log, 0)', 'n': 'n'}, ex)
    arm_fn('arr_repeat_expr', 'arr', arr[2], exp, 'pub fn arr_repeat_expr<N: ArrayLength>(log: &mut Log, n: usize) -> (ret: PanicOr<GA>)',
           ['N::n() == n  /* the length inferred from Const<n> */', EMPTY],
           [('never-panics', ['C20'], 'ret is Ret'), ('n-copies-of-x', ['C20'], 'ret is Ret ==> ret->Ret_0.elems =~= ' + seq_const('n')), ONCE])
    exp = transcribe(box[1][1], {}, {'x': 'ev(log, 0)', 'N': 'N'}, ex)
    arm_fn('box_repeat_ty', 'box_arr', box[1], exp, 'pub fn box_repeat_ty<N: ArrayLength>(log: &mut Log) -> (ret: PanicOr<BoxArr>)', [EMPTY],
           [('never-panics-for-any-N', ['C20'], 'ret is Ret'), ('n-copies-of-x', ['C20'], 'ret is Ret ==> ret->Ret_0.block.content =~= ' + seq_const('N::n()')),
            ('n-elements', ['C20'], 'ret is Ret ==> ret->Ret_0.block.elems == N::n()'), ONCE])
    exp = transcribe(box[2][1], {}, {'x': 'ev(log, 0)', 'n': 'n'}, ex)
    arm_fn('box_repeat_expr', 'box_arr', box[2], exp, 'pub fn box_repeat_expr<N: ArrayLength>(log: &mut Log, n: usize) -> (ret: PanicOr<BoxArr>)',
           ['N::n() == n  /* the length type is <Const<n> as IntoArrayLength>::ArrayLength */', EMPTY],
           [('never-panics', ['C20'], 'ret is Ret'), ('n-copies-of-x', ['C20'], 'ret is Ret ==> ret->Ret_0.block.content =~= ' + seq_const('n')),
            ('n-elements', ['C20'], 'ret is Ret ==> ret->Ret_0.block.elems == N::n()'), ONCE])
    g.raw('proof fn canary() { assert(false); } /*OB:canary:*/')
    g.raw('} // verus!\nfn main() {}\n')


def props_for(fname, what):
    return PROPS

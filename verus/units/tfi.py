"""V unit `tfi`: IntrusiveArrayBuilder::{new, extend, is_full, finish, array_assume_init, drop} (src/internal.rs) and
GenericArray::try_from_iter (src/lib.rs) for ALL N and ALL sources (C07; the builder half of C03/C04).

The source iterator is an opaque object whose ghost state is the sequence of everything it has returned, plus an
arbitrary size hint: non-fused sources, every item count and lying hints are covered by quantification.  Rule R-guard:
the builder owns the slot block while it is alive (in the real code it holds `&mut array`); `finish()` hands the block
back.  Rule R-drop: an early `return` with the guard in scope runs its Drop; a bare MaybeUninit block leaving scope
must hold nothing live (it would leak).  Every `source.next()` is an unwind point."""
import re

NAME = 'tfi'
PROPS = ['C03', 'C04', 'C07', 'C08', 'C17']
DROPPED = ('the `&mut` indirection between builder and array (R-guard); core::iter::Zip (documented behaviour: polls the destination first '
           'and does not poll the source once the destination is exhausted); into_iter() of the argument')

IAB = "impl<'a, T, N: ArrayLength> IntrusiveArrayBuilder<'a, T, N>"
IABDROP = "impl<T, N: ArrayLength> Drop for IntrusiveArrayBuilder<'_, T, N>"
GA = 'impl<T, N: ArrayLength> GenericArray<T, N>'
INT = 'src/internal.rs'


def generate(g, ex):
    from verus_engine import Fn
    g.raw('use vstd::prelude::*;\nverus! {\n')
    g.prelude('common.rs')
    g.prelude('slots.rs')
    g.prelude('builder.rs')
    g.prelude('foreign.rs')
    g.raw('''
// ===== extracted: src/internal.rs IntrusiveArrayBuilder =====
// rule R-guard: `array: &'a mut GenericArray<MaybeUninit<T>, N>` becomes the owned slot block
pub struct IntrusiveArrayBuilder<T, N: ArrayLength> { pub array: Slots<T, N>, pub position: usize }

impl<T, N: ArrayLength> IntrusiveArrayBuilder<T, N> {
    // the guard's invariant: exactly the first `position` slots are initialised
    pub open spec fn wf(&self) -> bool {
        &&& self.position <= N::n()
        &&& self.array.ok()
        &&& forall|k: int| 0 <= k < N::n() ==> ((#[trigger] self.array.view()[k]).is_some() <==> k < self.position)
    }
    pub open spec fn built(&self) -> Seq<T> { Seq::new(self.position as nat, |k: int| self.array.view()[k].unwrap()) }
''')

    def carry(file, impl, name):
        f = g.extract_method(file, impl, name)
        body = ex.normalize(f['body'])
        return f, body, ex.statements(body)

    # ---- new ----
    f, body, n = carry(INT, IAB, 'new')
    ex.check_supported('new', body)
    g.emit_fn(Fn('new', INT, f['line'], f['sig'], 'pub fn new(array: Slots<T, N>) -> (r: Self)', body,
                 ['array.ok()', 'array.all_dead()'], [('wf', ['C03', 'C04', 'C07', 'C17'], 'r.wf() && r.position == 0')], {'R-guard': 1}, n, PROPS))
    # ---- extend ----
    f, body, n = carry(INT, IAB, 'extend')
    stats = {}
    m = re.match(r'let \(destination, position\) = \(self\.array\.iter_mut\(\), &mut self\.position\); '
                 r'destination\.zip\(source\)\.for_each\(\|\(dst, src\)\| \{ (.*) \}\);$', body)
    if not m:
        raise ex.Unsupported('extend: not of the form destination.zip(source).for_each(|(dst, src)| {..}) (rule R-iter)')
    inner = m.group(1)
    inner, k1 = re.subn(r'dst\.write\(src\);', 'self.array.put(__k, src);', inner)
    inner, k2 = re.subn(r'\*position \+= 1;', 'self.position += 1;', inner)
    if k1 != 1 or k2 != 1:
        raise ex.Unsupported('extend: closure body is not {dst.write(src); *position += 1;} in some order')
    stats.update({'R-iter': 1, 'R-write': 1, 'R-foreign': 1})
    body = ('let ghost r0 = source.returned(); let mut __k: usize = 0; loop invariant_except_break '
            'self.wf(), self.position == __k, __k <= N::n(), source.returned().len() == r0.len() + __k, source.returned().subrange(0, r0.len() as int) == r0, '
            'forall|j: int| 0 <= j < __k ==> (#[trigger] source.returned()[r0.len() + j]) == Some(self.built()[j]), '
            'invariant source.inv(), source.konst() == old(source).konst(), '
            'ensures self.wf(), source.returned().len() == r0.len() + self.position + (if self.position < N::n() { 1int } else { 0int }), '
            'source.returned().subrange(0, r0.len() as int) == r0, '
            'forall|j: int| 0 <= j < self.position ==> (#[trigger] source.returned()[r0.len() + j]) == Some(self.built()[j]), '
            'self.position < N::n() ==> source.returned().last().is_none(), decreases N::n() - __k, { '
            'if __k >= N::usize_() { break; } '   # Zip: destination exhausted -> the source is NOT polled
            'proof { assert(self.wf()) /*OB:extend.unwind@source.next:C04*/; } '
            'let ghost rb = source.returned(); let ghost bb = self.built(); '
            'let src = match source.next() { Some(s) => s, None => { proof { assert(source.returned().subrange(0, r0.len() as int) =~= r0); } break; } }; '
            + inner +
            ' __k += 1; proof { assert(source.returned().subrange(0, r0.len() as int) =~= r0); '
            'assert forall|j: int| 0 <= j < __k implies (#[trigger] source.returned()[r0.len() + j]) == Some(self.built()[j]) by { '
            'if j < __k - 1 { assert(self.built()[j] == bb[j]); assert(source.returned()[r0.len() + j] == rb[r0.len() + j]); } } } }')
    ex.check_supported('extend', body)
    g.emit_fn(Fn('extend', INT, f['line'], f['sig'], 'pub fn extend<I: ForeignIter<T>>(&mut self, source: &mut I)', body,
                 ['old(self).wf()', 'old(self).position == 0', '!polled_after_none(old(source).returned())', 'old(source).inv()'],
                 [('wf', ['C03', 'C04'], 'final(self).wf()'),
                  ('source-inv', ['C04', 'C07'], 'final(source).inv() && final(source).konst() == old(source).konst()'),
                  ('polls', ['C07'], 'final(source).returned().len() == old(source).returned().len() + final(self).position + (if final(self).position < N::n() { 1int } else { 0int })'),
                  ('prefix', ['C07'], 'final(source).returned().subrange(0, old(source).returned().len() as int) == old(source).returned()'),
                  ('in-order', ['C07'], 'forall|k: int| 0 <= k < final(self).position ==> (#[trigger] final(source).returned()[old(source).returned().len() + k]) == Some(final(self).built()[k])'),
                  ('stops-at-none', ['C07'], 'final(self).position < N::n() ==> final(source).returned().last().is_none()')],
                 stats, n, PROPS))
    # ---- is_full ----
    f, body, n = carry(INT, IAB, 'is_full')
    stats = {}
    body = ex.apply_rules(body, [('R-len', r'\bN::USIZE\b', 'N::usize_()')], stats)
    ex.check_supported('is_full', body)
    g.emit_fn(Fn('is_full', INT, f['line'], f['sig'], 'pub fn is_full(&self) -> (r: bool)', body, [],
                 [('full', ['C04', 'C07'], 'r == (self.position == N::n())')], stats, n, PROPS))
    # ---- finish ----
    f, body, n = carry(INT, IAB, 'finish')
    stats = {}
    body = ex.apply_rules(body, [
        ('R-panic', r'debug_assert!\(self\.is_full\(\)\);', 'assert(self.position == N::n()) /*OB:finish.debug-assertion-builder-is-full:C04*/;'),
        ('R-guard', r'mem::forget\(self\)$', 'self.array'),
    ], stats)
    ex.check_supported('finish', body)
    g.emit_fn(Fn('finish', INT, f['line'], f['sig'], 'pub fn finish(self) -> (r: Slots<T, N>)', body,
                 ['self.wf()', 'self.position == N::n()'], [('hands-back', ['C03', 'C04', 'C07', 'C17'], 'r == self.array')], stats, n, PROPS))
    # ---- drop ----
    f, body, n = carry(INT, IABDROP, 'drop')
    stats = {}
    body = ex.apply_rules(body, [
        ('R-misc', r'\bunsafe \{', '{'),
        ('R-dip', r'ptr::drop_in_place\( ?self\.array\.get_unchecked_mut\(\.\.self\.position\) as \*mut \[MaybeUninit<T>\] as \*mut \[T\],? ?\);', 'self.array.drop_range(0, self.position);'),
    ], stats)
    ex.check_supported('drop', body)
    g.emit_fn(Fn('drop_impl', INT, f['line'], f['sig'], 'pub fn drop_impl(&mut self)', body, ['old(self).wf()'],
                 [('releases-prefix', ['C03', 'C04', 'C07', 'C17'], 'final(self).array.ok() && final(self).array.all_dead()')], stats, n, PROPS))
    g.raw('}\n')
    # ---- array_assume_init ----
    f, body, n = carry(INT, IAB, 'array_assume_init')
    stats = {}
    body = ex.apply_rules(body, [('R-slots', r'ptr::read\(&array as \*const _ as \*const MaybeUninit<GenericArray<T, N>>\)\.assume_init\(\)', 'assume_init_read(array)')], stats)
    ex.check_supported('array_assume_init', body)
    g.emit_fn(Fn('array_assume_init', INT, f['line'], f['sig'], 'pub fn array_assume_init<T, N: ArrayLength>(array: Slots<T, N>) -> (r: GenericArray<T, N>)', body,
                 ['array.ok()', 'array.all_live()'], [('same', ['C04', 'C07', 'C17'], 'r.slots == array')], stats, n, PROPS))

    # ---- try_from_iter ----
    text = g.src('src/lib.rs')
    f = None
    for mm in re.finditer(r'impl<T, N: ArrayLength> GenericArray<T, N>\s*\{', text):
        i = mm.end() - 1
        j = ex.match_brace(text, i)
        block = text[i + 1:j]
        if re.search(r'\bfn\s+try_from_iter\b', block):
            f = ex.find_fn(block, 'try_from_iter', i + 1, text)
            break
    if f is None:
        raise ex.LostAnchor('try_from_iter not found')
    body = ex.normalize(f['body'])
    n = ex.statements(body)
    stats = {}
    body = ex.apply_rules(body, [
        ('R-foreign', r'^let mut iter = iter\.into_iter\(\); ', ''),
        ('R-len', r'\bN::USIZE\b', 'N::usize_()'),
        ('R-misc', r'\bunsafe \{', '{'),
        ('R-slots', r'let mut array = GenericArray::uninit\(\);', 'let array = Slots::uninit();'),
        ('R-guard', r'IntrusiveArrayBuilder::new\(&mut array\)', 'IntrusiveArrayBuilder::new(array)'),
        ('R-guard', r'builder\.extend\(&mut iter\);', 'builder.extend(iter);'),
        ('R-guard', r'builder\.finish\(\);', 'let array = builder.finish();'),
        ('R-slots', r'IntrusiveArrayBuilder::array_assume_init\(array\)', 'array_assume_init(array)'),
    ], stats)
    # scope analysis for R-drop / unwind obligations: before `finish` the builder guards the block, after it nobody does
    fin = body.find('let array = builder.finish();')
    if fin < 0:
        raise ex.Unsupported('try_from_iter: builder.finish() not found')

    def guard_at(pos):
        return 'builder' if pos < fin else None

    out, last = [], 0
    for mm in re.finditer(r'iter\.next\(\)|return Err\(LengthError\)', body):
        out.append(body[last:mm.start()])
        gd = guard_at(mm.start())
        started = body.find('IntrusiveArrayBuilder::new(array)') >= 0 and mm.start() > body.find('IntrusiveArrayBuilder::new(array)')
        if mm.group(0).startswith('iter.next'):
            ob = ('assert(builder.wf())' if gd else 'assert(array.all_dead())') if started else 'assert(true)'
            out.append('({ proof { %s /*OB:try_from_iter.unwind@iter.next:C04*/; } iter.next() })' % ob)
            stats['R-foreign'] = stats.get('R-foreign', 0) + 1
        else:
            if not started:
                out.append(mm.group(0))
            elif gd:
                out.append('{ builder.drop_impl(); return Err(LengthError) }')
                stats['R-drop'] = stats.get('R-drop', 0) + 1
            else:
                out.append('{ array.scope_exit_unowned() /*OB:try_from_iter.nothing-live-leaves-scope-unowned:C03,C04,C07*/; return Err(LengthError) }')
                stats['R-drop'] = stats.get('R-drop', 0) + 1
        last = mm.end()
    out.append(body[last:])
    body = ''.join(out)

    def hint(pat, rep, what):
        nonlocal body
        body, k = re.subn(pat, rep, body, count=1)
        if k != 1:
            raise ex.Unsupported('try_from_iter: anchor for proof hint lost: ' + what)
    hint(r'(builder\.extend\(iter\);)',
         r'\1 proof { assert forall|k: int| 0 <= k < builder.position implies (#[trigger] iter.returned()[k]).is_some() by { assert(iter.returned()[0 + k] == Some(builder.built()[k])); } } '
         r'let ghost r1 = iter.returned(); let ghost b1 = builder.built(); let ghost p1 = builder.position;', 'after extend')
    hint(r'(\{ builder\.drop_impl\(\); return Err\(LengthError\) \})',
         r'{ proof { if p1 < N::n() { assert(iter.returned()[p1 as int].is_none()); assert(iter.returned() == r1); } else { assert(iter.returned().len() == N::n() + 1); '
         r'assert forall|k: int| 0 <= k < N::n() implies (#[trigger] iter.returned()[k]).is_some() by { assert(iter.returned()[k] == r1[k]); } } } \1 }', 'error exit')
    hint(r'(array_assume_init\(array\))',
         r'({ proof { assert(array.all_live()); assert forall|k: int| 0 <= k < N::n() implies (#[trigger] iter.returned()[k]) == Some(array.view()[k].unwrap()) by { '
         r'assert(iter.returned()[k] == r1[k]); assert(r1[0 + k] == Some(b1[k])); } } \1 })', 'before assume_init')
    ex.check_supported('try_from_iter', body)
    g.emit_fn(Fn('try_from_iter', 'src/lib.rs', f['line'], f['sig'],
                 'pub fn try_from_iter<T, N: ArrayLength, I: ForeignIter<T>>(iter: &mut I) -> (ret: Result<GenericArray<T, N>, LengthError>)', body,
                 ['old(iter).returned().len() == 0', 'old(iter).inv()'],
                 [('source-inv', ['C04', 'C07'], 'final(iter).inv() && final(iter).konst() == old(iter).konst()'),
                  ('at-most-N+1-polls', ['C07'], 'final(iter).returned().len() <= N::n() + 1'),
                  ('never-polled-after-None', ['C07'], '!polled_after_none(final(iter).returned())'),
                  ('ok-means-exactly-N-in-order', ['C07', 'C04'], 'ret is Ok ==> final(iter).returned().len() == N::n() + 1 && final(iter).returned().last().is_none() '
                   '&& forall|k: int| 0 <= k < N::n() ==> (#[trigger] final(iter).returned()[k]) == Some(ret->Ok_0.elems()[k])'),
                  ('err-only-with-a-reason', ['C07'], 'ret is Err ==> ( old(iter).hint().0 > N::n() || (old(iter).hint().1 is Some && old(iter).hint().1->Some_0 < N::n()) '
                   '|| (exists|k: int| 0 <= k < final(iter).returned().len() && k < N::n() && (#[trigger] final(iter).returned()[k]).is_none()) '
                   '|| (final(iter).returned().len() == N::n() + 1 && final(iter).returned().last().is_some()) )')],
                 stats, n, PROPS))

    # ---- generate (stack and boxed): builder_iter.enumerate().for_each(|(i, dst)| { dst.write(f(i)); *position += 1; }) ----
    def generate_like(file, impl, vname):
        f = g.extract_method(file, impl, 'generate')
        stats = {}
        body = ex.normalize(f['body'])
        n = ex.statements(body)
        body = ex.apply_rules(body, [
            ('R-misc', r'\bunsafe \{', '{'),
            ('R-misc', r'use core::mem::MaybeUninit; ', ''),
            ('R-slots', r'let mut array = GenericArray::<T, N>::uninit\(\);', 'let array = Slots::uninit();'),
            ('R-box', r'let mut array: Box<GenericArray<MaybeUninit<T>, N>> = Box::<GenericArray<MaybeUninit<T>, N>>::new_uninit\(\)\.assume_init\(\);', 'let array = box_new_uninit();'),
            ('R-guard', r'IntrusiveArrayBuilder::new\(&mut \*?array\)', 'IntrusiveArrayBuilder::new(array)'),
            ('R-guard', r'builder\.finish\(\);', 'let ghost b1 = builder.built(); let array = builder.finish();'),
            ('R-slots', r'IntrusiveArrayBuilder::array_assume_init\(array\)', 'array_assume_init(array)'),
            ('R-box', r'Box::from_raw\(Box::into_raw\(array\)\.cast\(\)\)', 'box_assume_init(array)'),
        ], stats)
        # the slot iterator and the position counter, whatever they are called
        mp = re.search(r'let \((\w+), (\w+)\) = builder\.iter_position\(\); ', body)
        if not mp:
            raise ex.Unsupported('%s: `let (iter, position) = builder.iter_position();` not found (rule R-guard)' % vname)
        it, pos = mp.group(1), mp.group(2)
        body = body[:mp.start()] + body[mp.end():]
        stats['R-guard'] = stats.get('R-guard', 0) + 1
        # the fill loop in any of its three spellings (rule R-iter): one slot per index, in index order
        ml = (re.search(r'\b%s\.enumerate\(\)\.for_each\(\|\((\w+), (\w+)\)\| \{ (.*?) \}\);' % it, body)
              or re.search(r'\bfor \((\w+), (\w+)\) in %s\.enumerate\(\) \{ (.*?) \}(?= \} | \w|$)' % it, body))
        if ml:
            ivar, dvar, inner = ml.group(1), ml.group(2), ml.group(3)
        else:
            ml = re.search(r'\bfor (\w+) in %s \{ (.*?) \}(?= \} | \w|$)' % it, body)
            if not ml:
                raise ex.Unsupported('%s: builder_iter.enumerate().for_each(|(i, dst)| {..}) / for (i, dst) in builder_iter.enumerate() {..} / for dst in builder_iter {..} not found (rule R-iter)' % vname)
            ivar, dvar, inner = None, ml.group(1), ml.group(2)
        stmts = [x.strip() for x in inner.split(';') if x.strip()]
        out, k1, k2 = [], 0, 0
        for st in stmts:
            st = re.sub(r'\*%s\b' % pos, 'builder.position', st)
            if re.search(r'\bf\(', st):
                st = 'proof { assert(builder.wf()) /*OB:%s.unwind@f:C04*/; } ' % vname + re.sub(r'\bf\(', 'f.call(', st)
                k1 += 1
            m2 = re.match(r'^%s\.write\((.*)\)$' % dvar, st.split('} ')[-1]) if st.startswith('proof') else re.match(r'^%s\.write\((.*)\)$' % dvar, st)
            if m2:
                pre = st[:len(st) - len(st.split('} ')[-1])] if st.startswith('proof') else ''
                st = pre + 'let __v = ' + m2.group(1) + '; builder.array.put(__i, __v)'
                k2 += 1
            out.append(st + ';')
        inner = ' '.join(out)
        if k1 != 1 or k2 != 1 or 'builder.position += 1;' not in inner:
            raise ex.Unsupported('%s: loop body is not {[let v = f(i);] dst.write(..); *position += 1;} in some order' % vname)
        if ivar:
            inner = 'let %s = __i; ' % ivar + inner
        stats.update({'R-iter': 1, 'R-write': 1, 'R-foreign': 1})
        loop = ('let mut __i: usize = 0; while __i < N::usize_() invariant builder.wf(), builder.position == __i, __i <= N::n(), f.log().len() == __i, '
                'forall|j: int| 0 <= j < __i ==> (#[trigger] f.log()[j]).0 == j && f.log()[j].1 == builder.built()[j], decreases N::n() - __i, { '
                'let ghost lb = f.log(); let ghost bb = builder.built(); ' + inner +
                ' __i += 1; proof { assert forall|j: int| 0 <= j < __i implies (#[trigger] f.log()[j]).0 == j && f.log()[j].1 == builder.built()[j] by { '
                'if j < __i - 1 { assert(f.log()[j] == lb[j]); assert(builder.built()[j] == bb[j]); } } } }')
        body = body[:ml.start()] + loop + body[ml.end():]
        body, k = re.subn(r'((?:array_assume_init|box_assume_init)\(array\))', r'({ proof { assert(array.all_live()); assert forall|k: int| 0 <= k < N::n() implies array.view()[k].unwrap() == (#[trigger] f.log()[k]).1 by { assert(f.log()[k].1 == b1[k]); } } \1 })', body, count=1)
        if k != 1:
            raise ex.Unsupported('%s: final assume_init not found' % vname)
        ex.check_supported(vname, body)
        g.emit_fn(Fn(vname, file, f['line'], f['sig'], 'pub fn %s<T, N: ArrayLength, F: Foreign1<usize, T>>(f: &mut F) -> (ret: GenericArray<T, N>)' % vname, body,
                     ['old(f).log().len() == 0'],
                     [('n-calls', ['C08'], 'final(f).log().len() == N::n()'),
                      ('ascending-and-stored-at-index', ['C08'], 'forall|k: int| 0 <= k < N::n() ==> (#[trigger] final(f).log()[k]).0 == k && ret.elems()[k] == final(f).log()[k].1')],
                     stats, n, ['C03', 'C04', 'C08']))

    generate_like('src/lib.rs', 'unsafe impl<T, N: ArrayLength> GenericSequence<T> for GenericArray<T, N>', 'generate')
    generate_like('src/impl_alloc.rs', 'unsafe impl<T, N: ArrayLength> GenericSequence<T> for Box<GenericArray<T, N>>', 'generate_boxed')

    # =====================================================================================================
    # ArrayConsumer, FromIterator::from_iter, FunctionalSequence::{fold, map} for GenericArray (C08, C04, C03)
    # =====================================================================================================
    AC = 'impl<T, N: ArrayLength> ArrayConsumer<T, N>'
    ACDROP = 'impl<T, N: ArrayLength> Drop for ArrayConsumer<T, N>'
    g.raw(
        '// ===== extracted: src/internal.rs ArrayConsumer =====\n'
        '// rule R-slots: `array: ManuallyDrop<GenericArray<T, N>>` becomes the slot ledger\n'
        'pub struct ArrayConsumer<T, N: ArrayLength> { pub array: Slots<T, N>, pub position: usize }\n'
        'impl<T, N: ArrayLength> ArrayConsumer<T, N> {\n'
        '    // the guard\'s invariant: exactly the slots from `position` on are still owned\n'
        '    pub open spec fn wf(&self) -> bool {\n'
        '        &&& self.position <= N::n()\n'
        '        &&& self.array.ok()\n'
        '        &&& forall|k: int| 0 <= k < N::n() ==> ((#[trigger] self.array.view()[k]).is_some() <==> k >= self.position)\n'
        '    }\n')
    f, body, n = carry(INT, AC, 'new')
    stats = {}
    body = ex.apply_rules(body, [('R-slots', r'ManuallyDrop::new\(array\)', 'array.slots')], stats)
    ex.check_supported('consumer_new', body)
    g.emit_fn(Fn('consumer_new', INT, f['line'], f['sig'], 'pub fn new(array: GenericArray<T, N>) -> (r: Self)', body,
                 ['array.slots.ok()', 'array.slots.all_live()'], [('wf', ['C03', 'C04'], 'r.wf() && r.position == 0 && r.array == array.slots')], stats, n, PROPS))
    f, body, n = carry(INT, ACDROP, 'drop')
    stats = {}
    body = ex.apply_rules(body, [
        ('R-misc', r'\bunsafe \{', '{'),
        ('R-dip', r'ptr::drop_in_place\(self\.array\.get_unchecked_mut\(self\.position\.\.\)\);', 'self.array.drop_range(self.position, N::usize_());'),
    ], stats)
    ex.check_supported('consumer_drop', body)
    g.emit_fn(Fn('consumer_drop', INT, f['line'], f['sig'], 'pub fn drop_impl(&mut self)', body, ['old(self).wf()'],
                 [('releases-unconsumed', ['C03', 'C04'], 'final(self).array.ok() && final(self).array.all_dead()')], stats, n, PROPS))
    g.raw('}\n')

    # ---- FromIterator::from_iter ----
    f = g.extract_method('src/lib.rs', 'impl<T, N: ArrayLength> FromIterator<T> for GenericArray<T, N>', 'from_iter')
    body = ex.normalize(f['body'])
    n = ex.statements(body)
    stats = {}
    body = ex.apply_rules(body, [
        ('R-call', r'Self::try_from_iter\(iter\)', 'try_from_iter::<T, N, I>(iter)'),
        ('R-panic', r'Ok\(res\) => res,', 'Ok(res) => PanicOr::Ret(res),'),
        ('R-panic', r'Err\(_\) => from_iter_length_fail\(N::USIZE\),?', 'Err(_) => PanicOr::Panic,'),
    ], stats)
    ex.check_supported('from_iter', body)
    # syntactic part of C07: the panic message names the expected length
    fail = g.extract_free('src/lib.rs', 'from_iter_length_fail')
    if not re.search(r'panic!\("GenericArray::from_iter expected \{length\} items"\)', fail['body']):
        raise ex.Unsupported('from_iter_length_fail does not panic with the `expected {length} items` message (syntactic clause of C07)')
    g.emit_fn(Fn('from_iter', 'src/lib.rs', f['line'], f['sig'], 'pub fn from_iter<T, N: ArrayLength, I: ForeignIter<T>>(iter: &mut I) -> (ret: PanicOr<GenericArray<T, N>>)', body,
                 ['old(iter).returned().len() == 0', 'old(iter).inv()'],
                 [('source-inv', ['C04', 'C07'], 'final(iter).inv() && final(iter).konst() == old(iter).konst()'),
                  ('polls', ['C07'], 'final(iter).returned().len() <= N::n() + 1 && !polled_after_none(final(iter).returned())'),
                  ('returns-means-exactly-N-in-order', ['C07'], 'ret is Ret ==> final(iter).returned().len() == N::n() + 1 && final(iter).returned().last().is_none() '
                   '&& forall|k: int| 0 <= k < N::n() ==> (#[trigger] final(iter).returned()[k]) == Some(ret->Ret_0.elems()[k])'),
                  ('panics-only-with-a-reason', ['C07'], 'ret is Panic ==> ( old(iter).hint().0 > N::n() || (old(iter).hint().1 is Some && old(iter).hint().1->Some_0 < N::n()) '
                   '|| (exists|k: int| 0 <= k < final(iter).returned().len() && k < N::n() && (#[trigger] final(iter).returned()[k]).is_none()) '
                   '|| (final(iter).returned().len() == N::n() + 1 && final(iter).returned().last().is_some()) )')],
                 stats, n, ['C04', 'C07']))

    FS = 'impl<T, N: ArrayLength> FunctionalSequence<T> for GenericArray<T, N>'
    # ---- FunctionalSequence::fold ----
    f = g.extract_method('src/lib.rs', FS, 'fold')
    body = ex.normalize(f['body'])
    n = ex.statements(body)
    stats = {}
    body = ex.apply_rules(body, [
        ('R-misc', r'\bunsafe \{', '{'),
        ('R-mutself', r'ArrayConsumer::new\(self\)', 'ArrayConsumer::new(this)'),
        ('R-guard', r'let \(array_iter, position\) = source\.iter_position\(\); ', ''),
    ], stats)
    ml = re.search(r'array_iter\.fold\(init, \|acc, src\| \{ (.*?) f\(acc, value\) \}\)', body)
    if not ml:
        raise ex.Unsupported('fold: array_iter.fold(init, |acc, src| {..; f(acc, value)}) not found (rule R-iter)')
    inner = ml.group(1)
    inner, k1 = re.subn(r'ptr::read\(src\)', 'source.array.take(src)', inner)
    inner, k2 = re.subn(r'\*position \+= 1;', 'source.position += 1;', inner)
    if k1 != 1 or k2 != 1:
        raise ex.Unsupported('fold: closure body is not {let value = ptr::read(src); *position += 1; f(acc, value)}')
    stats.update({'R-iter': 1, 'R-read': 1, 'R-foreign': 1, 'R-drop': 1})
    loop = ('{ let mut acc = init; let mut __k: usize = 0; while __k < N::usize_() invariant source.wf(), source.position == __k, __k <= N::n(), '
            'forall|j: int| __k <= j < N::n() ==> (#[trigger] source.array.view()[j]) == Some(e0[j]), f.log().len() == __k, '
            'forall|j: int| 0 <= j < __k ==> (#[trigger] f.log()[j]).1 == e0[j], __k == 0 ==> acc == init, __k > 0 ==> f.log()[0].0 == init && acc == f.log().last().2, '
            'forall|j: int| 0 < j < __k ==> (#[trigger] f.log()[j]).0 == f.log()[j - 1].2, decreases N::n() - __k, { let src = __k; '
            + inner + ' proof { assert(source.wf()) /*OB:fold.unwind@closure:C04*/; assert(value == e0[__k as int]); } acc = f.call(acc, value); __k += 1; } '
            'let __ret = acc; source.drop_impl(); __ret }')
    body = 'let ghost e0 = this.elems(); ' + body[:ml.start()] + loop + body[ml.end():]
    ex.check_supported('fold', body)
    LOG = 'final(f).log()'
    g.emit_fn(Fn('fold', 'src/lib.rs', f['line'], f['sig'], 'pub fn fold<T, U, N: ArrayLength, F: Foreign2<U, T, U>>(this: GenericArray<T, N>, init: U, f: &mut F) -> (ret: U)', body,
                 ['this.slots.ok()', 'this.slots.all_live()', 'old(f).log().len() == 0'],
                 [('once-per-index', ['C08'], LOG + '.len() == N::n()'),
                  ('ascending', ['C08'], 'forall|k: int| 0 <= k < N::n() ==> (#[trigger] ' + LOG + '[k]).1 == this.elems()[k]'),
                  ('left-fold', ['C08'], '(N::n() == 0 ==> ret == init) && (N::n() > 0 ==> ' + LOG + '[0].0 == init && ret == ' + LOG + '.last().2) '
                   '&& forall|k: int| 0 < k < N::n() ==> (#[trigger] ' + LOG + '[k]).0 == ' + LOG + '[k - 1].2')],
                 stats, n, ['C03', 'C04', 'C08']))

    # ---- FunctionalSequence::map: closure conversion of the lazy pipeline handed to from_iter (rule R-pipe) ----
    f = g.extract_method('src/lib.rs', FS, 'map')
    body = ex.normalize(f['body'])
    n = ex.statements(body)
    stats = {}
    body = ex.apply_rules(body, [
        ('R-misc', r'\bunsafe \{', '{'),
        ('R-mutself', r'let mut source = ArrayConsumer::new\(self\);', 'let source = ArrayConsumer::new(this);'),
        ('R-guard', r'let \(array_iter, position\) = source\.iter_position\(\); ', ''),
    ], stats)
    ml = re.search(r'FromIterator::from_iter\(array_iter\.map\(\|src\| \{ (.*?) f\(value\) \}\)\)', body)
    if not ml:
        raise ex.Unsupported('map: FromIterator::from_iter(array_iter.map(|src| {..; f(value)})) not found (rule R-pipe)')
    inner = ml.group(1)
    inner, k1 = re.subn(r'ptr::read\(src\)', 'self.source.array.take(src)', inner)
    inner, k2 = re.subn(r'\*position \+= 1;', 'self.source.position += 1;', inner)
    if k1 != 1 or k2 != 1:
        raise ex.Unsupported('map: closure body is not {let value = ptr::read(src); *position += 1; f(value)}')
    stats.update({'R-pipe': 1, 'R-read': 1, 'R-foreign': 1, 'R-drop': 1})
    g.raw("""
// ===== closure conversion (rule R-pipe) of the pipeline in FunctionalSequence::map =====
//   fields = the captured variables (the consumer that iter_position() aliases, the closure), k = cursor of the slice
//   iterator; next() = slice::Iter::next followed by the closure body VERBATIM (modulo R-read and the alias substitution)
pub struct MapPipe<T, U, N: ArrayLength, F: Foreign1<T, U>> {
    pub source: ArrayConsumer<T, N>,
    pub k: usize,
    pub f: F,
    pub ret: Ghost<Seq<Option<U>>>,
    pub elems0: Ghost<Seq<T>>,
    pub _u: core::marker::PhantomData<U>,
}
impl<T, U, N: ArrayLength, F: Foreign1<T, U>> ForeignIter<U> for MapPipe<T, U, N, F> {
    type K = Seq<T>;
    open spec fn konst(&self) -> Seq<T> { self.elems0@ }
    open spec fn returned(&self) -> Seq<Option<U>> { self.ret@ }
    open spec fn hint(&self) -> (usize, Option<usize>) { ((N::n() - self.k) as usize, Some((N::n() - self.k) as usize)) }
    open spec fn inv(&self) -> bool {
        &&& self.source.wf() && self.k <= N::n() && self.elems0@.len() == N::n()
        &&& (self.k < N::n() ==> self.source.position == self.k)
        &&& (self.k == N::n() ==> self.source.position == N::n())
        &&& forall|j: int| self.source.position <= j < N::n() ==> (#[trigger] self.source.array.view()[j]) == Some(self.elems0@[j])
        &&& self.f.log().len() == self.source.position
        &&& forall|j: int| 0 <= j < self.source.position ==> (#[trigger] self.f.log()[j]).0 == self.elems0@[j]
        &&& self.ret@.len() >= self.source.position
        &&& forall|j: int| 0 <= j < self.source.position ==> (#[trigger] self.ret@[j]) == Some(self.f.log()[j].1)
        &&& forall|j: int| self.source.position <= j < self.ret@.len() ==> (#[trigger] self.ret@[j]).is_none()
        &&& (self.ret@.len() > self.source.position ==> self.k == N::n())
    }
    fn next(&mut self) -> (r: Option<U>)
    {
        if self.k >= N::usize_() {
            proof { self.ret = Ghost(self.ret@.push(None)); }
            return None;
        }
        let src = self.k;
        self.k += 1;
""")
    g.raw(ex.pretty(inner + ' proof { assert(self.source.wf()) /*OB:map.unwind@closure:C04*/; } let r = self.f.call(value); proof { self.ret = Ghost(self.ret@.push(Some(r))); } Some(r)'))
    g.raw("""    }
    fn size_hint(&self) -> (r: (usize, Option<usize>)) { (N::usize_() - self.k, Some(N::usize_() - self.k)) }
}
""")
    pipe = ('{ let mut pipe = MapPipe { source: source, k: 0, f: f, ret: Ghost(Seq::empty()), elems0: Ghost(e0), _u: core::marker::PhantomData }; '
            'proof { assert(pipe.inv()); } let r = from_iter::<U, N, MapPipe<T, U, N, F>>(&mut pipe); '
            'proof { assert(pipe.elems0@ == e0); assert(pipe.source.position == N::n()); '
            'assert forall|k: int| 0 <= k < N::n() implies (#[trigger] r->Ret_0.elems()[k]) == pipe.f.log()[k].1 by { '
            'assert(pipe.returned()[k] == Some(r->Ret_0.elems()[k])); assert(pipe.ret@[k] == Some(pipe.f.log()[k].1)); } } '
            'let MapPipe { source, k: _, f, ret: _, elems0: _, _u: _ } = pipe; let mut source = source; source.drop_impl(); (r, f) }')
    body = 'let ghost e0 = this.elems(); ' + body[:ml.start()] + pipe + body[ml.end():]
    ex.check_supported('map', body)
    g.fn_spans.append(('map', len(g.lines) - 40, len(g.lines), ['C03', 'C04', 'C08']))
    g.emit_fn(Fn('map', 'src/lib.rs', f['line'], f['sig'], 'pub fn map<T, U, N: ArrayLength, F: Foreign1<T, U>>(this: GenericArray<T, N>, f: F) -> (ret: (PanicOr<GenericArray<U, N>>, F))', body,
                 ['this.slots.ok()', 'this.slots.all_live()', 'f.log().len() == 0'],
                 [('never-the-length-panic', ['C08'], 'ret.0 is Ret'),
                  ('once-per-index', ['C08'], 'ret.1.log().len() == N::n()'),
                  ('ascending', ['C08'], 'forall|k: int| 0 <= k < N::n() ==> (#[trigger] ret.1.log()[k]).0 == this.elems()[k]'),
                  ('result-k-at-index-k', ['C08'], 'forall|k: int| 0 <= k < N::n() ==> (#[trigger] ret.0->Ret_0.elems()[k]) == ret.1.log()[k].1')],
                 stats, n, ['C03', 'C04', 'C08']))

    # ---- GenericArray::inverted_zip (both operands owned): two pipelines, selected by needs_drop (rule R-pipe) ----
    f = g.extract_method('src/lib.rs', 'unsafe impl<T, N: ArrayLength> GenericSequence<T> for GenericArray<T, N>', 'inverted_zip')
    body = ex.normalize(f['body'])
    n = ex.statements(body)
    stats = {}
    body = ex.apply_rules(body, [
        ('R-misc', r'\bunsafe \{', '{'),
        ('R-len', r'mem::needs_drop::<T>\(\)', 'nd_t'),
        ('R-len', r'mem::needs_drop::<B>\(\)', 'nd_b'),
        ('R-mutself', r'let mut right = ArrayConsumer::new\(self\);', 'let right = ArrayConsumer::new(this);'),
        ('R-mutself', r'let mut left = ArrayConsumer::new\(lhs\);', 'let left = ArrayConsumer::new(lhs);'),
        ('R-guard', r'let \(left_array_iter, left_position\) = left\.iter_position\(\); ', ''),
        ('R-guard', r'let \(right_array_iter, right_position\) = right\.iter_position\(\); ', ''),
        ('R-slots', r'let left = ManuallyDrop::new\(lhs\);', 'let left = lhs.slots;'),
        ('R-slots', r'let right = ManuallyDrop::new\(self\);', 'let right = this.slots;'),
    ], stats)
    m1 = re.search(r'FromIterator::from_iter\(left_array_iter\.zip\(right_array_iter\)\.map\(\|\(l, r\)\| \{ (.*?) f\(left_value, right_value\) \}\)\)', body)
    m2 = re.search(r'FromIterator::from_iter\(left\.iter\(\)\.zip\(right\.iter\(\)\)\.map\(\|\(l, r\)\| \{ f\(ptr::read\(l\), ptr::read\(r\)\) \}\)\)', body)
    if not m1 or not m2:
        raise ex.Unsupported('inverted_zip: the two from_iter(..zip..map(closure)) pipelines were not found in the expected form (rule R-pipe)')
    inner = m1.group(1)
    subs = [(r'ptr::read\(l\)', 'self.left.array.take(l)'), (r'ptr::read\(r\)', 'self.right.array.take(r)'),
            (r'\*left_position', 'self.left.position'), (r'\*right_position', 'self.right.position')]
    for pat, rep in subs:
        inner, k = re.subn(pat, rep, inner)
        if k < 1:
            raise ex.Unsupported('inverted_zip: closure body lacks %s' % pat)
    stats.update({'R-pipe': 2, 'R-read': 4, 'R-foreign': 2, 'R-drop': 2})
    INV_LOG = ('&&& self.f.log().len() == __P__ '
               '&&& forall|j: int| 0 <= j < __P__ ==> (#[trigger] self.f.log()[j]).0 == self.la0@[j] && self.f.log()[j].1 == self.ra0@[j] '
               '&&& self.ret@.len() >= __P__ '
               '&&& forall|j: int| 0 <= j < __P__ ==> (#[trigger] self.ret@[j]) == Some(self.f.log()[j].2) '
               '&&& forall|j: int| __P__ <= j < self.ret@.len() ==> (#[trigger] self.ret@[j]).is_none() '
               '&&& (self.ret@.len() > __P__ ==> self.k == N::n())')
    g.raw("""
// ===== closure conversion (rule R-pipe) of the two pipelines in GenericArray::inverted_zip =====
pub struct ZipPipe<B, T, U, N: ArrayLength, F: Foreign2<B, T, U>> {
    pub left: ArrayConsumer<B, N>, pub right: ArrayConsumer<T, N>, pub k: usize, pub f: F,
    pub ret: Ghost<Seq<Option<U>>>, pub la0: Ghost<Seq<B>>, pub ra0: Ghost<Seq<T>>, pub _u: core::marker::PhantomData<U>,
}
impl<B, T, U, N: ArrayLength, F: Foreign2<B, T, U>> ForeignIter<U> for ZipPipe<B, T, U, N, F> {
    type K = (Seq<B>, Seq<T>);
    open spec fn konst(&self) -> (Seq<B>, Seq<T>) { (self.la0@, self.ra0@) }
    open spec fn returned(&self) -> Seq<Option<U>> { self.ret@ }
    open spec fn hint(&self) -> (usize, Option<usize>) { ((N::n() - self.k) as usize, Some((N::n() - self.k) as usize)) }
    open spec fn inv(&self) -> bool {
        &&& self.left.wf() && self.right.wf() && self.k <= N::n() && self.la0@.len() == N::n() && self.ra0@.len() == N::n()
        &&& self.left.position == self.right.position
        &&& (self.k < N::n() ==> self.left.position == self.k)
        &&& (self.k == N::n() ==> self.left.position == N::n())
        &&& forall|j: int| self.left.position <= j < N::n() ==> (#[trigger] self.left.array.view()[j]) == Some(self.la0@[j])
        &&& forall|j: int| self.right.position <= j < N::n() ==> (#[trigger] self.right.array.view()[j]) == Some(self.ra0@[j])
        """ + INV_LOG.replace('__P__', 'self.left.position') + """
    }
    fn next(&mut self) -> (r: Option<U>)
    {
        // Zip of two slice iterators over N slots each
        if self.k >= N::usize_() {
            proof { self.ret = Ghost(self.ret@.push(None)); }
            return None;
        }
        let l = self.k;
        let r = self.k;
        self.k += 1;
""")
    g.raw(ex.pretty(inner + ' proof { assert(self.left.wf() && self.right.wf()) /*OB:inverted_zip.unwind@closure:C04*/; } let __r = self.f.call(left_value, right_value); '
                    'proof { self.ret = Ghost(self.ret@.push(Some(__r))); } Some(__r)'))
    g.raw("""    }
    fn size_hint(&self) -> (r: (usize, Option<usize>)) { (N::usize_() - self.k, Some(N::usize_() - self.k)) }
}
// the pipeline of the branch for element types WITHOUT drop glue: no guards; whatever is still in the two blocks when the
// closure panics is simply forgotten, which is fine only because neither element type has drop glue
pub struct PlainZipPipe<B, T, U, N: ArrayLength, F: Foreign2<B, T, U>> {
    pub left: Slots<B, N>, pub right: Slots<T, N>, pub k: usize, pub f: F, pub nd_b: bool, pub nd_t: bool,
    pub ret: Ghost<Seq<Option<U>>>, pub la0: Ghost<Seq<B>>, pub ra0: Ghost<Seq<T>>, pub _u: core::marker::PhantomData<U>,
}
impl<B, T, U, N: ArrayLength, F: Foreign2<B, T, U>> ForeignIter<U> for PlainZipPipe<B, T, U, N, F> {
    type K = (Seq<B>, Seq<T>);
    open spec fn konst(&self) -> (Seq<B>, Seq<T>) { (self.la0@, self.ra0@) }
    open spec fn returned(&self) -> Seq<Option<U>> { self.ret@ }
    open spec fn hint(&self) -> (usize, Option<usize>) { ((N::n() - self.k) as usize, Some((N::n() - self.k) as usize)) }
    open spec fn inv(&self) -> bool {
        &&& self.left.ok() && self.right.ok() && self.k <= N::n() && self.la0@.len() == N::n() && self.ra0@.len() == N::n()
        &&& !self.nd_b && !self.nd_t          // this pipeline is only built when neither element type has drop glue
        &&& forall|j: int| 0 <= j < N::n() ==> ((#[trigger] self.left.view()[j]).is_some() <==> j >= self.k)
        &&& forall|j: int| 0 <= j < N::n() ==> ((#[trigger] self.right.view()[j]).is_some() <==> j >= self.k)
        &&& forall|j: int| self.k <= j < N::n() ==> (#[trigger] self.left.view()[j]) == Some(self.la0@[j])
        &&& forall|j: int| self.k <= j < N::n() ==> (#[trigger] self.right.view()[j]) == Some(self.ra0@[j])
        """ + INV_LOG.replace('__P__', 'self.k') + """
    }
    fn next(&mut self) -> (r: Option<U>)
    {
        if self.k >= N::usize_() {
            proof { self.ret = Ghost(self.ret@.push(None)); }
            return None;
        }
        let l = self.k;
        let r = self.k;
        self.k += 1;
        // closure body: f(ptr::read(l), ptr::read(r))
        let __a = self.left.take(l);
        let __b = self.right.take(r);
        proof { assert((!self.nd_b || self.left.all_dead()) && (!self.nd_t || self.right.all_dead())) /*OB:inverted_zip.unwind@closure-unguarded-blocks-hold-nothing-that-needs-drop:C04*/; }
        let __r = self.f.call(__a, __b);
        proof { self.ret = Ghost(self.ret@.push(Some(__r))); }
        Some(__r)
    }
    fn size_hint(&self) -> (r: (usize, Option<usize>)) { (N::usize_() - self.k, Some(N::usize_() - self.k)) }
}
""")
    POST = ('proof { assert(pipe.la0@ == la0 && pipe.ra0@ == ra0); '
            'assert forall|k: int| 0 <= k < N::n() implies (#[trigger] r->Ret_0.elems()[k]) == pipe.f.log()[k].2 by { '
            'assert(pipe.returned()[k] == Some(r->Ret_0.elems()[k])); assert(pipe.ret@[k] == Some(pipe.f.log()[k].2)); } } ')
    pipe1 = ('{ let mut pipe = ZipPipe { left: left, right: right, k: 0, f: f, ret: Ghost(Seq::empty()), la0: Ghost(la0), ra0: Ghost(ra0), _u: core::marker::PhantomData }; '
             'proof { assert(pipe.inv()); } let r = from_iter::<U, N, ZipPipe<B, T, U, N, F>>(&mut pipe); ' + POST.replace('assert(pipe.la0@', 'assert(pipe.left.position == N::n()); assert(pipe.la0@') +
             'let ZipPipe { left, right, k: _, f, ret: _, la0: _, ra0: _, _u: _ } = pipe; let mut left = left; let mut right = right; right.drop_impl(); left.drop_impl(); (r, f) }')
    pipe2 = ('{ let mut pipe = PlainZipPipe { left: left, right: right, k: 0, f: f, nd_b: nd_b, nd_t: nd_t, ret: Ghost(Seq::empty()), la0: Ghost(la0), ra0: Ghost(ra0), _u: core::marker::PhantomData }; '
             'proof { assert(pipe.inv()); } let r = from_iter::<U, N, PlainZipPipe<B, T, U, N, F>>(&mut pipe); ' + POST.replace('assert(pipe.la0@', 'assert(pipe.k == N::n()); assert(pipe.la0@') +
             'let PlainZipPipe { left, right, k: _, f, nd_b: _, nd_t: _, ret: _, la0: _, ra0: _, _u: _ } = pipe; '
             'left.scope_exit_unowned() /*OB:inverted_zip.nothing-live-leaves-scope-unowned:C03*/; right.scope_exit_unowned() /*OB:inverted_zip.nothing-live-leaves-scope-unowned-right:C03*/; (r, f) }')
    m1 = re.search(r'FromIterator::from_iter\(left_array_iter\.zip\(right_array_iter\)\.map\(\|\(l, r\)\| \{ .*? f\(left_value, right_value\) \}\)\)', body)
    body = body[:m1.start()] + pipe1 + body[m1.end():]
    m2 = re.search(r'FromIterator::from_iter\(left\.iter\(\)\.zip\(right\.iter\(\)\)\.map\(\|\(l, r\)\| \{ f\(ptr::read\(l\), ptr::read\(r\)\) \}\)\)', body)
    body = body[:m2.start()] + pipe2 + body[m2.end():]
    body = 'let ghost la0 = lhs.elems(); let ghost ra0 = this.elems(); ' + body
    ex.check_supported('inverted_zip', body)
    g.emit_fn(Fn('inverted_zip', 'src/lib.rs', f['line'], f['sig'],
                 'pub fn inverted_zip<B, T, U, N: ArrayLength, F: Foreign2<B, T, U>>(this: GenericArray<T, N>, lhs: GenericArray<B, N>, f: F, nd_t: bool, nd_b: bool) -> (ret: (PanicOr<GenericArray<U, N>>, F))', body,
                 ['this.slots.ok()', 'this.slots.all_live()', 'lhs.slots.ok()', 'lhs.slots.all_live()', 'f.log().len() == 0'],
                 [('never-the-length-panic', ['C08'], 'ret.0 is Ret'),
                  ('once-per-index', ['C08'], 'ret.1.log().len() == N::n()'),
                  ('pairs-ascending', ['C08'], 'forall|k: int| 0 <= k < N::n() ==> (#[trigger] ret.1.log()[k]).0 == lhs.elems()[k] && ret.1.log()[k].1 == this.elems()[k]'),
                  ('result-k-at-index-k', ['C08'], 'forall|k: int| 0 <= k < N::n() ==> (#[trigger] ret.0->Ret_0.elems()[k]) == ret.1.log()[k].2')],
                 stats, n, ['C03', 'C04', 'C08']))

    # ---- FunctionalSequence::map for &S (trait default in src/functional.rs) and Clone for GenericArray (src/impls.rs) ----
    ftext = g.src('src/functional.rs')
    mt = re.search(r'pub trait FunctionalSequence<T>: GenericSequence<T>\s*\{', ftext)
    if not mt:
        raise ex.LostAnchor('trait FunctionalSequence not found')
    ti = mt.end() - 1
    tblock = ftext[ti + 1:ex.match_brace(ftext, ti)]
    g.default_not_overridden('FunctionalSequence', 'map', ('for GenericArray<T, N>',))
    f = ex.find_fn(tblock, 'map', ti + 1, ftext)
    body = ex.normalize(f['body'])
    n = ex.statements(body)
    if body != 'FromIterator::from_iter(self.into_iter().map(f))':
        raise ex.Unsupported('default FunctionalSequence::map is not `FromIterator::from_iter(self.into_iter().map(f))` (rule R-pipe)')
    g.raw("""
// ===== closure conversion (rule R-pipe) of `self.into_iter().map(f)` for a by-reference sequence (&GenericArray: slice::Iter) =====
pub struct RefMapPipe<'a, T, U, N: ArrayLength, F: Foreign1<&'a T, U>> {
    pub src: &'a Slots<T, N>, pub k: usize, pub f: F, pub ret: Ghost<Seq<Option<U>>>, pub _u: core::marker::PhantomData<U>,
}
impl<'a, T, U, N: ArrayLength, F: Foreign1<&'a T, U>> ForeignIter<U> for RefMapPipe<'a, T, U, N, F> {
    type K = Slots<T, N>;
    open spec fn konst(&self) -> Slots<T, N> { *self.src }
    open spec fn returned(&self) -> Seq<Option<U>> { self.ret@ }
    open spec fn hint(&self) -> (usize, Option<usize>) { ((N::n() - self.k) as usize, Some((N::n() - self.k) as usize)) }
    open spec fn inv(&self) -> bool {
        &&& self.src.ok() && self.src.all_live() && self.k <= N::n()
        &&& self.ret@.len() >= self.k
        &&& self.f.log().len() == self.k
        &&& forall|j: int| 0 <= j < self.k ==> *(#[trigger] self.f.log()[j]).0 == self.src.view()[j].unwrap()
        &&& forall|j: int| 0 <= j < self.k ==> (#[trigger] self.ret@[j]) == Some(self.f.log()[j].1)
        &&& forall|j: int| self.k <= j < self.ret@.len() ==> (#[trigger] self.ret@[j]).is_none()
        &&& (self.ret@.len() > self.k ==> self.k == N::n())
    }
    fn next(&mut self) -> (r: Option<U>)
    {
        // slice::Iter::next, then Map's closure call
        if self.k >= N::usize_() {
            proof { self.ret = Ghost(self.ret@.push(None)); }
            return None;
        }
        let x = self.src.peek(self.k);
        self.k += 1;
        let r = self.f.call(x);
        proof { self.ret = Ghost(self.ret@.push(Some(r))); }
        Some(r)
    }
    fn size_hint(&self) -> (r: (usize, Option<usize>)) { (N::usize_() - self.k, Some(N::usize_() - self.k)) }
}
""")
    rbody = ('let mut pipe = RefMapPipe { src: this, k: 0, f: f, ret: Ghost(Seq::empty()), _u: core::marker::PhantomData }; proof { assert(pipe.inv()); } '
             'let r = from_iter::<U, N, RefMapPipe<T, U, N, F>>(&mut pipe); '
             'proof { assert(pipe.k == N::n()); assert forall|k: int| 0 <= k < N::n() implies (#[trigger] r->Ret_0.elems()[k]) == pipe.f.log()[k].1 by { '
             'assert(pipe.returned()[k] == Some(r->Ret_0.elems()[k])); assert(pipe.ret@[k] == Some(pipe.f.log()[k].1)); } } '
             'let RefMapPipe { src: _, k: _, f, ret: _, _u: _ } = pipe; (r, f)')
    g.emit_fn(Fn('map_ref', 'src/functional.rs', f['line'], f['sig'],
                 "pub fn map_ref<'a, T, U, N: ArrayLength, F: Foreign1<&'a T, U>>(this: &'a Slots<T, N>, f: F) -> (ret: (PanicOr<GenericArray<U, N>>, F))", rbody,
                 ['this.ok()', 'this.all_live()', 'f.log().len() == 0'],
                 [('never-the-length-panic', ['C08'], 'ret.0 is Ret'),
                  ('once-per-index', ['C08'], 'ret.1.log().len() == N::n()'),
                  ('ascending', ['C08'], 'forall|k: int| 0 <= k < N::n() ==> *(#[trigger] ret.1.log()[k]).0 == this.view()[k].unwrap()'),
                  ('result-k-at-index-k', ['C08'], 'forall|k: int| 0 <= k < N::n() ==> (#[trigger] ret.0->Ret_0.elems()[k]) == ret.1.log()[k].1')],
                 {'R-pipe': 1, 'R-foreign': 1}, n, ['C04', 'C08']))
    # Clone for GenericArray: `self.map(Clone::clone)` - the by-reference map with Clone::clone as the function
    f = g.extract_method('src/impls.rs', 'impl<T: Clone, N: ArrayLength> Clone for GenericArray<T, N>', 'clone')
    body = ex.normalize(f['body'])
    if body != 'self.map(Clone::clone)':
        raise ex.Unsupported('Clone for GenericArray is not `self.map(Clone::clone)`')
    g.emit_fn(Fn('clone_array', 'src/impls.rs', f['line'], f['sig'],
                 "pub fn clone_array<'a, T, N: ArrayLength, F: Foreign1<&'a T, T>>(this: &'a Slots<T, N>, clone: F) -> (ret: (PanicOr<GenericArray<T, N>>, F))",
                 'map_ref::<T, T, N, F>(this, clone)',
                 ['this.ok()', 'this.all_live()', 'clone.log().len() == 0'],
                 [('clone-once-per-element-in-order', ['C08'], 'ret.0 is Ret && ret.1.log().len() == N::n() && forall|k: int| 0 <= k < N::n() ==> *(#[trigger] ret.1.log()[k]).0 == this.view()[k].unwrap()'),
                  ('clone-k-at-index-k', ['C08'], 'forall|k: int| 0 <= k < N::n() ==> (#[trigger] ret.0->Ret_0.elems()[k]) == ret.1.log()[k].1')],
                 {'R-call': 1}, 1, ['C04', 'C08']))
    # Default for GenericArray: `Self::generate(|_| T::default())`
    f = g.extract_method('src/impls.rs', 'impl<T: Default, N: ArrayLength> Default for GenericArray<T, N>', 'default')
    body = ex.normalize(f['body'])
    if body != 'Self::generate(|_| T::default())':
        raise ex.Unsupported('Default for GenericArray is not `Self::generate(|_| T::default())`')
    g.emit_fn(Fn('default_array', 'src/impls.rs', f['line'], f['sig'],
                 'pub fn default_array<T, N: ArrayLength, F: Foreign1<usize, T>>(default_: &mut F) -> (ret: GenericArray<T, N>)',
                 'generate::<T, N, F>(default_)', ['old(default_).log().len() == 0'],
                 [('default-once-per-element', ['C08'], 'final(default_).log().len() == N::n() && forall|k: int| 0 <= k < N::n() ==> ret.elems()[k] == (#[trigger] final(default_).log()[k]).1')],
                 {'R-call': 1}, 1, ['C04', 'C08']))

    # =====================================================================================================
    # the remaining zip paths: one operand (or both) is a by-reference sequence, iterated as slice::Iter (rule R-pipe)
    #   GenericArray::inverted_zip2   (self owned, lhs by reference; two needs_drop branches)      src/lib.rs
    #   GenericSequence::inverted_zip  (trait default: self by reference, lhs owned)                src/sequence.rs
    #   GenericSequence::inverted_zip2 (trait default: both by reference)                           src/sequence.rs
    # =====================================================================================================
    def gen_pipe(name, left_kind, right_kind, closure_body, ob_label, extra_inv=''):
        """left/right kind: 'cons' (ArrayConsumer), 'plain' (unguarded Slots being moved out of), 'ref' (&Slots).
        The closure receives the items of the zipped iterators as (l, r) = slot index k of each side."""
        tyl = {'cons': 'ArrayConsumer<A, N>', 'plain': 'Slots<A, N>', 'ref': "&'a Slots<A, N>"}[left_kind]
        tyr = {'cons': 'ArrayConsumer<B, N>', 'plain': 'Slots<B, N>', 'ref': "&'a Slots<B, N>"}[right_kind]
        fa = "&'a A" if left_kind == 'ref' else 'A'
        fb = "&'a B" if right_kind == 'ref' else 'B'
        lt = "'a, " if 'ref' in (left_kind, right_kind) else ''
        def side_inv(side, kind, e0):
            if kind == 'cons':
                return ('&&& self.%s.wf() &&& (self.k < N::n() ==> self.%s.position == self.k) &&& (self.k == N::n() ==> self.%s.position == N::n()) '
                        '&&& forall|j: int| self.%s.position <= j < N::n() ==> (#[trigger] self.%s.array.view()[j]) == Some(self.%s@[j]) ' % (side, side, side, side, side, e0))
            if kind == 'plain':
                return ('&&& self.%s.ok() &&& forall|j: int| 0 <= j < N::n() ==> ((#[trigger] self.%s.view()[j]).is_some() <==> j >= self.k) '
                        '&&& forall|j: int| self.k <= j < N::n() ==> (#[trigger] self.%s.view()[j]) == Some(self.%s@[j]) ' % (side, side, side, e0))
            return ('&&& self.%s.ok() && self.%s.all_live() &&& forall|j: int| 0 <= j < N::n() ==> (#[trigger] self.%s.view()[j]) == Some(self.%s@[j]) ' % (side, side, side, e0))
        def arg(kind, e0):
            return ('*(%s)' if kind == 'ref' else '%s')
        la = '*(#[trigger] self.f.log()[j]).0' if left_kind == 'ref' else '(#[trigger] self.f.log()[j]).0'
        ra = '*self.f.log()[j].1' if right_kind == 'ref' else 'self.f.log()[j].1'
        g.raw("""
pub struct %(name)s<%(lt)sA, B, U, N: ArrayLength, F: Foreign2<%(fa)s, %(fb)s, U>> {
    pub left: %(tyl)s, pub right: %(tyr)s, pub k: usize, pub f: F, pub nd_a: bool, pub nd_b: bool,
    pub ret: Ghost<Seq<Option<U>>>, pub la0: Ghost<Seq<A>>, pub ra0: Ghost<Seq<B>>, pub _u: core::marker::PhantomData<U>,
}
impl<%(lt)sA, B, U, N: ArrayLength, F: Foreign2<%(fa)s, %(fb)s, U>> ForeignIter<U> for %(name)s<%(lt)sA, B, U, N, F> {
    type K = (Seq<A>, Seq<B>);
    open spec fn konst(&self) -> (Seq<A>, Seq<B>) { (self.la0@, self.ra0@) }
    open spec fn returned(&self) -> Seq<Option<U>> { self.ret@ }
    open spec fn hint(&self) -> (usize, Option<usize>) { ((N::n() - self.k) as usize, Some((N::n() - self.k) as usize)) }
    open spec fn inv(&self) -> bool {
        &&& self.k <= N::n() && self.la0@.len() == N::n() && self.ra0@.len() == N::n()
        %(linv)s
        %(rinv)s
        %(extra)s
        &&& self.f.log().len() == self.k
        &&& forall|j: int| 0 <= j < self.k ==> %(la)s == self.la0@[j] && %(ra)s == self.ra0@[j]
        &&& self.ret@.len() >= self.k
        &&& forall|j: int| 0 <= j < self.k ==> (#[trigger] self.ret@[j]) == Some(self.f.log()[j].2)
        &&& forall|j: int| self.k <= j < self.ret@.len() ==> (#[trigger] self.ret@[j]).is_none()
        &&& (self.ret@.len() > self.k ==> self.k == N::n())
    }
    fn next(&mut self) -> (r: Option<U>)
    {
        // Zip of two iterators over N items each
        if self.k >= N::usize_() {
            proof { self.ret = Ghost(self.ret@.push(None)); }
            return None;
        }
        let l = self.k;
        let r = self.k;
        self.k += 1;
""" % dict(name=name, lt=lt, fa=fa, fb=fb, tyl=tyl, tyr=tyr, linv=side_inv('left', left_kind, 'la0'), rinv=side_inv('right', right_kind, 'ra0'),
           extra=extra_inv, la=la, ra=ra))
        g.raw(ex.pretty(closure_body))
        g.raw("""    }
    fn size_hint(&self) -> (r: (usize, Option<usize>)) { (N::usize_() - self.k, Some(N::usize_() - self.k)) }
}
""")

    def unwind(conds, label):
        return ' proof { assert(%s) /*OB:%s:C04*/; } ' % (conds, label)

    ZIP_ENS = [('never-the-length-panic', ['C08'], 'ret.0 is Ret'),
               ('once-per-index', ['C08'], 'ret.1.log().len() == N::n()'),
               ('result-k-at-index-k', ['C08'], 'forall|k: int| 0 <= k < N::n() ==> (#[trigger] ret.0->Ret_0.elems()[k]) == ret.1.log()[k].2')]
    POSTP = ('proof { assert(pipe.k == N::n()); assert(pipe.la0@ == la0 && pipe.ra0@ == ra0); '
             'assert forall|k: int| 0 <= k < N::n() implies (#[trigger] r->Ret_0.elems()[k]) == pipe.f.log()[k].2 by { '
             'assert(pipe.returned()[k] == Some(r->Ret_0.elems()[k])); assert(pipe.ret@[k] == Some(pipe.f.log()[k].2)); } } ')

    # ---- (1) GenericArray::inverted_zip2: self owned (right operand, element type T), lhs by reference (element type B) ----
    f = g.extract_method('src/lib.rs', 'unsafe impl<T, N: ArrayLength> GenericSequence<T> for GenericArray<T, N>', 'inverted_zip2')
    body = ex.normalize(f['body'])
    n = ex.statements(body)
    stats = {}
    body = ex.apply_rules(body, [
        ('R-misc', r'\bunsafe \{', '{'),
        ('R-len', r'mem::needs_drop::<T>\(\)', 'nd_t'),
        ('R-len', r'mem::needs_drop::<B>\(\)', 'nd_lhs'),     # the borrowed operand's element type: irrelevant to what must be guarded
        ('R-mutself', r'let mut right = ArrayConsumer::new\(self\);', 'let right = ArrayConsumer::new(this);'),
        ('R-guard', r'let \(right_array_iter, right_position\) = right\.iter_position\(\); ', ''),
        ('R-slots', r'let right = ManuallyDrop::new\(self\);', 'let right = this.slots;'),
    ], stats)
    m1 = re.search(r'FromIterator::from_iter\(right_array_iter\.zip\(lhs\)\.map\(\|\(r, left_value\)\| \{ (.*?) f\(left_value, right_value\) \}\)\)', body)
    m2 = re.search(r'FromIterator::from_iter\(right\.iter\(\)\.zip\(lhs\)\.map\(\|\(r, left_value\)\| \{ f\(left_value, ptr::read\(r\)\) \}\)\)', body)
    if not m1 or not m2:
        raise ex.Unsupported('inverted_zip2: pipelines not found in the expected form (rule R-pipe)')
    inner = m1.group(1)
    for pat, rep in [(r'ptr::read\(r\)', 'self.right.array.take(r)'), (r'\*right_position', 'self.right.position')]:
        inner, k = re.subn(pat, rep, inner)
        if k < 1:
            raise ex.Unsupported('inverted_zip2: closure body lacks %s' % pat)
    stats.update({'R-pipe': 2, 'R-read': 2, 'R-foreign': 2, 'R-drop': 1})
    # NB: in this function the by-reference operand is `lhs` (the LEFT argument of f) and the owned `self` is the right one
    gen_pipe('Zip2Pipe', 'ref', 'cons', 'let left_value = self.left.peek(l); ' + inner + unwind('self.right.wf()', 'inverted_zip2.unwind@closure') +
             'let __r = self.f.call(left_value, right_value); proof { self.ret = Ghost(self.ret@.push(Some(__r))); } Some(__r)', 'x')
    gen_pipe('Zip2PlainPipe', 'ref', 'plain', 'let left_value = self.left.peek(l); let __b = self.right.take(r);' +
             unwind('!self.nd_b || self.right.all_dead()', 'inverted_zip2.unwind@closure-unguarded-block-holds-nothing-that-needs-drop') +
             'let __r = self.f.call(left_value, __b); proof { self.ret = Ghost(self.ret@.push(Some(__r))); } Some(__r)', 'x', extra_inv='&&& !self.nd_b')
    pipe1 = ('{ let mut pipe = Zip2Pipe { left: lhs, right: right, k: 0, f: f, nd_a: false, nd_b: nd_t, ret: Ghost(Seq::empty()), la0: Ghost(la0), ra0: Ghost(ra0), _u: core::marker::PhantomData }; '
             'proof { assert(pipe.inv()); } let r = from_iter::<U, N, Zip2Pipe<B, T, U, N, F>>(&mut pipe); ' + POSTP.replace('assert(pipe.k == N::n());', 'assert(pipe.k == N::n()); assert(pipe.right.position == N::n());') +
             'let Zip2Pipe { left: _, right, k: _, f, nd_a: _, nd_b: _, ret: _, la0: _, ra0: _, _u: _ } = pipe; let mut right = right; right.drop_impl(); (r, f) }')
    pipe2 = ('{ let mut pipe = Zip2PlainPipe { left: lhs, right: right, k: 0, f: f, nd_a: false, nd_b: nd_t, ret: Ghost(Seq::empty()), la0: Ghost(la0), ra0: Ghost(ra0), _u: core::marker::PhantomData }; '
             'proof { assert(pipe.inv()); } let r = from_iter::<U, N, Zip2PlainPipe<B, T, U, N, F>>(&mut pipe); ' + POSTP +
             'let Zip2PlainPipe { left: _, right, k: _, f, nd_a: _, nd_b: _, ret: _, la0: _, ra0: _, _u: _ } = pipe; '
             'right.scope_exit_unowned() /*OB:inverted_zip2.nothing-live-leaves-scope-unowned:C03*/; (r, f) }')
    m1 = re.search(r'FromIterator::from_iter\(right_array_iter\.zip\(lhs\)\.map\(\|\(r, left_value\)\| \{ .*? f\(left_value, right_value\) \}\)\)', body)
    body = body[:m1.start()] + pipe1 + body[m1.end():]
    m2 = re.search(r'FromIterator::from_iter\(right\.iter\(\)\.zip\(lhs\)\.map\(\|\(r, left_value\)\| \{ f\(left_value, ptr::read\(r\)\) \}\)\)', body)
    body = body[:m2.start()] + pipe2 + body[m2.end():]
    body = 'let ghost la0 = Seq::new(N::n() as nat, |k: int| lhs.view()[k].unwrap()); let ghost ra0 = this.elems(); ' + body
    ex.check_supported('inverted_zip2', body)
    g.emit_fn(Fn('inverted_zip2', 'src/lib.rs', f['line'], f['sig'],
                 "pub fn inverted_zip2<'a, B, T, U, N: ArrayLength, F: Foreign2<&'a B, T, U>>(this: GenericArray<T, N>, lhs: &'a Slots<B, N>, f: F, nd_t: bool, nd_lhs: bool) -> (ret: (PanicOr<GenericArray<U, N>>, F))", body,
                 ['this.slots.ok()', 'this.slots.all_live()', 'lhs.ok()', 'lhs.all_live()', 'f.log().len() == 0'],
                 ZIP_ENS + [('pairs-ascending', ['C08'], 'forall|k: int| 0 <= k < N::n() ==> *(#[trigger] ret.1.log()[k]).0 == lhs.view()[k].unwrap() && ret.1.log()[k].1 == this.elems()[k]')],
                 stats, n, ['C03', 'C04', 'C08']))

    # ---- (2) trait default GenericSequence::inverted_zip: self by reference (right operand), lhs owned ----
    stext = g.src('src/sequence.rs')
    mt = re.search(r'pub unsafe trait GenericSequence<T>: Sized \+ IntoIterator\s*\{', stext)
    if not mt:
        raise ex.LostAnchor('trait GenericSequence not found')
    ti = mt.end() - 1
    tblock = stext[ti + 1:ex.match_brace(stext, ti)]
    g.default_not_overridden('GenericSequence', 'inverted_zip', ('for GenericArray<T, N>',))
    f = ex.find_fn(tblock, 'inverted_zip', ti + 1, stext)
    body = ex.normalize(f['body'])
    n = ex.statements(body)
    stats = {}
    body = ex.apply_rules(body, [
        ('R-misc', r'\bunsafe \{', '{'),
        ('R-mutself', r'let mut left = ArrayConsumer::new\(lhs\);', 'let left = ArrayConsumer::new(lhs);'),
        ('R-guard', r'let \(left_array_iter, left_position\) = left\.iter_position\(\); ', ''),
    ], stats)
    m1 = re.search(r'FromIterator::from_iter\(left_array_iter\.zip\(self\)\.map\(\|\(l, right_value\)\| \{ (.*?) f\(left_value, right_value\) \}\)\)', body)
    if not m1:
        raise ex.Unsupported('default inverted_zip: pipeline not found in the expected form (rule R-pipe)')
    inner = m1.group(1)
    for pat, rep in [(r'ptr::read\(l\)', 'self.left.array.take(l)'), (r'\*left_position', 'self.left.position')]:
        inner, k = re.subn(pat, rep, inner)
        if k < 1:
            raise ex.Unsupported('default inverted_zip: closure body lacks %s' % pat)
    stats.update({'R-pipe': 1, 'R-read': 1, 'R-foreign': 1, 'R-drop': 1})
    gen_pipe('ZipRefRightPipe', 'cons', 'ref', 'let right_value = self.right.peek(r); ' + inner + unwind('self.left.wf()', 'inverted_zip_default.unwind@closure') +
             'let __r = self.f.call(left_value, right_value); proof { self.ret = Ghost(self.ret@.push(Some(__r))); } Some(__r)', 'x')
    pipe = ('{ let mut pipe = ZipRefRightPipe { left: left, right: this, k: 0, f: f, nd_a: false, nd_b: false, ret: Ghost(Seq::empty()), la0: Ghost(la0), ra0: Ghost(ra0), _u: core::marker::PhantomData }; '
            'proof { assert(pipe.inv()); } let r = from_iter::<U, N, ZipRefRightPipe<B, T, U, N, F>>(&mut pipe); ' + POSTP.replace('assert(pipe.k == N::n());', 'assert(pipe.k == N::n()); assert(pipe.left.position == N::n());') +
            'let ZipRefRightPipe { left, right: _, k: _, f, nd_a: _, nd_b: _, ret: _, la0: _, ra0: _, _u: _ } = pipe; let mut left = left; left.drop_impl(); (r, f) }')
    body = body[:m1.start()] + pipe + body[m1.end():]
    body = 'let ghost la0 = lhs.elems(); let ghost ra0 = Seq::new(N::n() as nat, |k: int| this.view()[k].unwrap()); ' + body
    ex.check_supported('inverted_zip_default', body)
    g.emit_fn(Fn('inverted_zip_default', 'src/sequence.rs', f['line'], f['sig'],
                 "pub fn inverted_zip_default<'a, B, T, U, N: ArrayLength, F: Foreign2<B, &'a T, U>>(this: &'a Slots<T, N>, lhs: GenericArray<B, N>, f: F) -> (ret: (PanicOr<GenericArray<U, N>>, F))", body,
                 ['this.ok()', 'this.all_live()', 'lhs.slots.ok()', 'lhs.slots.all_live()', 'f.log().len() == 0'],
                 ZIP_ENS + [('pairs-ascending', ['C08'], 'forall|k: int| 0 <= k < N::n() ==> (#[trigger] ret.1.log()[k]).0 == lhs.elems()[k] && *ret.1.log()[k].1 == this.view()[k].unwrap()')],
                 stats, n, ['C03', 'C04', 'C08']))

    # ---- (3) trait default GenericSequence::inverted_zip2: both operands by reference ----
    g.default_not_overridden('GenericSequence', 'inverted_zip2', ('for GenericArray<T, N>',))
    f = ex.find_fn(tblock, 'inverted_zip2', ti + 1, stext)
    body = ex.normalize(f['body'])
    n = ex.statements(body)
    if body != 'FromIterator::from_iter(lhs.into_iter().zip(self).map(|(l, r)| f(l, r)))':
        raise ex.Unsupported('default inverted_zip2 is not `from_iter(lhs.into_iter().zip(self).map(|(l, r)| f(l, r)))` (rule R-pipe)')
    gen_pipe('ZipRefRefPipe', 'ref', 'ref', 'let __a = self.left.peek(l); let __b = self.right.peek(r); let __r = self.f.call(__a, __b); '
             'proof { self.ret = Ghost(self.ret@.push(Some(__r))); } Some(__r)', 'x')
    body = ('let ghost la0 = Seq::new(N::n() as nat, |k: int| lhs.view()[k].unwrap()); let ghost ra0 = Seq::new(N::n() as nat, |k: int| this.view()[k].unwrap()); '
            'let mut pipe = ZipRefRefPipe { left: lhs, right: this, k: 0, f: f, nd_a: false, nd_b: false, ret: Ghost(Seq::empty()), la0: Ghost(la0), ra0: Ghost(ra0), _u: core::marker::PhantomData }; '
            'proof { assert(pipe.inv()); } let r = from_iter::<U, N, ZipRefRefPipe<B, T, U, N, F>>(&mut pipe); ' + POSTP +
            'let ZipRefRefPipe { left: _, right: _, k: _, f, nd_a: _, nd_b: _, ret: _, la0: _, ra0: _, _u: _ } = pipe; (r, f)')
    g.emit_fn(Fn('inverted_zip2_default', 'src/sequence.rs', f['line'], f['sig'],
                 "pub fn inverted_zip2_default<'a, B, T, U, N: ArrayLength, F: Foreign2<&'a B, &'a T, U>>(this: &'a Slots<T, N>, lhs: &'a Slots<B, N>, f: F) -> (ret: (PanicOr<GenericArray<U, N>>, F))", body,
                 ['this.ok()', 'this.all_live()', 'lhs.ok()', 'lhs.all_live()', 'f.log().len() == 0'],
                 ZIP_ENS + [('pairs-ascending', ['C08'], 'forall|k: int| 0 <= k < N::n() ==> *(#[trigger] ret.1.log()[k]).0 == lhs.view()[k].unwrap() && *ret.1.log()[k].1 == this.view()[k].unwrap()')],
                 {'R-pipe': 1, 'R-foreign': 1}, n, ['C04', 'C08']))
    g.raw('proof fn canary() { assert(false); } /*OB:canary:*/')
    g.raw('} // verus!\nfn main() {}\n')


def props_for(fname, what):
    if what in ('put', 'drop_range', 'take', 'forget'):
        return ['C03', 'C04']
    return PROPS

"""V unit `seq`: Remove::{remove, swap_remove, remove_unchecked, swap_remove_unchecked} of src/sequence.rs (C09, C03) for
ALL N and ALL indices.  Output sequences are compared with vstd's Seq::remove (= Vec::remove) and with the defining
formula of Vec::swap_remove.  The index check precedes `ManuallyDrop::new(self)`, so on the panic path `self` is still an
ordinary owned value that unwinding drops once (rule R-drop / R-panic)."""
import re

NAME = 'seq'
PROPS = ['C03', 'C09']
DROPPED = 'panic message formatting; the byte-level memmove (elements move as whole values); trait dispatch'
FILE = 'src/sequence.rs'
IMPL = 'unsafe impl<T, N> Remove<T, N> for GenericArray<T, N>'
TRAIT = 'pub unsafe trait Remove<T, N: ArrayLength>: GenericSequence<T>'


def generate(g, ex):
    from verus_engine import Fn
    g.raw('use vstd::prelude::*;\nverus! {\n')
    g.prelude('common.rs')
    g.prelude('slots.rs')
    g.prelude('seqops.rs')
    g.raw('\n// ===== extracted: src/sequence.rs =====\n')
    text = g.src(FILE)

    def unchecked(name, ens):
        m = re.search(r'unsafe impl<T, N> Remove<T, N> for GenericArray<T, N>\s*where[^{]*\{', text)
        if not m:
            raise ex.LostAnchor('impl Remove for GenericArray not found')
        i = m.end() - 1
        block = text[i + 1:ex.match_brace(text, i)]
        f = ex.find_fn(block, name, i + 1, text)
        stats = {}
        body = ex.normalize(f['body'])
        n = ex.statements(body)
        body = ex.apply_rules(body, [
            ('R-read', r'ptr::read\(array\.as_ptr\(\)\.add\(([^()]+)\)\)', r'array.take(\1)'),
            ('R-len', r'\bN::USIZE\b', 'N::usize_()'),
            ('R-panic', r'core::hint::unreachable_unchecked\(\);', 'assert(false) /*OB:%s.unreachable-hint-is-unreachable:C09*/;' % name),
            ('R-slots', r'let mut array = ManuallyDrop::new\(self\);', 'let mut array = this;'),
            ('R-ptr', r'let dst = array\.as_mut_ptr\(\)\.add\(idx\);', 'let dst = idx; assert(idx <= N::n()) /*OB:%s.pointer-add-in-bounds:C09*/;' % name),
            ('R-read', r'ptr::read\(dst\)', 'array.take(dst)'),
            ('R-ptr', r'ptr::copy\(dst\.add\(1\), dst, ([^;]+)\);', r'array.shift_down(dst, \1);'),
            ('R-slots', r'mem::transmute_copy\(&array\)', 'array.read_prefix_as_array()'),
        ], stats)
        ex.check_supported(name, body, allow=('.swap(',))
        g.emit_fn(Fn(name, FILE, f['line'], f['sig'], 'pub fn %s<T, N: ArrayLength>(this: Slots<T, N>, idx: usize) -> (ret: (T, Seq<T>))' % name, body,
                     ['this.ok()', 'this.all_live()', 'idx < N::n()'], ens, stats, n, PROPS,
                     tail_proof=('proof { assert(__ret.1 =~= %s); }' % ('this.elems().remove(idx as int)' if name == 'remove_unchecked'
                                                                   else 'this.elems().update(idx as int, this.elems().last()).drop_last()'))))

    unchecked('remove_unchecked', [('removed', ['C09'], 'ret.0 == this.elems()[idx as int]'),
                                   ('rest-as-Vec-remove', ['C09', 'C03'], 'ret.1 == this.elems().remove(idx as int)')])
    unchecked('swap_remove_unchecked', [('removed', ['C09'], 'ret.0 == this.elems()[idx as int]'),
                                        ('rest-as-Vec-swap_remove', ['C09', 'C03'], 'ret.1 == this.elems().update(idx as int, this.elems().last()).drop_last()')])

    # the checked default methods of the trait
    mt = re.search(r'pub unsafe trait Remove<T, N: ArrayLength>: GenericSequence<T>\s*\{', text)
    if not mt:
        raise ex.LostAnchor('trait Remove not found')
    i = mt.end() - 1
    tblock = text[i + 1:ex.match_brace(text, i)]
    for name, callee in (('remove', 'remove_unchecked'), ('swap_remove', 'swap_remove_unchecked')):
        g.default_not_overridden('Remove', name)
        f = ex.find_fn(tblock, name, i + 1, text)
        stats = {}
        body = ex.normalize(f['body'])
        n = ex.statements(body)
        body = ex.apply_rules(body, [
            ('R-len', r'\bN::USIZE\b', 'N::usize_()'),
            ('R-misc', r'\bunsafe \{', '{'),
            # the panic happens while `self` is still an owned value: unwinding drops it (R-drop made explicit)
            ('R-panic', r'assert!\( ?([^,]+), "[^"]*", N::usize_\(\), idx,? ?\);', r'if !(\1) { this.drop_owned() /*OB:%s.on-panic-self-is-still-owned-and-dropped-once:C09,C03*/; return PanicOr::Panic; }' % name),
            ('R-call', r'self\.' + callee + r'\(idx\)', 'PanicOr::Ret(' + callee + '::<T, N>(this, idx))'),
        ], stats)
        ex.check_supported(name, body)
        g.emit_fn(Fn(name, FILE, f['line'], f['sig'], 'pub fn %s<T, N: ArrayLength>(this: Slots<T, N>, idx: usize) -> (ret: PanicOr<(T, Seq<T>)>)' % name, body,
                     ['this.ok()', 'this.all_live()'],
                     [('panics-iff-out-of-range', ['C09'], 'ret is Panic <==> idx >= N::n()'),
                      ('as-Vec', ['C09'], 'ret is Ret ==> ret->Ret_0.0 == this.elems()[idx as int] && ret->Ret_0.1 == ' +
                       ('this.elems().remove(idx as int)' if name == 'remove' else 'this.elems().update(idx as int, this.elems().last()).drop_last()'))],
                     stats, n, PROPS))

    # =====================================================================================================
    # append / prepend / pop_back / pop_front / split / concat: whole-array moves over typed cursors (rule R-ptr in
    # elements).  Type-level lengths are evaluated by name: Add1<N> -> N+1, Sub1<N> -> N-1, Diff<N,K> -> N-K, Sum<N,M> -> N+M
    # (typenum assumed to compute what its names say).  The targets of `as _` casts are taken from the declared result
    # types (rustc's inference is not reproduced): array-typed results are read / written as whole arrays, T-typed as one element.
    # =====================================================================================================
    def strided(impl_re, name, vsig, requires, ensures, rules, tail=None, extra_props=None):
        m = re.search(impl_re, text)
        if not m:
            raise ex.LostAnchor('impl for %s not found' % name)
        i = m.end() - 1
        block = text[i + 1:ex.match_brace(text, i)]
        f = ex.find_fn(block, name, i + 1, text)
        stats = {}
        body = ex.normalize(f['body'])
        n = ex.statements(body)
        body = ex.apply_rules(body, rules + [('R-misc', r'\bunsafe \{', '{')], stats)
        ex.check_supported(name, body, allow=('.add(', '.cast('))
        g.emit_fn(Fn(name, FILE, f['line'], f['sig'], vsig, body, requires, ensures, stats, n, PROPS, tail_proof=tail))

    LEN = ['this.len() == N::n()']
    W_SELF = ('R-write', r'ptr::write\((\w+), self\);', r'longer.write_array(\1, this);')
    strided(r'unsafe impl<T, N: ArrayLength> Lengthen<T> for GenericArray<T, N>\s*where[^{]*\{', 'append',
            'pub fn append<T, N: ArrayLength>(this: Seq<T>, last: T) -> (ret: Seq<T>)', LEN + ['N::n() < usize::MAX'],
            [('as-Vec-push', ['C09', 'C03'], 'ret == this.push(last)')],
            [('R-slots', r'let mut longer: MaybeUninit<Self::Longer> = MaybeUninit::uninit\(\);', 'let mut longer = OutBuf::uninit(N::usize_() + 1);'),
             ('R-ptr', r'longer\.as_mut_ptr\(\) as \*mut Self', 'longer.as_mut_ptr(N::usize_())'),
             W_SELF,
             ('R-write', r'ptr::write\(out_ptr\.add\(1\) as \*mut T, last\);', 'longer.write_elem(out_ptr.add(1).cast(1), last);')],
            tail='proof { assert(__ret =~= this.push(last)); }')
    strided(r'unsafe impl<T, N: ArrayLength> Lengthen<T> for GenericArray<T, N>\s*where[^{]*\{', 'prepend',
            'pub fn prepend<T, N: ArrayLength>(this: Seq<T>, first: T) -> (ret: Seq<T>)', LEN + ['N::n() < usize::MAX'],
            [('as-Vec-insert-0', ['C09', 'C03'], 'ret == seq![first] + this')],
            [('R-slots', r'let mut longer: MaybeUninit<Self::Longer> = MaybeUninit::uninit\(\);', 'let mut longer = OutBuf::uninit(N::usize_() + 1);'),
             ('R-ptr', r'longer\.as_mut_ptr\(\) as \*mut T', 'longer.as_mut_ptr(1)'),
             ('R-write', r'ptr::write\(out_ptr, first\);', 'longer.write_elem(out_ptr, first);'),
             ('R-write', r'ptr::write\(out_ptr\.add\(1\) as \*mut Self, self\);', 'longer.write_array(out_ptr.add(1).cast(N::usize_()), this);')],
            tail='proof { assert(__ret =~= seq![first] + this); }')
    SH = r'unsafe impl<T, N: ArrayLength> Shorten<T> for GenericArray<T, N>\s*where[^{]*\{'
    WHOLE = ('R-slots', r'let whole = ManuallyDrop::new\(self\);', 'let mut whole = Whole::new(this);')
    strided(SH, 'pop_back', 'pub fn pop_back<T, N: ArrayLength>(this: Seq<T>) -> (ret: (Seq<T>, T))', LEN + ['N::n() >= 1'],
            [('as-Vec-pop', ['C09', 'C03'], 'ret.0 == this.drop_last() && ret.1 == this.last()')],
            [WHOLE,
             ('R-read', r'let init = ptr::read\(whole\.as_ptr\(\) as _\);', 'let __c0 = whole.as_ptr(); let init = whole.read_array(__c0, N::usize_() - 1);'),
             ('R-read', r'let last = ptr::read\(whole\.as_ptr\(\)\.add\(Sub1::<N>::USIZE\) as _\);', 'let __c1 = whole.as_ptr().add(N::usize_() - 1); let last = whole.read_elem(__c1);'),
             ('R-drop', r'\(init, last\) \}$', 'whole.scope_exit() /*OB:pop_back.every-element-moved-to-exactly-one-output:C03*/; (init, last) }')],
            tail='proof { assert(__ret.0 =~= this.drop_last()); }')
    strided(SH, 'pop_front', 'pub fn pop_front<T, N: ArrayLength>(this: Seq<T>) -> (ret: (T, Seq<T>))', LEN + ['N::n() >= 1'],
            [('as-Vec-remove-0', ['C09', 'C03'], 'ret.0 == this.first() && ret.1 == this.drop_first()')],
            [WHOLE,
             ('R-read', r'let head = ptr::read\(whole\.as_ptr\(\) as _\);', 'let __c0 = whole.as_ptr(); let head = whole.read_elem(__c0);'),
             ('R-read', r'let tail = ptr::read\(whole\.as_ptr\(\)\.offset\(1\) as _\);', 'let __c1 = whole.as_ptr().add(1); let tail = whole.read_array(__c1, N::usize_() - 1);'),
             ('R-drop', r'\(head, tail\) \}$', 'whole.scope_exit() /*OB:pop_front.every-element-moved-to-exactly-one-output:C03*/; (head, tail) }')],
            tail='proof { assert(__ret.1 =~= this.drop_first()); }')
    strided(r'unsafe impl<T, N, K> Split<T, K> for GenericArray<T, N>\s*where[^{]*\{', 'split',
            'pub fn split<T, N: ArrayLength, K: ArrayLength>(this: Seq<T>) -> (ret: (Seq<T>, Seq<T>))', LEN + ['K::n() <= N::n()'],
            [('as-split_at-K', ['C09', 'C03'], 'ret.0 == this.subrange(0, K::n() as int) && ret.1 == this.subrange(K::n() as int, N::n() as int)')],
            [WHOLE,
             ('R-read', r'let head = ptr::read\(whole\.as_ptr\(\) as \*const _\);', 'let __c0 = whole.as_ptr(); let head = whole.read_array(__c0, K::usize_());'),
             ('R-read', r'let tail = ptr::read\(whole\.as_ptr\(\)\.add\(K::USIZE\) as \*const _\);', 'let __c1 = whole.as_ptr().add(K::usize_()); let tail = whole.read_array(__c1, N::usize_() - K::usize_());'),
             ('R-drop', r'\(head, tail\) \}$', 'whole.scope_exit() /*OB:split.every-element-moved-to-exactly-one-output:C03*/; (head, tail) }')],
            tail='proof { assert(__ret.0 =~= this.subrange(0, K::n() as int)); assert(__ret.1 =~= this.subrange(K::n() as int, N::n() as int)); }')
    strided(r'unsafe impl<T, N, M> Concat<T, M> for GenericArray<T, N>\s*where[^{]*\{', 'concat',
            'pub fn concat<T, N: ArrayLength, M: ArrayLength>(this: Seq<T>, rest: Seq<T>) -> (ret: Seq<T>)', LEN + ['rest.len() == M::n()', 'N::n() + M::n() <= usize::MAX'],
            [('as-Vec-extend', ['C09', 'C03'], 'ret == this + rest')],
            [('R-slots', r'let mut output: MaybeUninit<Self::Output> = MaybeUninit::uninit\(\);', 'let mut output = OutBuf::uninit(N::usize_() + M::usize_());'),
             ('R-ptr', r'output\.as_mut_ptr\(\) as \*mut Self', 'output.as_mut_ptr(N::usize_())'),
             ('R-write', r'ptr::write\(out_ptr, self\);', 'output.write_array(out_ptr, this);'),
             ('R-write', r'ptr::write\(out_ptr\.add\(1\) as \*mut _, rest\);', 'output.write_array(out_ptr.add(1).cast(M::usize_()), rest);')],
            tail='proof { assert(__ret =~= this + rest); }')
    g.raw('proof fn canary() { assert(false); } /*OB:canary:*/')
    g.raw('} // verus!\nfn main() {}\n')


def props_for(fname, what):
    return PROPS

"""V unit `seq`: Remove::{remove, swap_remove, remove_unchecked, swap_remove_unchecked} of src/sequence.rs (C09, C03) for
ALL N and ALL indices.  Output sequences are compared with vstd's Seq::remove (= Vec::remove) and with the defining
formula of Vec::swap_remove.  The index check precedes `ManuallyDrop::new(self)`, so on the panic path `self` is still an
ordinary owned value that unwinding drops once (rule R-drop / R-panic)."""
import re

NAME = 'seq'
PROPS = ['C03', 'C09']
DROPPED = 'panic message formatting; the byte-level memmove (elements move as whole values); trait dispatch'
FILE = 'src/sequence.rs'
IMPL = 'unsafe impl<T, N> Remove<T, N> for GenericArray<T, N>'
TRAIT = 'pub unsafe trait Remove<T, N: ArrayLength>: GenericSequence<T>'


def generate(g, ex):
    from verus_engine import Fn
    g.raw('use vstd::prelude::*;\nverus! {\n')
    g.prelude('common.rs')
    g.prelude('slots.rs')
    g.prelude('seqops.rs')
    g.raw('\n// ===== extracted: src/sequence.rs =====\n')
    text = g.src(FILE)

    def unchecked(name, ens):
        m = re.search(r'unsafe impl<T, N> Remove<T, N> for GenericArray<T, N>\s*where[^{]*\{', text)
        if not m:
            raise ex.LostAnchor('impl Remove for GenericArray not found')
        i = m.end() - 1
        block = text[i + 1:ex.match_brace(text, i)]
        f = ex.find_fn(block, name, i + 1, text)
        stats = {}
        body = ex.normalize(f['body'])
        n = ex.statements(body)
        body = ex.apply_rules(body, [
            ('R-read', r'ptr::read\(array\.as_ptr\(\)\.add\(([^()]+)\)\)', r'array.take(\1)'),
            ('R-len', r'\bN::USIZE\b', 'N::usize_()'),
            ('R-panic', r'core::hint::unreachable_unchecked\(\);', 'assert(false) /*OB:%s.unreachable-hint-is-unreachable:C09*/;' % name),
            ('R-slots', r'let mut array = ManuallyDrop::new\(self\);', 'let mut array = this;'),
            ('R-ptr', r'let dst = array\.as_mut_ptr\(\)\.add\(idx\);', 'let dst = idx; assert(idx <= N::n()) /*OB:%s.pointer-add-in-bounds:C09*/;' % name),
            ('R-read', r'ptr::read\(dst\)', 'array.take(dst)'),
            ('R-ptr', r'ptr::copy\(dst\.add\(1\), dst, ([^;]+)\);', r'array.shift_down(dst, \1);'),
            ('R-slots', r'mem::transmute_copy\(&array\)', 'array.read_prefix_as_array()'),
        ], stats)
        ex.check_supported(name, body, allow=('.swap(',))
        g.emit_fn(Fn(name, FILE, f['line'], f['sig'], 'pub fn %s<T, N: ArrayLength>(this: Slots<T, N>, idx: usize) -> (ret: (T, Seq<T>))' % name, body,
                     ['this.ok()', 'this.all_live()', 'idx < N::n()'], ens, stats, n, PROPS,
                     tail_proof=('proof { assert(__ret.1 =~= %s); }' % ('this.elems().remove(idx as int)' if name == 'remove_unchecked'
                                                                   else 'this.elems().update(idx as int, this.elems().last()).drop_last()'))))

    unchecked('remove_unchecked', [('removed', ['C09'], 'ret.0 == this.elems()[idx as int]'),
                                   ('rest-as-Vec-remove', ['C09', 'C03'], 'ret.1 == this.elems().remove(idx as int)')])
    unchecked('swap_remove_unchecked', [('removed', ['C09'], 'ret.0 == this.elems()[idx as int]'),
                                        ('rest-as-Vec-swap_remove', ['C09', 'C03'], 'ret.1 == this.elems().update(idx as int, this.elems().last()).drop_last()')])

    # the checked default methods of the trait
    mt = re.search(r'pub unsafe trait Remove<T, N: ArrayLength>: GenericSequence<T>\s*\{', text)
    if not mt:
        raise ex.LostAnchor('trait Remove not found')
    i = mt.end() - 1
    tblock = text[i + 1:ex.match_brace(text, i)]
    for name, callee in (('remove', 'remove_unchecked'), ('swap_remove', 'swap_remove_unchecked')):
        f = ex.find_fn(tblock, name, i + 1, text)
        stats = {}
        body = ex.normalize(f['body'])
        n = ex.statements(body)
        body = ex.apply_rules(body, [
            ('R-len', r'\bN::USIZE\b', 'N::usize_()'),
            ('R-misc', r'\bunsafe \{', '{'),
            # the panic happens while `self` is still an owned value: unwinding drops it (R-drop made explicit)
            ('R-panic', r'assert!\( ?([^,]+), "[^"]*", N::usize_\(\), idx,? ?\);', r'if !(\1) { this.drop_owned() /*OB:%s.on-panic-self-is-still-owned-and-dropped-once:C09,C03*/; return PanicOr::Panic; }' % name),
            ('R-call', r'self\.' + callee + r'\(idx\)', 'PanicOr::Ret(' + callee + '::<T, N>(this, idx))'),
        ], stats)
        ex.check_supported(name, body)
        g.emit_fn(Fn(name, FILE, f['line'], f['sig'], 'pub fn %s<T, N: ArrayLength>(this: Slots<T, N>, idx: usize) -> (ret: PanicOr<(T, Seq<T>)>)' % name, body,
                     ['this.ok()', 'this.all_live()'],
                     [('panics-iff-out-of-range', ['C09'], 'ret is Panic <==> idx >= N::n()'),
                      ('as-Vec', ['C09'], 'ret is Ret ==> ret->Ret_0.0 == this.elems()[idx as int] && ret->Ret_0.1 == ' +
                       ('this.elems().remove(idx as int)' if name == 'remove' else 'this.elems().update(idx as int, this.elems().last()).drop_last()'))],
                     stats, n, PROPS))
    g.raw('proof fn canary() { assert(false); } /*OB:canary:*/')
    g.raw('} // verus!\nfn main() {}\n')


def props_for(fname, what):
    return PROPS

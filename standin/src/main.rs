//! BOUNDED STAND-IN (labelled bounded, never counted as proved): Kani compiles with panic=abort, so no verifier here
//! can EXECUTE an unwinding path.  The deductive engines check the state a landing pad would see at every foreign call
//! site they know of (unwind obligations); this program complements them by really injecting a panic at every call
//! index of every closure / Clone / Iterator::next / element destructor, for N in 0..=4, natively, against the working
//! tree, and checking the ledger afterwards.  Output: one line per failing case, then `CASES <n> FAILED <m>`.
use generic_array::functional::FunctionalSequence;
use generic_array::sequence::*;
use generic_array::typenum::*;
use generic_array::{ArrayLength, GenericArray};
use std::alloc::{GlobalAlloc, Layout, System};
use std::cell::RefCell;
use std::panic::{catch_unwind, AssertUnwindSafe};
use std::sync::atomic::{AtomicIsize, AtomicUsize, Ordering};

/// Recording allocator (C16 on unwinding paths): live block count, zero-size requests, frees with a foreign layout.
struct Counting;
static LIVE_BLOCKS: AtomicIsize = AtomicIsize::new(0);
static ZERO_SIZE_REQUESTS: AtomicUsize = AtomicUsize::new(0);
unsafe impl GlobalAlloc for Counting {
    unsafe fn alloc(&self, l: Layout) -> *mut u8 {
        if l.size() == 0 {
            ZERO_SIZE_REQUESTS.fetch_add(1, Ordering::SeqCst);
        }
        LIVE_BLOCKS.fetch_add(1, Ordering::SeqCst);
        System.alloc(l)
    }
    unsafe fn dealloc(&self, p: *mut u8, l: Layout) {
        LIVE_BLOCKS.fetch_sub(1, Ordering::SeqCst);
        System.dealloc(p, l)
    }
}
#[global_allocator]
static GLOBAL: Counting = Counting;

thread_local! {
    /// per id: number of times dropped; CREATED ids are 0..next
    static DROPS: RefCell<Vec<u32>> = RefCell::new(Vec::new());
    static PANIC_ON_DROP: RefCell<Option<usize>> = RefCell::new(None);
    static PANIC_ON_CLONE: RefCell<Option<usize>> = RefCell::new(None);
    static CLONES: RefCell<usize> = RefCell::new(0);
    static USE_AFTER_DROP: RefCell<bool> = RefCell::new(false);
    /// a `P` whose id no `mk()` handed out was dropped (a slot that was never written)
    static FOREIGN_DROP: RefCell<bool> = RefCell::new(false);
    /// message of an `assert!` that failed inside a case (recorded by the panic hook)
    static ASSERTED: RefCell<Option<String>> = RefCell::new(None);
}

struct P(usize);
fn mk() -> P {
    DROPS.with(|d| {
        let mut d = d.borrow_mut();
        d.push(0);
        P(d.len() - 1)
    })
}
impl P {
    fn touch(&self) {
        if DROPS.with(|d| d.borrow()[self.0]) != 0 {
            USE_AFTER_DROP.with(|u| *u.borrow_mut() = true);
        }
    }
}
impl Drop for P {
    fn drop(&mut self) {
        let known = DROPS.with(|d| {
            let mut d = d.borrow_mut();
            if self.0 < d.len() { d[self.0] += 1; true } else { false }
        });
        if !known {
            FOREIGN_DROP.with(|u| *u.borrow_mut() = true);
            return;
        }
        let p = PANIC_ON_DROP.with(|p| *p.borrow());
        if p == Some(self.0) {
            PANIC_ON_DROP.with(|p| *p.borrow_mut() = None);
            panic!("injected destructor panic");
        }
    }
}
impl Clone for P {
    fn clone(&self) -> P {
        self.touch();
        let n = CLONES.with(|c| {
            *c.borrow_mut() += 1;
            *c.borrow() - 1
        });
        if PANIC_ON_CLONE.with(|p| *p.borrow()) == Some(n) {
            panic!("injected clone panic");
        }
        mk()
    }
}
fn reset() {
    DROPS.with(|d| d.borrow_mut().clear());
    PANIC_ON_DROP.with(|p| *p.borrow_mut() = None);
    PANIC_ON_CLONE.with(|p| *p.borrow_mut() = None);
    CLONES.with(|c| *c.borrow_mut() = 0);
    USE_AFTER_DROP.with(|u| *u.borrow_mut() = false);
    FOREIGN_DROP.with(|u| *u.borrow_mut() = false);
}
/// exactly_once: every created element dropped exactly once; otherwise at most once (leaks allowed: C05)
fn verdict(exactly_once: bool) -> Option<String> {
    let d = DROPS.with(|d| d.borrow().clone());
    if FOREIGN_DROP.with(|u| *u.borrow()) {
        return Some(format!("a value that no expression produced was dropped (uninitialised slot); drops={:?}", d));
    }
    if USE_AFTER_DROP.with(|u| *u.borrow()) {
        return Some(format!("element observed after it was dropped; drops={:?}", d));
    }
    if d.iter().any(|&c| c > 1) {
        return Some(format!("double drop; drops={:?}", d));
    }
    if exactly_once && d.iter().any(|&c| c == 0) {
        return Some(format!("element lost (never dropped); drops={:?}", d));
    }
    None
}

/// the case about to run, for the driver: if the process dies (signal) the last marker names the failing input
fn mark(prop: &str, name: &str, n: usize, k: usize) {
    if let Ok(p) = std::env::var("STANDIN_MARK") {
        let _ = std::fs::write(p, format!("property={} op={} N={} k={}", prop, name, n, k));
    }
}
fn wanted(prop: &str) -> bool {
    match std::env::var("STANDIN_ONLY") { Ok(v) => v.split(',').any(|x| x == prop), Err(_) => true }
}

struct Report {
    cases: usize,
    failed: usize,
}
impl Report {
    fn case(&mut self, prop: &str, name: &str, n: usize, k: usize, exactly_once: bool, f: impl FnOnce()) {
        mark(prop, name, n, k);
        reset();
        DROPS.with(|d| d.borrow_mut().reserve(64)); // so that the ledger itself does not allocate inside the case
        let live0 = LIVE_BLOCKS.load(Ordering::SeqCst);
        let zero0 = ZERO_SIZE_REQUESTS.load(Ordering::SeqCst);
        let r = catch_unwind(AssertUnwindSafe(f));
        drop(r);
        self.cases += 1;
        let live1 = LIVE_BLOCKS.load(Ordering::SeqCst);
        if live1 != live0 {
            self.failed += 1;
            println!("FAIL property=C16 op={} N={} k={} : {} heap block(s) still allocated after every value is gone", name, n, k, live1 - live0);
        }
        if ZERO_SIZE_REQUESTS.load(Ordering::SeqCst) != zero0 {
            self.failed += 1;
            println!("FAIL property=C16 op={} N={} k={} : the allocator saw a zero-size request", name, n, k);
        }
        if let Some(why) = verdict(exactly_once) {
            self.failed += 1;
            println!("FAIL property={} op={} N={} k={} : {}", prop, name, n, k, why);
        }
    }
}

fn arr<N: ArrayLength>() -> GenericArray<P, N> {
    GenericArray::generate(|_| mk())
}

fn closure_panics<N: ArrayLength>(rep: &mut Report)
where
    GenericArray<P, N>: Clone,
{
    let n = N::USIZE;
    for k in 0..=n {
        // a panic at call index k of the closure (k == n: no panic at all)
        let boom = move |c: &mut usize| {
            if *c == k {
                panic!("injected closure panic");
            }
            *c += 1;
        };
        rep.case("C04", "generate", n, k, true, || {
            let mut c = 0;
            let _a: GenericArray<P, N> = GenericArray::generate(|_| { boom(&mut c); mk() });
        });
        rep.case("C04", "boxed generate", n, k, true, || {
            let mut c = 0;
            let _a: Box<GenericArray<P, N>> = Box::<GenericArray<P, N>>::generate(|_| { boom(&mut c); mk() });
        });
        rep.case("C04", "map(owned)", n, k, true, || {
            let mut c = 0;
            let _o: GenericArray<P, N> = arr::<N>().map(|x| { x.touch(); boom(&mut c); x });
        });
        rep.case("C04", "map(&)", n, k, true, || {
            let a = arr::<N>();
            let mut c = 0;
            let _o: GenericArray<P, N> = (&a).map(|x| { x.touch(); boom(&mut c); mk() });
        });
        rep.case("C04", "map(&mut)", n, k, true, || {
            let mut a = arr::<N>();
            let mut c = 0;
            let _o: GenericArray<P, N> = (&mut a).map(|x| { x.touch(); boom(&mut c); mk() });
        });
        rep.case("C04", "map(Box)", n, k, true, || {
            let a: Box<GenericArray<P, N>> = Box::new(arr::<N>());
            let mut c = 0;
            let _o: Box<GenericArray<P, N>> = a.map(|x| { x.touch(); boom(&mut c); x });
        });
        rep.case("C04", "fold(owned)", n, k, true, || {
            let mut c = 0;
            let _ = arr::<N>().fold(0usize, |acc, x| { x.touch(); boom(&mut c); acc + 1 });
        });
        rep.case("C04", "fold(&)", n, k, true, || {
            let a = arr::<N>();
            let mut c = 0;
            let _ = (&a).fold(0usize, |acc, x| { x.touch(); boom(&mut c); acc + 1 });
        });
        rep.case("C04", "into_iter().fold", n, k, true, || {
            let mut c = 0;
            let _ = arr::<N>().into_iter().fold(0usize, |acc, x| { x.touch(); boom(&mut c); acc + 1 });
        });
        rep.case("C04", "into_iter().rfold", n, k, true, || {
            let mut c = 0;
            let _ = arr::<N>().into_iter().rfold(0usize, |acc, x| { x.touch(); boom(&mut c); acc + 1 });
        });
        // iterator fold / rfold from every partially consumed state (front f, back b taken first), and from a clone of it
        for f in 0..=2usize {
            for b in 0..=2usize {
                if f + b > n || (f == 0 && b == 0) { continue; }
                rep.case("C04", &format!("into_iter() -{}front -{}back .fold", f, b), n, k, true, || {
                    let mut c = 0;
                    let mut it = arr::<N>().into_iter();
                    for _ in 0..f { drop(it.next()); }
                    for _ in 0..b { drop(it.next_back()); }
                    let _ = it.fold(0usize, |acc, x| { x.touch(); boom(&mut c); acc + 1 });
                });
                rep.case("C04", &format!("into_iter() -{}front -{}back .rfold", f, b), n, k, true, || {
                    let mut c = 0;
                    let mut it = arr::<N>().into_iter();
                    for _ in 0..f { drop(it.next()); }
                    for _ in 0..b { drop(it.next_back()); }
                    let _ = it.rfold(0usize, |acc, x| { x.touch(); boom(&mut c); acc + 1 });
                });
            }
        }
        // zip: nine stack forms + boxed, droppable x droppable and droppable x plain
        macro_rules! zipcase { ($nm:expr, |$a:ident, $b:ident, $c:ident| $e:expr) => {
            rep.case("C04", $nm, n, k, true, || { let mut $a = arr::<N>(); let mut $b = arr::<N>(); let mut $c = 0; let _o: GenericArray<P, N> = $e; });
        } }
        zipcase!("zip(own,own)", |a, b, c| a.zip(b, |x, y| { x.touch(); y.touch(); boom(&mut c); drop(y); x }));
        zipcase!("zip(own,&)", |a, b, c| a.zip(&b, |x, y| { x.touch(); y.touch(); boom(&mut c); x }));
        zipcase!("zip(own,&mut)", |a, b, c| a.zip(&mut b, |x, y| { x.touch(); y.touch(); boom(&mut c); x }));
        zipcase!("zip(&,own)", |a, b, c| (&a).zip(b, |x, y| { x.touch(); y.touch(); boom(&mut c); y }));
        zipcase!("zip(&,&)", |a, b, c| (&a).zip(&b, |x, y| { x.touch(); y.touch(); boom(&mut c); mk() }));
        zipcase!("zip(&,&mut)", |a, b, c| (&a).zip(&mut b, |x, y| { x.touch(); y.touch(); boom(&mut c); mk() }));
        zipcase!("zip(&mut,own)", |a, b, c| (&mut a).zip(b, |x, y| { x.touch(); y.touch(); boom(&mut c); y }));
        zipcase!("zip(&mut,&)", |a, b, c| (&mut a).zip(&b, |x, y| { x.touch(); y.touch(); boom(&mut c); mk() }));
        zipcase!("zip(&mut,&mut)", |a, b, c| (&mut a).zip(&mut b, |x, y| { x.touch(); y.touch(); boom(&mut c); mk() }));
        rep.case("C04", "zip(own P, own u32)", n, k, true, || {
            let a = arr::<N>();
            let b: GenericArray<u32, N> = GenericArray::generate(|i| i as u32);
            let mut c = 0;
            let _o: GenericArray<P, N> = a.zip(b, |x, _y| { x.touch(); boom(&mut c); x });
        });
        rep.case("C04", "zip(own u32, own P)", n, k, true, || {
            let a: GenericArray<u32, N> = GenericArray::generate(|i| i as u32);
            let b = arr::<N>();
            let mut c = 0;
            let _o: GenericArray<P, N> = a.zip(b, |_x, y| { y.touch(); boom(&mut c); y });
        });
        // one operand borrowed and plain, the other owned and droppable (only the owned side's drop glue matters)
        rep.case("C04", "zip(& u32, own P)", n, k, true, || {
            let a: GenericArray<u32, N> = GenericArray::generate(|i| i as u32);
            let b = arr::<N>();
            let mut c = 0;
            let _o: GenericArray<P, N> = (&a).zip(b, |_x, y| { y.touch(); boom(&mut c); y });
        });
        rep.case("C04", "zip(&mut u32, own P)", n, k, true, || {
            let mut a: GenericArray<u32, N> = GenericArray::generate(|i| i as u32);
            let b = arr::<N>();
            let mut c = 0;
            let _o: GenericArray<P, N> = (&mut a).zip(b, |_x, y| { y.touch(); boom(&mut c); y });
        });
        rep.case("C04", "zip(own P, & u32)", n, k, true, || {
            let a = arr::<N>();
            let b: GenericArray<u32, N> = GenericArray::generate(|i| i as u32);
            let mut c = 0;
            let _o: GenericArray<P, N> = a.zip(&b, |x, _y| { x.touch(); boom(&mut c); x });
        });
        rep.case("C04", "zip(own P, &mut u32)", n, k, true, || {
            let a = arr::<N>();
            let mut b: GenericArray<u32, N> = GenericArray::generate(|i| i as u32);
            let mut c = 0;
            let _o: GenericArray<P, N> = a.zip(&mut b, |x, _y| { x.touch(); boom(&mut c); x });
        });
        rep.case("C04", "zip(Box,Box)", n, k, true, || {
            let a: Box<GenericArray<P, N>> = Box::new(arr::<N>());
            let b: Box<GenericArray<P, N>> = Box::new(arr::<N>());
            let mut c = 0;
            let _o: Box<GenericArray<P, N>> = a.zip(b, |x, y| { x.touch(); y.touch(); boom(&mut c); drop(y); x });
        });
        // a source iterator that panics at poll k (k == n + 1 polls happen for a source of exactly n items)
        for extra in 0..2usize {
            rep.case("C04", if extra == 0 { "from_iter(exact source)" } else { "try_from_iter(source one too long)" }, n, k, true, || {
                let mut c = 0;
                let mut left = n + extra;
                let src = std::iter::from_fn(|| { boom(&mut c); if left == 0 { None } else { left -= 1; Some(mk()) } });
                let _ = GenericArray::<P, N>::try_from_iter(src);
            });
            rep.case("C04", if extra == 0 { "try_boxed_from_iter(exact source)" } else { "try_boxed_from_iter(source one too long)" }, n, k, true, || {
                let mut c = 0;
                let mut left = n + extra;
                let src = std::iter::from_fn(|| { boom(&mut c); if left == 0 { None } else { left -= 1; Some(mk()) } });
                let _ = GenericArray::<P, N>::try_boxed_from_iter(src);
            });
        }
        // Clone::clone panics at call k
        rep.case("C04", "GenericArray::clone", n, k, true, || {
            let a = arr::<N>();
            PANIC_ON_CLONE.with(|p| *p.borrow_mut() = if k < n { Some(k) } else { None });
            let _c = a.clone();
        });
        for (f, b) in [(0usize, 0usize), (1, 0), (0, 1), (1, 1)] {
            if f + b > n { continue; }
            rep.case("C04", "GenericArrayIter::clone", n, k, true, || {
                let mut it = arr::<N>().into_iter();
                for _ in 0..f { it.next(); }
                for _ in 0..b { it.next_back(); }
                PANIC_ON_CLONE.with(|p| *p.borrow_mut() = if k < n { Some(k) } else { None });
                let _c = it.clone();
            });
        }
    }
}

fn destructor_panics<N: ArrayLength>(rep: &mut Report) {
    let n = N::USIZE;
    for victim in 0..n {
        // ids: the array under test is created first, so element i has id i
        for f in 0..=n {
            for b in 0..=(n - f) {
                for skip in [0usize, 1, 2, n, usize::MAX] {
                    for op in 0..5u8 {
                        if op >= 2 && skip != 0 { continue; }
                        let name = ["nth", "nth_back", "count", "last", "drop"][op as usize];
                        rep.case("C05", name, n, victim, false, || {
                            let mut it = arr::<N>().into_iter();
                            for _ in 0..f { std::mem::forget(it.next()); DROPS.with(|d| d.borrow_mut()[0] += 0); }
                            for _ in 0..b { std::mem::forget(it.next_back()); }
                            PANIC_ON_DROP.with(|p| *p.borrow_mut() = Some(victim));
                            let r = catch_unwind(AssertUnwindSafe(|| match op {
                                0 => { let x = it.nth(skip); (Some(it), x) }
                                1 => { let x = it.nth_back(skip); (Some(it), x) }
                                2 => { let _ = it.count(); (None, None) }
                                3 => { let x = it.last(); (None, x) }
                                _ => { drop(it); (None, None) }
                            }));
                            // whatever survived is torn down afterwards; nothing may be released twice
                            PANIC_ON_DROP.with(|p| *p.borrow_mut() = None);
                            drop(r);
                        });
                    }
                }
            }
        }
        // an intermediate value of an operation being torn down: array dropped, map over owned array whose closure drops
        rep.case("C05", "drop(array)", n, victim, false, || {
            let a = arr::<N>();
            PANIC_ON_DROP.with(|p| *p.borrow_mut() = Some(victim));
            drop(a);
        });
        rep.case("C05", "map(owned) dropping inputs", n, victim, false, || {
            let a = arr::<N>();
            PANIC_ON_DROP.with(|p| *p.borrow_mut() = Some(victim));
            let _o: GenericArray<u8, N> = a.map(|x| { drop(x); 0u8 });
        });
        rep.case("C05", "fold(owned) dropping inputs", n, victim, false, || {
            let a = arr::<N>();
            PANIC_ON_DROP.with(|p| *p.borrow_mut() = Some(victim));
            let _ = a.fold(0usize, |acc, x| { drop(x); acc + 1 });
        });
        rep.case("C05", "zip(own,own) dropping inputs", n, victim, false, || {
            let (a, b) = (arr::<N>(), arr::<N>());
            PANIC_ON_DROP.with(|p| *p.borrow_mut() = Some(victim));
            let _o: GenericArray<u8, N> = a.zip(b, |x, y| { drop(x); drop(y); 0u8 });
        });
        rep.case("C05", "zip(own,&) dropping inputs", n, victim, false, || {
            let (a, b) = (arr::<N>(), arr::<N>());
            PANIC_ON_DROP.with(|p| *p.borrow_mut() = Some(victim));
            let _o: GenericArray<u8, N> = a.zip(&b, |x, _y| { drop(x); 0u8 });
        });
        rep.case("C05", "zip(&,own) dropping inputs", n, victim, false, || {
            let (a, b) = (arr::<N>(), arr::<N>());
            PANIC_ON_DROP.with(|p| *p.borrow_mut() = Some(n + victim));
            let _o: GenericArray<u8, N> = (&a).zip(b, |_x, y| { drop(y); 0u8 });
        });
        rep.case("C05", "into_iter().fold dropping inputs", n, victim, false, || {
            let a = arr::<N>();
            PANIC_ON_DROP.with(|p| *p.borrow_mut() = Some(victim));
            let _ = a.into_iter().fold(0usize, |acc, x| { drop(x); acc + 1 });
        });
        rep.case("C05", "map(Box) dropping inputs", n, victim, false, || {
            let a: Box<GenericArray<P, N>> = Box::new(arr::<N>());
            PANIC_ON_DROP.with(|p| *p.borrow_mut() = Some(victim));
            let _o: Box<GenericArray<u8, N>> = a.map(|x| { drop(x); 0u8 });
        });
        rep.case("C05", "try_from_iter(too short) builder torn down", n, victim, false, || {
            let mut left = n.saturating_sub(1).max(victim + 1).min(n.saturating_sub(1));
            let src = std::iter::from_fn(|| { if left == 0 { None } else { left -= 1; Some(mk()) } });
            PANIC_ON_DROP.with(|p| *p.borrow_mut() = Some(victim));
            let _ = GenericArray::<P, N>::try_from_iter(src);
        });
    }
}

fn index_panics<N, M>(rep: &mut Report)
where
    N: ArrayLength + core::ops::Sub<B1, Output = M>,
    M: ArrayLength,
    GenericArray<P, N>: Remove<P, N, Output = GenericArray<P, M>>,
{
    let n = N::USIZE;
    for idx in [n, n + 1, usize::MAX] {
        rep.case("C09", "remove(idx >= N)", n, idx, true, || { let _ = arr::<N>().remove(idx); });
        rep.case("C09", "swap_remove(idx >= N)", n, idx, true, || { let _ = arr::<N>().swap_remove(idx); });
    }
    for idx in 0..n {
        rep.case("C09", "remove(idx < N)", n, idx, true, || { let (x, o) = arr::<N>().remove(idx); x.touch(); for e in o.iter() { e.touch(); } });
        rep.case("C09", "swap_remove(idx < N)", n, idx, true, || { let (x, o) = arr::<N>().swap_remove(idx); x.touch(); for e in o.iter() { e.touch(); } });
    }
}


/// C20 (bounded stand-in): a panic inside the k-th element expression of the list forms (an unwinding path), and the repeat
/// forms with a Clone-but-not-Copy element.  Ledger: every value an expression produced is dropped exactly once, nothing else is.
fn el(c: &mut usize, k: usize) -> P {
    if *c == k {
        panic!("injected element-expression panic");
    }
    *c += 1;
    mk()
}
fn macro_cases(rep: &mut Report) {
    use generic_array::{arr, box_arr};
    for k in 0..=4usize {
        rep.case("C20", "arr![e0]", 1, k, true, || { let mut c = 0; let _a = arr![el(&mut c, k)]; });
        rep.case("C20", "arr![e0,e1,e2]", 3, k, true, || { let mut c = 0; let _a = arr![el(&mut c, k), el(&mut c, k), el(&mut c, k)]; });
        rep.case("C20", "arr![e0,e1,e2,e3,]", 4, k, true, || { let mut c = 0; let _a = arr![el(&mut c, k), el(&mut c, k), el(&mut c, k), el(&mut c, k),]; });
        rep.case("C20", "box_arr![e0]", 1, k, true, || { let mut c = 0; let _a = box_arr![el(&mut c, k)]; });
        rep.case("C20", "box_arr![e0,e1,e2]", 3, k, true, || { let mut c = 0; let _a = box_arr![el(&mut c, k), el(&mut c, k), el(&mut c, k)]; });
        rep.case("C20", "box_arr![e0,e1,e2,e3,]", 4, k, true, || { let mut c = 0; let _a = box_arr![el(&mut c, k), el(&mut c, k), el(&mut c, k), el(&mut c, k),]; });
    }
    // repeat forms, element Clone but not Copy: N distinct live values (x moved or cloned, never bit-copied), x evaluated once;
    // k = index of the clone that panics (k >= N - 1: none)
    macro_rules! rep_case { ($nm:expr, $n:expr, $e:expr) => {
        for k in 0..=$n {
            rep.case("C20", $nm, $n, k, true, || {
                PANIC_ON_CLONE.with(|p| *p.borrow_mut() = Some(k));
                let mut evals = 0usize;
                let b = $e(&mut evals);
                assert!(evals == 1, "C20: x evaluated {} times", evals);
                let mut ids: Vec<usize> = b.iter().map(|p: &P| { p.touch(); p.0 }).collect();
                ids.sort();
                ids.dedup();
                assert!(ids.len() == $n, "C20: {} distinct values in a box of {}", ids.len(), $n);
            });
            if let Some(why) = ASSERTED.with(|a| a.borrow_mut().take()) {
                rep.failed += 1;
                println!("FAIL property=C20 op={} N={} k={} : {}", $nm, $n, k, why);
            }
        }
    } }
    rep_case!("box_arr![x; U3] (Clone, not Copy)", 3usize, |ev: &mut usize| box_arr![{ *ev += 1; mk() }; U3]);
    rep_case!("box_arr![x; 4] (Clone, not Copy)", 4usize, |ev: &mut usize| box_arr![{ *ev += 1; mk() }; 4]);
    rep_case!("box_arr![x; U1] (Clone, not Copy)", 1usize, |ev: &mut usize| box_arr![{ *ev += 1; mk() }; U1]);
    rep_case!("box_arr![x; U0] (Clone, not Copy)", 0usize, |ev: &mut usize| box_arr![{ *ev += 1; mk() }; U0]);
}

/// C14 (bounded stand-in): the chunked strategy (N > 1024) on the real code - CBMC cannot reach these lengths.  Every precision
/// for two lengths, boundary precisions (multiples of 2048 +- 1, 2N +- 2) for the others; both cases; no precision.
fn hex_case<N: ArrayLength>(rep: &mut Report, all_precisions: bool)
where
    N: core::ops::Add<N>,
    Sum<N, N>: ArrayLength,
{
    let n = N::USIZE;
    let a: GenericArray<u8, N> = GenericArray::generate(|i| (i.wrapping_mul(31).wrapping_add(7) ^ (i >> 8)) as u8);
    let lower: String = a.iter().map(|b| format!("{:02x}", b)).collect();
    let upper: String = a.iter().map(|b| format!("{:02X}", b)).collect();
    let mut ps: Vec<usize> = if all_precisions { (0..=2 * n + 2).collect() } else {
        let mut v = vec![0, 1, 2, 3, 2 * n - 1, 2 * n, 2 * n + 1, 2 * n + 2, 2 * n + 7, n, n + 1];
        let mut m = 2048;
        while m <= 2 * n + 2048 { v.extend([m - 2, m - 1, m, m + 1, m + 2]); m += 2048; }
        v
    };
    ps.sort();
    ps.dedup();
    mark("C14", "hex", n, 0);
    rep.cases += 1;
    let mut bad: Option<String> = None;
    if format!("{:x}", a) != lower || format!("{:X}", a) != upper {
        bad = Some("no precision: not the two-digit form of every byte".into());
    }
    for &p in &ps {
        let want = p.min(2 * n);
        let (l, u) = (format!("{:.*x}", p, a), format!("{:.*X}", p, a));
        if l != lower[..want] || u != upper[..want] {
            bad = Some(format!("precision {}: printed {} / {} characters, expected the first {} of the full form", p, l.len(), u.len(), want));
            break;
        }
    }
    if let Some(why) = bad {
        rep.failed += 1;
        println!("FAIL property=C14 op=LowerHex/UpperHex N={} k=0 : {}", n, why);
    }
}

/// C02 / C10 / C11 (bounded stand-in): the ADDRESS of views whose extent is zero bytes (zero-sized elements, N = 0, M = 0).
/// CBMC gives zero-sized places unrelated addresses, so engine K guards every address assertion with "size != 0".
#[repr(align(8))]
#[derive(Clone, Copy, Default)]
struct Z8;
fn adr<X: ?Sized>(x: &X) -> usize { x as *const X as *const u8 as usize }
fn zero_extent(rep: &mut Report) {
    use core::borrow::{Borrow, BorrowMut};
    let fails: RefCell<Vec<(&str, String)>> = RefCell::new(Vec::new());
    let ncases = std::cell::Cell::new(0usize);
    macro_rules! chk { ($prop:expr, $what:expr, $a:expr, $b:expr) => { ncases.set(ncases.get() + 1); if $a != $b { fails.borrow_mut().push(($prop, format!("{}: address {:#x} instead of {:#x}", $what, $a, $b))); } } }
    macro_rules! guarded { ($prop:expr, $what:expr, $body:block) => {
        if catch_unwind(AssertUnwindSafe(|| $body)).is_err() { rep.cases += 1; fails.borrow_mut().push(($prop, format!("{}: the call panicked", $what))); }
    } }
    macro_rules! views { ($T:ty, $N:ty, $v:expr) => { guarded!("C02", "views of a zero-extent array", {
        mark("C02", "views of a zero-extent array", <$N>::USIZE, 0);
        let mut a: GenericArray<$T, $N> = GenericArray::generate(|_| $v);
        let base = adr(&a);
        chk!("C02", "as_slice", a.as_slice().as_ptr() as usize, base);
        chk!("C02", "as_mut_slice", a.as_mut_slice().as_ptr() as usize, base);
        chk!("C02", "Deref", (&*a).as_ptr() as usize, base);
        chk!("C02", "AsRef<[T]>", AsRef::<[$T]>::as_ref(&a).as_ptr() as usize, base);
        chk!("C02", "Borrow<[T]>", Borrow::<[$T]>::borrow(&a).as_ptr() as usize, base);
        chk!("C02", "BorrowMut<[T]>", BorrowMut::<[$T]>::borrow_mut(&mut a).as_ptr() as usize, base);
        chk!("C02", "(&a).into_iter()", (&a).into_iter().as_slice().as_ptr() as usize, base);
        let mut backing = [$v; 7];
        let off = 2usize;
        let src = adr(&backing[off..off + <$N>::USIZE]);
        chk!("C02", "from_slice", adr(GenericArray::<$T, $N>::from_slice(&backing[off..off + <$N>::USIZE])), src);
        chk!("C02", "try_from_slice", adr(GenericArray::<$T, $N>::try_from_slice(&backing[off..off + <$N>::USIZE]).unwrap()), src);
        chk!("C02", "from_mut_slice", adr(GenericArray::<$T, $N>::from_mut_slice(&mut backing[off..off + <$N>::USIZE])), src);
        chk!("C02", "try_from_mut_slice", adr(GenericArray::<$T, $N>::try_from_mut_slice(&mut backing[off..off + <$N>::USIZE]).unwrap()), src);
        chk!("C02", "TryFrom<&[T]>", adr(<&GenericArray<$T, $N>>::try_from(&backing[off..off + <$N>::USIZE]).unwrap()), src);
    }) } }
    views!((), U3, ());
    views!((), U0, ());
    views!(Z8, U2, Z8);
    views!(u32, U0, 5u32);
    views!([u8; 0], U3, []);
    macro_rules! chunks { ($T:ty, $N:ty, $n:expr, $v:expr) => { guarded!("C10", "from_chunks / into_chunks of zero-extent chunks", {
        mark("C10", "from_chunks / into_chunks of zero-extent chunks", $n, 0);
        let mut native: [[$T; $n]; 3] = [[$v; $n]; 3];
        let base = adr(&native);
        chk!("C10", "from_chunks", adr(GenericArray::<$T, $N>::from_chunks(&native[..])), base);
        chk!("C10", "from_chunks_mut", adr(GenericArray::<$T, $N>::from_chunks_mut(&mut native[..])), base);
        ncases.set(ncases.get() + 1);
        if GenericArray::<$T, $N>::from_chunks(&native[..]).len() != 3 { fails.borrow_mut().push(("C10", "from_chunks: count".into())); }
        let mut ga: [GenericArray<$T, $N>; 3] = [GenericArray::generate(|_| $v), GenericArray::generate(|_| $v), GenericArray::generate(|_| $v)];
        let gbase = adr(&ga);
        chk!("C10", "into_chunks", adr(GenericArray::<$T, $N>::into_chunks::<$n>(&ga[..])), gbase);
        chk!("C10", "into_chunks_mut", adr(GenericArray::<$T, $N>::into_chunks_mut::<$n>(&mut ga[..])), gbase);
        ncases.set(ncases.get() + 1);
        if GenericArray::<$T, $N>::into_chunks::<$n>(&ga[..]).len() != 3 { fails.borrow_mut().push(("C10", "into_chunks: count".into())); }
    }) } }
    chunks!((), U2, 2, ());
    chunks!(Z8, U3, 3, Z8);
    chunks!(u32, U0, 0, 1u32);
    macro_rules! flat { ($T:ty, $N:ty, $M:ty, $NM:ty, $v:expr) => { guarded!("C11", "by-reference flatten / unflatten of a zero-extent array", {
        mark("C11", "by-reference flatten / unflatten of a zero-extent array", <$NM>::USIZE, 0);
        let mut nested: GenericArray<GenericArray<$T, $N>, $M> = GenericArray::generate(|_| GenericArray::generate(|_| $v));
        let base = adr(&nested);
        chk!("C11", "(&nested).flatten()", adr::<GenericArray<$T, $NM>>((&nested).flatten()), base);
        chk!("C11", "(&mut nested).flatten()", adr::<GenericArray<$T, $NM>>((&mut nested).flatten()), base);
        let mut flat: GenericArray<$T, $NM> = GenericArray::generate(|_| $v);
        let fbase = adr(&flat);
        chk!("C11", "(&flat).unflatten()", adr::<GenericArray<GenericArray<$T, $N>, $M>>((&flat).unflatten()), fbase);
        chk!("C11", "(&mut flat).unflatten()", adr::<GenericArray<GenericArray<$T, $N>, $M>>((&mut flat).unflatten()), fbase);
    }) } }
    flat!((), U2, U3, U6, ());
    flat!(Z8, U3, U2, U6, Z8);
    flat!(u32, U2, U0, U0, 3u32);
    flat!(u8, U3, U0, U0, 3u8);
    rep.cases += ncases.get();
    for (prop, why) in fails.into_inner() {
        rep.failed += 1;
        let what = why.split(':').next().unwrap_or("").replace(' ', "_");
        println!("FAIL property={} op=zero-extent-view({}) N=0 k=0 : {}", prop, what, why);
    }
}

/// C13 / C06 (bounded stand-in): Debug under the flag sets CBMC cannot run (`{:#?}` through PadAdapter does not terminate
/// there): the array's output equals its slice's, and the iterator's equals `GenericArrayIter(<remaining slice>)`, natively.
fn debug_flags(rep: &mut Report) {
    struct Tup<'a, S: ?Sized>(&'a S);
    impl<'a, S: core::fmt::Debug + ?Sized> core::fmt::Debug for Tup<'a, S> {
        fn fmt(&self, f: &mut core::fmt::Formatter) -> core::fmt::Result { f.debug_tuple("GenericArrayIter").field(&self.0).finish() }
    }
    let mut fails: Vec<(&str, String)> = Vec::new();
    let mut ncases = 0usize;
    macro_rules! flags { ($prop:expr, $what:expr, $a:expr, $b:expr; $($spec:literal),*) => { $(
        ncases += 1;
        let (x, y) = (format!($spec, $a), format!($spec, $b));
        if x != y { fails.push(($prop, format!("{} under `{}`: {:?} instead of {:?}", $what, $spec, x, y))); }
    )* } }
    macro_rules! one { ($T:ty, $N:ty, $gen:expr) => { {
        mark("C13", "Debug flags", <$N>::USIZE, 0);
        let a: GenericArray<$T, $N> = GenericArray::generate($gen);
        let v: Vec<$T> = (0..<$N>::USIZE).map($gen).collect();
        flags!("C13", concat!("Debug of GenericArray<", stringify!($T), ", ", stringify!($N), ">"), a, &v[..];
               "{:?}", "{:#?}", "{:12?}", "{:<7.2?}", "{:#12.1?}", "{:+?}", "{:#x?}", "{:#X?}", "{:08?}", "{:#010x?}", "{:^9?}");
        let n = <$N>::USIZE;
        for front in 0..=n { for back in 0..=(n - front) {
            mark("C06", "iterator Debug flags", n, front * 8 + back);
            let mut it = a.clone().into_iter();
            for _ in 0..front { it.next(); }
            for _ in 0..back { it.next_back(); }
            flags!("C06", format!("Debug of GenericArrayIter<{}, {}> after {} next / {} next_back", stringify!($T), stringify!($N), front, back), it, Tup(&v[front..n - back]);
                   "{:?}", "{:#?}", "{:#x?}", "{:8.1?}", "{:#08?}");
        } }
    } } }
    one!(u8, U0, |i| i as u8);
    one!(u8, U1, |i| (i as u8).wrapping_mul(37).wrapping_add(200));
    one!(u8, U3, |i| (i as u8).wrapping_mul(37).wrapping_add(200));
    one!(u8, U5, |i| (i as u8).wrapping_mul(97));
    one!(i32, U4, |i| i as i32 * -1000 + 5);
    one!(f64, U3, |i| if i == 1 { f64::NAN } else { i as f64 * 1.25 - 0.5 });
    one!(String, U2, |i| format!("s\"{}\n", i));
    one!(String, U0, |i| format!("{}", i));
    one!(GenericArray<u8, U2>, U3, |i| GenericArray::<u8, U2>::generate(|j| (i * 2 + j) as u8));
    one!(Option<u16>, U4, |i| if i % 2 == 0 { Some(i as u16 * 300) } else { None });
    rep.cases += ncases;
    for (prop, why) in fails {
        rep.failed += 1;
        println!("FAIL property={} op=debug-flags N=0 k=0 : {}", prop, why);
    }
}

/// C15 (bounded stand-in): the boxed constructors and the O(1) conversions handle an array far larger than the thread's
/// stack.  Each case runs on a 256 KiB-stack thread of a re-executed child process (a stack overflow kills the child,
/// not the report).  4 MiB of u8.
type Big = U4194304;
const BIG: usize = 4 * 1024 * 1024;
fn stack_case(k: usize) {
    let h = std::thread::Builder::new().stack_size(256 * 1024).spawn(move || {
        let check = |b: &GenericArray<u8, Big>, v: u8| assert!(b.len() == BIG && b[0] == v && b[BIG - 1] == v && b[BIG / 2] == v);
        match k {
            0 => { let b = GenericArray::<u8, Big>::default_boxed(); check(&b, 0); }
            1 => { let b = Box::<GenericArray<u8, Big>>::generate(|_| 7u8); check(&b, 7); }
            2 => { let b = generic_array::box_arr![9u8; Big]; check(&b, 9); }
            3 => { let b: Box<GenericArray<u8, Big>> = std::iter::repeat(5u8).take(BIG).collect(); check(&b, 5); }
            4 => { let b = GenericArray::<u8, Big>::default_boxed(); let v = b.into_vec(); assert!(v.len() == BIG);
                   let b2 = GenericArray::<u8, Big>::try_from_vec(v).unwrap(); let s = b2.into_boxed_slice(); assert!(s.len() == BIG);
                   let b3 = GenericArray::<u8, Big>::try_from_boxed_slice(s).unwrap(); check(&b3, 0); }
            5 => { let b = GenericArray::<u8, Big>::default_boxed(); let n = b.into_iter().filter(|&x| x == 0).count(); assert!(n == BIG); }
            _ => { let a = Box::<GenericArray<u8, Big>>::generate(|i| i as u8); let m: Box<GenericArray<u8, Big>> = a.map(|x| x.wrapping_add(1)); assert!(m[255] == 0 && m[1] == 2); }
        }
    }).unwrap();
    if h.join().is_err() {
        std::process::exit(3);
    }
}
const STACK_CASES: [&str; 7] = ["default_boxed", "Box::generate", "box_arr![x; N]", "boxed collect", "into_vec/try_from_vec/into_boxed_slice/try_from_boxed_slice", "Box::into_iter", "map(Box)"];

fn main() {
    let args: Vec<String> = std::env::args().collect();
    if args.len() == 3 && args[1] == "--stack-case" {
        stack_case(args[2].parse().unwrap());
        return;
    }
    std::panic::set_hook(Box::new(|info| {
        let msg = info.payload().downcast_ref::<String>().cloned().or_else(|| info.payload().downcast_ref::<&str>().map(|s| s.to_string())).unwrap_or_default();
        if msg.starts_with("C20:") {
            ASSERTED.with(|a| *a.borrow_mut() = Some(msg));
        }
    }));
    let mut rep = Report { cases: 0, failed: 0 };
    if wanted("C20") { macro_cases(&mut rep); }
    if wanted("C14") {
        hex_case::<Add1<U1024>>(&mut rep, true);
        hex_case::<Add1<U2048>>(&mut rep, true);
        hex_case::<Sub1<U2048>>(&mut rep, false);
        hex_case::<U2048>(&mut rep, false);
        hex_case::<Prod<U1000, U3>>(&mut rep, false);
        hex_case::<U4096>(&mut rep, false);
        hex_case::<U1024>(&mut rep, false);
    }
    if wanted("C02") || wanted("C10") || wanted("C11") { zero_extent(&mut rep); }
    if wanted("C13") || wanted("C06") { debug_flags(&mut rep); }
    if !(wanted("C04") || wanted("C05") || wanted("C09") || wanted("C15") || wanted("C16")) {
        println!("CASES {} FAILED {}", rep.cases, rep.failed);
        return;
    }
    closure_panics::<U0>(&mut rep);
    closure_panics::<U1>(&mut rep);
    closure_panics::<U2>(&mut rep);
    closure_panics::<U3>(&mut rep);
    closure_panics::<U4>(&mut rep);
    destructor_panics::<U1>(&mut rep);
    destructor_panics::<U2>(&mut rep);
    destructor_panics::<U3>(&mut rep);
    destructor_panics::<U4>(&mut rep);
    index_panics::<U1, U0>(&mut rep);
    index_panics::<U2, U1>(&mut rep);
    index_panics::<U4, U3>(&mut rep);
    for (k, name) in STACK_CASES.iter().enumerate() {
        let st = std::process::Command::new(std::env::current_exe().unwrap()).args(["--stack-case", &k.to_string()])
            .stdout(std::process::Stdio::null()).stderr(std::process::Stdio::null()).status();
        rep.cases += 1;
        match st {
            Ok(s) if s.success() => {}
            other => {
                rep.failed += 1;
                println!("FAIL property=C15 op={} N={} k={} : a 4 MiB array on a 256 KiB-stack thread: child ended with {:?} (stack overflow / abort)", name, BIG, k, other.map(|s| s.to_string()));
            }
        }
    }
    println!("CASES {} FAILED {}", rep.cases, rep.failed);
}

use vstd::prelude::*;
verus! {

// ===================== engine-V prelude: common (TRUSTED; the only place external_body may appear) =====================
// Type-level lengths: rule R-len maps `N::USIZE` to `N::usize_()`; `n()` is the mathematical length.
pub trait ArrayLength { spec fn n() -> usize; fn usize_() -> (r: usize) ensures r == Self::n(); }

pub open spec fn min_spec(a: usize, b: usize) -> usize { if a <= b { a } else { b } }
// core::cmp::min on usize (rule R-misc)
pub fn cmp_min(a: usize, b: usize) -> (r: usize) ensures r == min_spec(a, b) { if a <= b { a } else { b } }

// rule R-panic: a function that may panic returns PanicOr; `ret is Panic <==> ..` is then an ordinary postcondition
pub enum PanicOr<R> { Panic, Ret(R) }

// ===================== engine-V prelude: hex unit (TRUSTED) =====================
// specification of the output: two digits per byte, high nibble first
pub open spec fn digit(nib: u8, upper: bool) -> u8 {
    if nib < 10 { (48 + nib) as u8 } else if upper { (55 + nib) as u8 } else { (87 + nib) as u8 }
}
pub open spec fn hexdigits(s: Seq<u8>, upper: bool) -> Seq<u8> {
    Seq::new(2 * s.len(), |k: int| if k % 2 == 0 { digit(s[k / 2] >> 4, upper) } else { digit(s[k / 2] & 0xf, upper) })
}
pub open spec fn mini(a: int, b: int) -> int { if a <= b { a } else { b } }

// the formatter: a sink with ghost output (rule R-foreign).  `f.write_str(..)?` - an Err from the sink ends the call and
// is propagated; modelled as always Ok (what is DROPPED: the error path of the sink).
pub struct Fmt { pub precision: Option<usize>, pub out: Ghost<Seq<u8>> }
impl Fmt {
    pub fn precision(&self) -> (r: Option<usize>) ensures r == self.precision { self.precision }
    // f.write_str(unsafe { str::from_utf8_unchecked(buf.get_unchecked(..k)) }) - `..k` must be inside the buffer
    #[verifier::external_body]
    pub fn write_prefix(&mut self, buf: &Vec<u8>, k: usize)
        requires k <= buf@.len(),
        ensures final(self).out@ == old(self).out@ + buf@.subrange(0, k as int), final(self).precision == old(self).precision,
    { unimplemented!() }
}

// GenericArray::<u8, Sum<N, N>>::default() and [0u8; 2048]: a zeroed byte buffer of the given length (rule R-slots for plain bytes)
#[verifier::external_body]
pub fn zeroed(len: usize) -> (v: Vec<u8>) ensures v@.len() == len { unimplemented!() }

// &s[lo..hi] (rule R-view): bounds are a precondition, exactly as for the slice index operator
#[verifier::external_body]
pub fn subslice(s: &[u8], lo: usize, hi: usize) -> (r: &[u8])
    requires lo <= hi <= s@.len(), ensures r@ == s@.subrange(lo as int, hi as int)
{ unimplemented!() }

// ASSUMED contract of the external dependency faster_hex::hex_encode / hex_encode_upper (feature faster-hex):
// Err iff the destination is too short; otherwise the first 2*len bytes are the digits, the rest is untouched.
#[verifier::external_body]
pub fn faster_hex_encode(src: &[u8], dst: &mut Vec<u8>, upper: bool) -> (r: Result<(), ()>)
    ensures final(dst)@.len() == old(dst)@.len(),
        r.is_err() <==> old(dst)@.len() < 2 * src@.len(),
        r.is_ok() ==> final(dst)@.subrange(0, 2 * src@.len() as int) == hexdigits(src@, upper)
            && final(dst)@.subrange(2 * src@.len() as int, old(dst)@.len() as int) == old(dst)@.subrange(2 * src@.len() as int, old(dst)@.len() as int),
{ unimplemented!() }

// .unwrap_unchecked(): undefined behaviour on Err, so Ok is a precondition
pub fn unwrap_unchecked_unit(r: Result<(), ()>) requires r.is_ok() {}

proof fn lemma_hex_prefix(s: Seq<u8>, k: int, upper: bool)
    requires 0 <= k <= s.len(),
    ensures hexdigits(s.subrange(0, k), upper) =~= hexdigits(s, upper).subrange(0, 2 * k),
{}
proof fn lemma_hex_concat(a: Seq<u8>, b: Seq<u8>, upper: bool)
    ensures hexdigits(a + b, upper) =~= hexdigits(a, upper) + hexdigits(b, upper),
{
    assert forall|k: int| 0 <= k < 2 * (a.len() + b.len()) implies hexdigits(a + b, upper)[k] == (hexdigits(a, upper) + hexdigits(b, upper))[k] by {
        if k < 2 * a.len() { assert((a + b)[k / 2] == a[k / 2]); }
        else { assert((k - 2 * a.len()) / 2 == k / 2 - a.len()); assert((k - 2 * a.len()) % 2 == k % 2); assert((a + b)[k / 2] == b[k / 2 - a.len()]); }
    }
}


// ===== extracted: src/hex.rs =====

    // extracted from src/hex.rs:21  `fn hex_encode_fallback<const UPPER: bool>(src: &[u8], dst: &mut [u8])`
    pub fn hex_encode_fallback(src: &[u8], dst: &mut Vec<u8>, upper: bool)
        requires
            old(dst)@.len() >= 2 * src@.len(),
        ensures
            final(dst)@.len() == old(dst)@.len(), /*OB:hex_encode_fallback.post.len:C14*/
            final(dst)@.subrange(0, 2 * src@.len() as int) == hexdigits(src@, upper), /*OB:hex_encode_fallback.post.digits:C14*/
            final(dst)@.subrange(2 * src@.len() as int, old(dst)@.len() as int) == old(dst)@.subrange(2 * src@.len() as int, old(dst)@.len() as int), /*OB:hex_encode_fallback.post.frame:C14*/
    {
        if dst.len() < src.len() * 2 {
            assert(false) /*OB:hex_encode_fallback.unreachable-hint-is-unreachable:C14*/;
        }
        let alphabet: [u8; 16] = if upper {
            [48, 49, 50, 51, 52, 53, 54, 55, 56, 57, 65, 66, 67, 68, 69, 70]
        }  else {
            [48, 49, 50, 51, 52, 53, 54, 55, 56, 57, 97, 98, 99, 100, 101, 102]
        };
        proof {
            assert forall|i: int| 0 <= i < 16 implies #[trigger] alphabet@[i] == digit(i as u8, upper) by {
                if i == 0 {
                    assert(alphabet@[0] == digit(0u8, upper));
                }
                if i == 1 {
                    assert(alphabet@[1] == digit(1u8, upper));
                }
                if i == 2 {
                    assert(alphabet@[2] == digit(2u8, upper));
                }
                if i == 3 {
                    assert(alphabet@[3] == digit(3u8, upper));
                }
                if i == 4 {
                    assert(alphabet@[4] == digit(4u8, upper));
                }
                if i == 5 {
                    assert(alphabet@[5] == digit(5u8, upper));
                }
                if i == 6 {
                    assert(alphabet@[6] == digit(6u8, upper));
                }
                if i == 7 {
                    assert(alphabet@[7] == digit(7u8, upper));
                }
                if i == 8 {
                    assert(alphabet@[8] == digit(8u8, upper));
                }
                if i == 9 {
                    assert(alphabet@[9] == digit(9u8, upper));
                }
                if i == 10 {
                    assert(alphabet@[10] == digit(10u8, upper));
                }
                if i == 11 {
                    assert(alphabet@[11] == digit(11u8, upper));
                }
                if i == 12 {
                    assert(alphabet@[12] == digit(12u8, upper));
                }
                if i == 13 {
                    assert(alphabet@[13] == digit(13u8, upper));
                }
                if i == 14 {
                    assert(alphabet@[14] == digit(14u8, upper));
                }
                if i == 15 {
                    assert(alphabet@[15] == digit(15u8, upper));
                }
            }
        }
        let __n = cmp_min(dst.len() / 2, src.len());
        let mut __k: usize = 0;
        while __k < __n invariant __n == src@.len(), __k <= __n, dst@.len() == old(dst)@.len(), dst@.len() >= 2 * src@.len(), dst@.len() <= usize::MAX, forall|i: int| 0 <= i < 16 ==> #[trigger] alphabet@[i] == digit(i as u8, upper), forall|j: int| 0 <= j < 2 * __k ==> #[trigger] dst@[j] == hexdigits(src@, upper)[j], forall|j: int| 2 * __k <= j < dst@.len() ==> #[trigger] dst@[j] == old(dst)@[j], decreases __n - __k, {
            let c = src[__k];
            proof {
                assert((c >> 4) < 16 && (c & 0xF) < 16 && (c & 0xF) == (c & 0xf)) by (bit_vector);
            }
            dst.set(2 * __k + 0, alphabet[(c >> 4) as usize]);
            dst.set(2 * __k + 1, alphabet[(c & 0xF) as usize]);
            proof {
                assert(hexdigits(src@, upper)[2 * __k as int] == digit(src@[__k as int] >> 4, upper));
                assert(hexdigits(src@, upper)[2 * __k + 1] == digit(src@[__k as int] & 0xf, upper));
            }
            __k += 1;
        }
        proof {
            assert(dst@.subrange(0, 2 * src@.len() as int) =~= hexdigits(src@, upper));
            assert(dst@.subrange(2 * src@.len() as int, old(dst)@.len() as int) =~= old(dst)@.subrange(2 * src@.len() as int, old(dst)@.len() as int));
        }
    }
    proof fn reach_hex_encode_fallback(src: &[u8], dst: Vec<u8>, upper: bool) requires dst@.len() >= 2 * src@.len(), { assert(false); } /*OB:canary.hex_encode_fallback:*/

    // extracted from src/hex.rs:39  `fn hex_encode<const UPPER: bool>(src: &[u8], dst: &mut [u8])  [cfg: feature faster-hex OFF]`
    pub fn hex_encode(src: &[u8], dst: &mut Vec<u8>, upper: bool)
        requires
            old(dst)@.len() >= 2 * src@.len(),
        ensures
            final(dst)@.len() == old(dst)@.len(), /*OB:hex_encode.post.len:C14*/
            final(dst)@.subrange(0, 2 * src@.len() as int) == hexdigits(src@, upper), /*OB:hex_encode.post.digits:C14*/
            final(dst)@.subrange(2 * src@.len() as int, old(dst)@.len() as int) == old(dst)@.subrange(2 * src@.len() as int, old(dst)@.len() as int), /*OB:hex_encode.post.frame:C14*/
    {
        assert(dst@.len() >= src@.len() * 2) /*OB:hex_encode.debug-assertion:C14*/;
        hex_encode_fallback(src, dst, upper);
    }
    proof fn reach_hex_encode(src: &[u8], dst: Vec<u8>, upper: bool) requires dst@.len() >= 2 * src@.len(), { assert(false); } /*OB:canary.hex_encode:*/

    // extracted from src/hex.rs:39  `fn hex_encode<const UPPER: bool>(src: &[u8], dst: &mut [u8])  [cfg: feature faster-hex ON]`
    pub fn hex_encode_with_faster_hex(src: &[u8], dst: &mut Vec<u8>, upper: bool)
        requires
            old(dst)@.len() >= 2 * src@.len(),
        ensures
            final(dst)@.len() == old(dst)@.len(), /*OB:hex_encode_with_faster_hex.post.len:C14*/
            final(dst)@.subrange(0, 2 * src@.len() as int) == hexdigits(src@, upper), /*OB:hex_encode_with_faster_hex.post.digits:C14*/
            final(dst)@.subrange(2 * src@.len() as int, old(dst)@.len() as int) == old(dst)@.subrange(2 * src@.len() as int, old(dst)@.len() as int), /*OB:hex_encode_with_faster_hex.post.frame:C14*/
    {
        assert(dst@.len() >= src@.len() * 2) /*OB:hex_encode_with_faster_hex.debug-assertion:C14*/;
        if upper == true {
            let __r = faster_hex_encode(src, dst, true);
            unwrap_unchecked_unit(__r) /*OB:hex_encode_with_faster_hex.unwrap_unchecked-never-sees-Err:C14*/;
        }  else {
            let __r = faster_hex_encode(src, dst, false);
            unwrap_unchecked_unit(__r) /*OB:hex_encode_with_faster_hex.unwrap_unchecked-never-sees-Err:C14*/;
        }
    }
    proof fn reach_hex_encode_with_faster_hex(src: &[u8], dst: Vec<u8>, upper: bool) requires dst@.len() >= 2 * src@.len(), { assert(false); } /*OB:canary.hex_encode_with_faster_hex:*/

    // extracted from src/hex.rs:48  `fn generic_hex<N, const UPPER: bool>( arr: &GenericArray<u8, N>, f: &mut fmt::Formatter<'_>, ) -> fmt::Result where N: ArrayLength + Add<N>, Sum<N, N>: ArrayLength,`
    pub fn generic_hex<N: ArrayLength>(arr: &[u8], f: &mut Fmt, upper: bool)
        requires
            arr@.len() == N::n(),
            N::n() * 2 <= usize::MAX,
            old(f).out@.len() == 0,
        ensures
            final(f).out@ == hexdigits(arr@, upper).subrange(0, match old(f).precision { Some(p) => if p < 2 * N::n() { p as int } else { 2 * N::n() as int }, None => 2 * N::n() as int }), /*OB:generic_hex.post.output:C14*/
    {
        let max_digits = N::usize_() * 2;
        let max_digits = match f.precision() {
            Some(precision) if precision < max_digits => precision, _ => max_digits,
        };
        assert(max_digits >> 1 == max_digits / 2 && max_digits & 1 == max_digits % 2) by (bit_vector);
        let max_bytes = (max_digits >> 1) + (max_digits & 1);
        let input = {
            if max_bytes > N::usize_() {
                assert(false) /*OB:generic_hex.unreachable-hint-is-unreachable:C14*/;
            }
            subslice(arr, 0, max_bytes)
        };
        proof {
            lemma_hex_prefix(arr@, max_bytes as int, upper);
        }
        if N::usize_() <= 1024 {
            let mut buf = zeroed(N::usize_() + N::usize_());
            if N::usize_() < 16 {
                hex_encode_fallback(arr, &mut buf, upper);
            }  else {
                hex_encode(input, &mut buf, upper);
            }
            f.write_prefix(&buf, max_digits);
            proof {
                assert(f.out@ =~= hexdigits(arr@, upper).subrange(0, max_digits as int));
            }
        }  else {
            let mut buf = zeroed(2048);
            let mut digits_left = max_digits;
            let __it = input;
            let mut __off: usize = 0;
            proof {
                assert(f.out@ =~= hexdigits(__it@, upper).subrange(0, 0));
            }
            while __off < __it.len() invariant __it@ == arr@.subrange(0, max_bytes as int), max_bytes <= N::n(), arr@.len() == N::n(), max_bytes == (max_digits / 2) + (max_digits % 2), max_digits <= 2 * N::n(), __off <= __it@.len(), __off % 1024 == 0 || __off == __it@.len(), buf@.len() == 2048, digits_left == max_digits - mini(2 * __off, max_digits as int), f.out@ == hexdigits(__it@, upper).subrange(0, mini(2 * __off, max_digits as int)), decreases __it@.len() - __off, {
                let __end = cmp_min(__off + 1024, __it.len());
                let chunk = subslice(__it, __off, __end);
                hex_encode(chunk, &mut buf, upper);
                let n = cmp_min(chunk.len() * 2, digits_left);
                proof {
                    lemma_hex_concat(__it@.subrange(0, __off as int), chunk@, upper);
                    assert(__it@.subrange(0, __off as int) + chunk@ =~= __it@.subrange(0, __end as int));
                    lemma_hex_prefix(__it@, __off as int, upper);
                    lemma_hex_prefix(__it@, __end as int, upper);
                }
                let ghost __dl0 = digits_left as int;
                f.write_prefix(&buf, n);
                digits_left -= n;
                proof {
                    let e0 = mini(2 * __off, max_digits as int);
                    let e1 = mini(2 * __end, max_digits as int);
                    assert(e0 == 2 * __off);
                    assert(__dl0 == max_digits - 2 * __off);
                    assert(chunk@.len() == __end - __off);
                    assert(e1 == e0 + n);
                    assert(f.out@ =~= hexdigits(__it@, upper).subrange(0, e1));
                }
                __off = __end;
            }
            proof {
                assert(mini(2 * max_bytes, max_digits as int) == max_digits);
                assert(f.out@ =~= hexdigits(arr@, upper).subrange(0, max_digits as int));
            }
        }
    }
    proof fn reach_generic_hex<N: ArrayLength>(arr: &[u8], f: Fmt, upper: bool) requires arr@.len() == N::n(), N::n() * 2 <= usize::MAX, f.out@.len() == 0, { assert(false); } /*OB:canary.generic_hex:*/

proof fn canary() { assert(false); } /*OB:canary:*/

} // verus!
fn main() {}


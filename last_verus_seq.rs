use vstd::prelude::*;
verus! {

// ===================== engine-V prelude: common (TRUSTED; the only place external_body may appear) =====================
// Type-level lengths: rule R-len maps `N::USIZE` to `N::usize_()`; `n()` is the mathematical length.
pub trait ArrayLength { spec fn n() -> usize; fn usize_() -> (r: usize) ensures r == Self::n(); }

pub open spec fn min_spec(a: usize, b: usize) -> usize { if a <= b { a } else { b } }
// core::cmp::min on usize (rule R-misc)
pub fn cmp_min(a: usize, b: usize) -> (r: usize) ensures r == min_spec(a, b) { if a <= b { a } else { b } }

// rule R-panic: a function that may panic returns PanicOr; `ret is Panic <==> ..` is then an ordinary postcondition
pub enum PanicOr<R> { Panic, Ret(R) }

// ===================== engine-V prelude: slot ledger (TRUSTED) =====================
// Rule R-slots: a field or local of type GenericArray<T,N> / ManuallyDrop<..> / GenericArray<MaybeUninit<T>,N> becomes
// `Slots<T,N>`, whose view is Seq<Option<T>>: Some(v) = slot initialised and owned here, None = uninitialised / moved out /
// dropped.  "At most once" is a PRECONDITION of every primitive; "at least once" is the forget / function-exit obligation.
#[verifier::external_body]
#[verifier::accept_recursive_types(T)]
#[verifier::accept_recursive_types(N)]
pub struct Slots<T, N> { _p: core::marker::PhantomData<(T, N)> }

// a borrowed sub-slice of a Slots block: (lo, hi) element range; produced by rule R-view
pub struct SliceRange { pub lo: usize, pub hi: usize }

impl<T, N: ArrayLength> Slots<T, N> {
    pub uninterp spec fn view(&self) -> Seq<Option<T>>;

    pub open spec fn ok(&self) -> bool { self.view().len() == N::n() }
    pub open spec fn live(&self, k: int) -> bool { self.view()[k].is_some() }
    pub open spec fn all_dead(&self) -> bool { forall|k: int| 0 <= k < N::n() ==> (#[trigger] self.view()[k]).is_none() }
    pub open spec fn all_live(&self) -> bool { forall|k: int| 0 <= k < N::n() ==> (#[trigger] self.view()[k]).is_some() }
    pub open spec fn live_in(&self, lo: int, hi: int) -> bool { forall|k: int| lo <= k < hi ==> (#[trigger] self.view()[k]).is_some() }

    // R-read: ptr::read(X.get_unchecked(i)) - moves the value out of slot i
    #[verifier::external_body]
    pub fn take(&mut self, i: usize) -> (r: T)
        requires old(self).ok(), i < N::n(), old(self).live(i as int),
        ensures final(self).view() == old(self).view().update(i as int, None), r == old(self).view()[i as int].unwrap(),
    { unimplemented!() }

    // R-write: ptr::write(dst, v) / dst.write(v) - slot must not hold an owned value (it would be overwritten without drop)
    #[verifier::external_body]
    pub fn put(&mut self, i: usize, v: T)
        requires old(self).ok(), i < N::n(), !old(self).live(i as int),
        ensures final(self).view() == old(self).view().update(i as int, Some(v)),
    { unimplemented!() }

    // shared read of slot i
    #[verifier::external_body]
    pub fn peek(&self, i: usize) -> (r: &T)
        requires self.ok(), i < N::n(), self.live(i as int),
        ensures *r == self.view()[i as int].unwrap(),
    { unimplemented!() }

    // R-dip: ptr::drop_in_place(X.get_unchecked_mut(lo..hi)) - runs the destructors of slots [lo, hi)
    #[verifier::external_body]
    pub fn drop_range(&mut self, lo: usize, hi: usize)
        requires old(self).ok(), lo <= hi <= N::n(), old(self).live_in(lo as int, hi as int),
        ensures final(self).ok(),
                forall|k: int| 0 <= k < N::n() ==> #[trigger] final(self).view()[k] == (if lo <= k < hi { None } else { old(self).view()[k] }),
    { unimplemented!() }

    // R-view: X.get_unchecked(lo..hi) / get_unchecked_mut(lo..hi): the range must lie inside the block and be initialised
    #[verifier::external_body]
    pub fn range(&self, lo: usize, hi: usize) -> (r: SliceRange)
        requires self.ok(), lo <= hi <= N::n(), self.live_in(lo as int, hi as int),
        ensures r.lo == lo, r.hi == hi,
    { unimplemented!() }

    // ptr::read(&self.array) of a ManuallyDrop array: bitwise copy whose slots are owned by nobody yet
    #[verifier::external_body]
    pub fn bitcopy_dead(&self) -> (r: Self)
        requires self.ok(),
        ensures r.ok(), r.all_dead(),
    { unimplemented!() }

    // R-forget: mem::forget of the owner - a leak unless nothing is live
    #[verifier::external_body]
    pub fn forget(self)
        requires self.ok(), self.all_dead(),
    { unimplemented!() }
}

// ===================== engine-V prelude: element moves inside one block (TRUSTED) =====================
impl<T, N: ArrayLength> Slots<T, N> {
    // ptr::copy(dst.add(1), dst, cnt) where dst = base.add(i): memmove of `cnt` elements one slot down.  Ownership view: the
    // values move with their bits; the destination range must not hold values owned by anyone else (they would be
    // overwritten without being dropped), the vacated last slot holds a stale duplicate nobody owns.
    #[verifier::external_body]
    pub fn shift_down(&mut self, i: usize, cnt: usize)
        requires old(self).ok(), i + 1 + cnt <= N::n(), !old(self).live(i as int), old(self).live_in(i + 1, i + 1 + cnt),
        ensures final(self).ok(),
            forall|k: int| 0 <= k < N::n() ==> #[trigger] final(self).view()[k] ==
                (if i <= k < i + cnt { old(self).view()[k + 1] } else if k == i + cnt { None } else { old(self).view()[k] }),
    { unimplemented!() }

    // <[T]>::swap(a, b): bounds-checked by the slice (a panic is not UB), both slots initialised
    #[verifier::external_body]
    pub fn swap(&mut self, a: usize, b: usize)
        requires old(self).ok(), a < N::n(), b < N::n(), old(self).live(a as int), old(self).live(b as int),
        ensures final(self).view() == old(self).view().update(a as int, old(self).view()[b as int]).update(b as int, old(self).view()[a as int]),
    { unimplemented!() }

    // mem::transmute_copy(&array) to GenericArray<T, Sub1<N>>: reads the first N-1 slots as a fully initialised array.
    // Everything read must be initialised; the slot left behind must hold nothing owned (it would leak).
    #[verifier::external_body]
    pub fn read_prefix_as_array(self) -> (r: Seq<T>)
        requires self.ok(), N::n() >= 1, self.live_in(0, N::n() - 1), !self.live(N::n() - 1),
        ensures r.len() == N::n() - 1, forall|k: int| 0 <= k < N::n() - 1 ==> #[trigger] r[k] == self.view()[k].unwrap(),
    { unimplemented!() }

    // an owned GenericArray<T, N> that is dropped normally (by scope exit or by unwinding): releases every element once
    #[verifier::external_body]
    pub fn drop_owned(self)
        requires self.ok(), self.all_live(),
    { unimplemented!() }

    pub open spec fn elems(&self) -> Seq<T> { Seq::new(N::n() as nat, |k: int| self.view()[k].unwrap()) }
}


// ===== extracted: src/sequence.rs =====

    // extracted from src/sequence.rs:464  `fn remove_unchecked(self, idx: usize) -> (T, Self::Output)`
    pub fn remove_unchecked<T, N: ArrayLength>(this: Slots<T, N>, idx: usize) -> (ret: (T, Seq<T>))
        requires
            this.ok(),
            this.all_live(),
            idx < N::n(),
        ensures
            ret.0 == this.elems()[idx as int], /*OB:remove_unchecked.post.removed:C09*/
            ret.1 == this.elems().remove(idx as int), /*OB:remove_unchecked.post.rest-as-Vec-remove:C09,C03*/
    {
        let __ret = {
            if idx >= N::usize_() || N::usize_() == 0 {
                assert(false) /*OB:remove_unchecked.unreachable-hint-is-unreachable:C09*/;
            }
            let mut array = this;
            let dst = idx;
            assert(idx <= N::n()) /*OB:remove_unchecked.pointer-add-in-bounds:C09*/;
            let removed = array.take(dst);
            array.shift_down(dst, N::usize_() - idx - 1);
            (removed, array.read_prefix_as_array())
        };
        proof {
            assert(__ret.1 =~= this.elems().remove(idx as int));
        }
        __ret
    }

    // extracted from src/sequence.rs:482  `fn swap_remove_unchecked(self, idx: usize) -> (T, Self::Output)`
    pub fn swap_remove_unchecked<T, N: ArrayLength>(this: Slots<T, N>, idx: usize) -> (ret: (T, Seq<T>))
        requires
            this.ok(),
            this.all_live(),
            idx < N::n(),
        ensures
            ret.0 == this.elems()[idx as int], /*OB:swap_remove_unchecked.post.removed:C09*/
            ret.1 == this.elems().update(idx as int, this.elems().last()).drop_last(), /*OB:swap_remove_unchecked.post.rest-as-Vec-swap_remove:C09,C03*/
    {
        let __ret = {
            if idx >= N::usize_() || N::usize_() == 0 {
                assert(false) /*OB:swap_remove_unchecked.unreachable-hint-is-unreachable:C09*/;
            }
            let mut array = this;
            array.swap(idx, N::usize_() - 1);
            let removed = array.take(N::usize_() - 1);
            (removed, array.read_prefix_as_array())
        };
        proof {
            assert(__ret.1 =~= this.elems().update(idx as int, this.elems().last()).drop_last());
        }
        __ret
    }

    // extracted from src/sequence.rs:398  `fn remove(self, idx: usize) -> (T, Self::Output)`
    pub fn remove<T, N: ArrayLength>(this: Slots<T, N>, idx: usize) -> (ret: PanicOr<(T, Seq<T>)>)
        requires
            this.ok(),
            this.all_live(),
        ensures
            ret is Panic <==> idx >= N::n(), /*OB:remove.post.panics-iff-out-of-range:C09*/
            ret is Ret ==> ret->Ret_0.0 == this.elems()[idx as int] && ret->Ret_0.1 == this.elems().remove(idx as int), /*OB:remove.post.as-Vec:C09*/
    {
        if !(idx < N::usize_()) {
            this.drop_owned() /*OB:remove.on-panic-self-is-still-owned-and-dropped-once:C09,C03*/;
            return PanicOr::Panic;
        }
        {
            PanicOr::Ret(remove_unchecked::<T, N>(this, idx))
        }
    }

    // extracted from src/sequence.rs:425  `fn swap_remove(self, idx: usize) -> (T, Self::Output)`
    pub fn swap_remove<T, N: ArrayLength>(this: Slots<T, N>, idx: usize) -> (ret: PanicOr<(T, Seq<T>)>)
        requires
            this.ok(),
            this.all_live(),
        ensures
            ret is Panic <==> idx >= N::n(), /*OB:swap_remove.post.panics-iff-out-of-range:C09*/
            ret is Ret ==> ret->Ret_0.0 == this.elems()[idx as int] && ret->Ret_0.1 == this.elems().update(idx as int, this.elems().last()).drop_last(), /*OB:swap_remove.post.as-Vec:C09*/
    {
        if !(idx < N::usize_()) {
            this.drop_owned() /*OB:swap_remove.on-panic-self-is-still-owned-and-dropped-once:C09,C03*/;
            return PanicOr::Panic;
        }
        {
            PanicOr::Ret(swap_remove_unchecked::<T, N>(this, idx))
        }
    }

proof fn canary() { assert(false); } /*OB:canary:*/
} // verus!
fn main() {}


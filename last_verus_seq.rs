use vstd::prelude::*;
verus! {

// ===================== engine-V prelude: common (TRUSTED; the only place external_body may appear) =====================
// Type-level lengths: rule R-len maps `N::USIZE` to `N::usize_()`; `n()` is the mathematical length.
pub trait ArrayLength { spec fn n() -> usize; fn usize_() -> (r: usize) ensures r == Self::n(); }

pub open spec fn min_spec(a: usize, b: usize) -> usize { if a <= b { a } else { b } }
// core::cmp::min on usize (rule R-misc)
pub fn cmp_min(a: usize, b: usize) -> (r: usize) ensures r == min_spec(a, b) { if a <= b { a } else { b } }

// rule R-panic: a function that may panic returns PanicOr; `ret is Panic <==> ..` is then an ordinary postcondition
pub enum PanicOr<R> { Panic, Ret(R) }

// ===================== engine-V prelude: slot ledger (TRUSTED) =====================
// Rule R-slots: a field or local of type GenericArray<T,N> / ManuallyDrop<..> / GenericArray<MaybeUninit<T>,N> becomes
// `Slots<T,N>`, whose view is Seq<Option<T>>: Some(v) = slot initialised and owned here, None = uninitialised / moved out /
// dropped.  "At most once" is a PRECONDITION of every primitive; "at least once" is the forget / function-exit obligation.
#[verifier::external_body]
#[verifier::accept_recursive_types(T)]
#[verifier::accept_recursive_types(N)]
pub struct Slots<T, N> { _p: core::marker::PhantomData<(T, N)> }

// a borrowed sub-slice of a Slots block: (lo, hi) element range; produced by rule R-view
pub struct SliceRange { pub lo: usize, pub hi: usize }

impl<T, N: ArrayLength> Slots<T, N> {
    pub uninterp spec fn view(&self) -> Seq<Option<T>>;

    pub open spec fn ok(&self) -> bool { self.view().len() == N::n() }
    pub open spec fn live(&self, k: int) -> bool { self.view()[k].is_some() }
    pub open spec fn all_dead(&self) -> bool { forall|k: int| 0 <= k < N::n() ==> (#[trigger] self.view()[k]).is_none() }
    pub open spec fn all_live(&self) -> bool { forall|k: int| 0 <= k < N::n() ==> (#[trigger] self.view()[k]).is_some() }
    pub open spec fn live_in(&self, lo: int, hi: int) -> bool { forall|k: int| lo <= k < hi ==> (#[trigger] self.view()[k]).is_some() }

    // R-read: ptr::read(X.get_unchecked(i)) - moves the value out of slot i
    #[verifier::external_body]
    pub fn take(&mut self, i: usize) -> (r: T)
        requires old(self).ok(), i < N::n(), old(self).live(i as int),
        ensures final(self).view() == old(self).view().update(i as int, None), r == old(self).view()[i as int].unwrap(),
    { unimplemented!() }

    // R-write: ptr::write(dst, v) / dst.write(v) - slot must not hold an owned value (it would be overwritten without drop)
    #[verifier::external_body]
    pub fn put(&mut self, i: usize, v: T)
        requires old(self).ok(), i < N::n(), !old(self).live(i as int),
        ensures final(self).view() == old(self).view().update(i as int, Some(v)),
    { unimplemented!() }

    // shared read of slot i
    #[verifier::external_body]
    pub fn peek(&self, i: usize) -> (r: &T)
        requires self.ok(), i < N::n(), self.live(i as int),
        ensures *r == self.view()[i as int].unwrap(),
    { unimplemented!() }

    // R-dip: ptr::drop_in_place(X.get_unchecked_mut(lo..hi)) - runs the destructors of slots [lo, hi)
    #[verifier::external_body]
    pub fn drop_range(&mut self, lo: usize, hi: usize)
        requires old(self).ok(), lo <= hi <= N::n(), old(self).live_in(lo as int, hi as int),
        ensures final(self).ok(),
                forall|k: int| 0 <= k < N::n() ==> #[trigger] final(self).view()[k] == (if lo <= k < hi { None } else { old(self).view()[k] }),
    { unimplemented!() }

    // R-view: X.get_unchecked(lo..hi) / get_unchecked_mut(lo..hi): the range must lie inside the block and be initialised
    #[verifier::external_body]
    pub fn range(&self, lo: usize, hi: usize) -> (r: SliceRange)
        requires self.ok(), lo <= hi <= N::n(), self.live_in(lo as int, hi as int),
        ensures r.lo == lo, r.hi == hi,
    { unimplemented!() }

    // ptr::read(&self.array) of a ManuallyDrop array: bitwise copy whose slots are owned by nobody yet
    #[verifier::external_body]
    pub fn bitcopy_dead(&self) -> (r: Self)
        requires self.ok(),
        ensures r.ok(), r.all_dead(),
    { unimplemented!() }

    // R-forget: mem::forget of the owner - a leak unless nothing is live
    #[verifier::external_body]
    pub fn forget(self)
        requires self.ok(), self.all_dead(),
    { unimplemented!() }
}

// ===================== engine-V prelude: element moves inside one block (TRUSTED) =====================
impl<T, N: ArrayLength> Slots<T, N> {
    // ptr::copy(dst.add(1), dst, cnt) where dst = base.add(i): memmove of `cnt` elements one slot down.  Ownership view: the
    // values move with their bits; the destination range must not hold values owned by anyone else (they would be
    // overwritten without being dropped), the vacated last slot holds a stale duplicate nobody owns.
    #[verifier::external_body]
    pub fn shift_down(&mut self, i: usize, cnt: usize)
        requires old(self).ok(), i + 1 + cnt <= N::n(), !old(self).live(i as int), old(self).live_in(i + 1, i + 1 + cnt),
        ensures final(self).ok(),
            forall|k: int| 0 <= k < N::n() ==> #[trigger] final(self).view()[k] ==
                (if i <= k < i + cnt { old(self).view()[k + 1] } else if k == i + cnt { None } else { old(self).view()[k] }),
    { unimplemented!() }

    // <[T]>::swap(a, b): bounds-checked by the slice (a panic is not UB), both slots initialised
    #[verifier::external_body]
    pub fn swap(&mut self, a: usize, b: usize)
        requires old(self).ok(), a < N::n(), b < N::n(), old(self).live(a as int), old(self).live(b as int),
        ensures final(self).view() == old(self).view().update(a as int, old(self).view()[b as int]).update(b as int, old(self).view()[a as int]),
    { unimplemented!() }

    // mem::transmute_copy(&array) to GenericArray<T, Sub1<N>>: reads the first N-1 slots as a fully initialised array.
    // Everything read must be initialised; the slot left behind must hold nothing owned (it would leak).
    #[verifier::external_body]
    pub fn read_prefix_as_array(self) -> (r: Seq<T>)
        requires self.ok(), N::n() >= 1, self.live_in(0, N::n() - 1), !self.live(N::n() - 1),
        ensures r.len() == N::n() - 1, forall|k: int| 0 <= k < N::n() - 1 ==> #[trigger] r[k] == self.view()[k].unwrap(),
    { unimplemented!() }

    // an owned GenericArray<T, N> that is dropped normally (by scope exit or by unwinding): releases every element once
    #[verifier::external_body]
    pub fn drop_owned(self)
        requires self.ok(), self.all_live(),
    { unimplemented!() }

    pub open spec fn elems(&self) -> Seq<T> { Seq::new(N::n() as nat, |k: int| self.view()[k].unwrap()) }
}

// ---- whole-array moves into a longer / out of a whole array (append, prepend, pop, split, concat) ----
// An output buffer MaybeUninit<GenericArray<T, L>> of L element slots, and a typed cursor into it (rule R-ptr in elements).
pub struct OutBuf<T> { pub slots: Seq<Option<T>> }
#[derive(Clone, Copy)]
pub struct Cur { pub off: usize, pub stride: usize }

impl<T> OutBuf<T> {
    // MaybeUninit::<GenericArray<T, L>>::uninit()
    #[verifier::external_body]
    pub fn uninit(len: usize) -> (r: Self) ensures r.slots.len() == len, forall|k: int| 0 <= k < len ==> (#[trigger] r.slots[k]).is_none() { unimplemented!() }
    // buf.as_mut_ptr() as *mut X: cursor at element 0, pointee spanning `stride` elements
    pub fn as_mut_ptr(&self, stride: usize) -> (c: Cur) ensures c.off == 0, c.stride == stride { Cur { off: 0, stride } }
    // ptr::write(cur as *mut GenericArray<T, K>, array): K elements, all inside the buffer, over slots that hold nothing
    #[verifier::external_body]
    pub fn write_array(&mut self, c: Cur, src: Seq<T>)
        requires c.off + src.len() <= old(self).slots.len(), forall|k: int| c.off <= k < c.off + src.len() ==> (#[trigger] old(self).slots[k]).is_none(),
        ensures final(self).slots.len() == old(self).slots.len(),
            forall|k: int| 0 <= k < old(self).slots.len() ==> #[trigger] final(self).slots[k] == (if c.off <= k < c.off + src.len() { Some(src[k - c.off]) } else { old(self).slots[k] }),
    { unimplemented!() }
    // ptr::write(cur as *mut T, v)
    #[verifier::external_body]
    pub fn write_elem(&mut self, c: Cur, v: T)
        requires c.off < old(self).slots.len(), old(self).slots[c.off as int].is_none(),
        ensures final(self).slots == old(self).slots.update(c.off as int, Some(v)),
    { unimplemented!() }
    // buf.assume_init(): UB unless every slot is initialised
    #[verifier::external_body]
    pub fn assume_init(self) -> (r: Seq<T>)
        requires forall|k: int| 0 <= k < self.slots.len() ==> (#[trigger] self.slots[k]).is_some(),
        ensures r.len() == self.slots.len(), forall|k: int| 0 <= k < r.len() ==> #[trigger] r[k] == self.slots[k].unwrap(),
    { unimplemented!() }
}
impl Cur {
    // cur.add(k) / cur.offset(k): k pointees further
    pub fn add(self, k: usize) -> (c: Cur) requires self.off + k * self.stride <= usize::MAX, ensures c.off == self.off + k * self.stride, c.stride == self.stride
    { Cur { off: self.off + k * self.stride, stride: self.stride } }
    // `as *mut X`: same address, new pointee extent
    pub fn cast(self, stride: usize) -> (c: Cur) ensures c.off == self.off, c.stride == stride { Cur { off: self.off, stride } }
}
// a whole array wrapped in ManuallyDrop whose elements are moved out piecewise with ptr::read
pub struct Whole<T> { pub slots: Seq<Option<T>> }
impl<T> Whole<T> {
    #[verifier::external_body]
    pub fn new(a: Seq<T>) -> (r: Self) ensures r.slots.len() == a.len(), forall|k: int| 0 <= k < a.len() ==> #[trigger] r.slots[k] == Some(a[k]) { unimplemented!() }
    pub fn as_ptr(&self) -> (c: Cur) ensures c.off == 0, c.stride == 1 { Cur { off: 0, stride: 1 } }
    // ptr::read(cur as *const GenericArray<T, K>): K elements inside the array, each still owned here (else: duplicate)
    #[verifier::external_body]
    pub fn read_array(&mut self, c: Cur, k: usize) -> (r: Seq<T>)
        requires c.off + k <= old(self).slots.len(), forall|j: int| c.off <= j < c.off + k ==> (#[trigger] old(self).slots[j]).is_some(),
        ensures r.len() == k, forall|j: int| 0 <= j < k ==> #[trigger] r[j] == old(self).slots[c.off + j].unwrap(),
            final(self).slots.len() == old(self).slots.len(),
            forall|j: int| 0 <= j < old(self).slots.len() ==> #[trigger] final(self).slots[j] == (if c.off <= j < c.off + k { None } else { old(self).slots[j] }),
    { unimplemented!() }
    #[verifier::external_body]
    pub fn read_elem(&mut self, c: Cur) -> (r: T)
        requires c.off < old(self).slots.len(), old(self).slots[c.off as int].is_some(),
        ensures r == old(self).slots[c.off as int].unwrap(), final(self).slots == old(self).slots.update(c.off as int, None),
    { unimplemented!() }
    // end of scope of the ManuallyDrop: whatever is still owned here leaks
    pub fn scope_exit(&self) requires forall|j: int| 0 <= j < self.slots.len() ==> (#[trigger] self.slots[j]).is_none() {}
}


// ===== extracted: src/sequence.rs =====

    // extracted from src/sequence.rs:500  `fn remove_unchecked(self, idx: usize) -> (T, Self::Output)`
    pub fn remove_unchecked<T, N: ArrayLength>(this: Slots<T, N>, idx: usize) -> (ret: (T, Seq<T>))
        requires
            this.ok(),
            this.all_live(),
            idx < N::n(),
        ensures
            ret.0 == this.elems()[idx as int], /*OB:remove_unchecked.post.removed:C09*/
            ret.1 == this.elems().remove(idx as int), /*OB:remove_unchecked.post.rest-as-Vec-remove:C09,C03*/
    {
        let __ret = {
            if idx >= N::usize_() || N::usize_() == 0 {
                assert(false) /*OB:remove_unchecked.unreachable-hint-is-unreachable:C09*/;
            }
            let mut array = this;
            let dst = idx;
            assert(idx <= N::n()) /*OB:remove_unchecked.pointer-add-in-bounds:C09*/;
            let removed = array.take(dst);
            array.shift_down(dst, N::usize_() - idx - 1);
            (removed, array.read_prefix_as_array())
        };
        proof {
            assert(__ret.1 =~= this.elems().remove(idx as int));
        }
        __ret
    }
    proof fn reach_remove_unchecked<T, N: ArrayLength>(this: Slots<T, N>, idx: usize) requires this.ok(), this.all_live(), idx < N::n(), { assert(false); } /*OB:canary.remove_unchecked:*/

    // extracted from src/sequence.rs:519  `fn swap_remove_unchecked(self, idx: usize) -> (T, Self::Output)`
    pub fn swap_remove_unchecked<T, N: ArrayLength>(this: Slots<T, N>, idx: usize) -> (ret: (T, Seq<T>))
        requires
            this.ok(),
            this.all_live(),
            idx < N::n(),
        ensures
            ret.0 == this.elems()[idx as int], /*OB:swap_remove_unchecked.post.removed:C09*/
            ret.1 == this.elems().update(idx as int, this.elems().last()).drop_last(), /*OB:swap_remove_unchecked.post.rest-as-Vec-swap_remove:C09,C03*/
    {
        let __ret = {
            if idx >= N::usize_() || N::usize_() == 0 {
                assert(false) /*OB:swap_remove_unchecked.unreachable-hint-is-unreachable:C09*/;
            }
            let mut array = this;
            array.swap(idx, N::usize_() - 1);
            let removed = array.take(N::usize_() - 1);
            (removed, array.read_prefix_as_array())
        };
        proof {
            assert(__ret.1 =~= this.elems().update(idx as int, this.elems().last()).drop_last());
        }
        __ret
    }
    proof fn reach_swap_remove_unchecked<T, N: ArrayLength>(this: Slots<T, N>, idx: usize) requires this.ok(), this.all_live(), idx < N::n(), { assert(false); } /*OB:canary.swap_remove_unchecked:*/

    // extracted from src/sequence.rs:433  `fn remove(self, idx: usize) -> (T, Self::Output)`
    pub fn remove<T, N: ArrayLength>(this: Slots<T, N>, idx: usize) -> (ret: PanicOr<(T, Seq<T>)>)
        requires
            this.ok(),
            this.all_live(),
        ensures
            ret is Panic <==> idx >= N::n(), /*OB:remove.post.panics-iff-out-of-range:C09*/
            ret is Ret ==> ret->Ret_0.0 == this.elems()[idx as int] && ret->Ret_0.1 == this.elems().remove(idx as int), /*OB:remove.post.as-Vec:C09*/
    {
        if !(idx < N::usize_()) {
            this.drop_owned() /*OB:remove.on-panic-self-is-still-owned-and-dropped-once:C09,C03*/;
            return PanicOr::Panic;
        }
        {
            PanicOr::Ret(remove_unchecked::<T, N>(this, idx))
        }
    }
    proof fn reach_remove<T, N: ArrayLength>(this: Slots<T, N>, idx: usize) requires this.ok(), this.all_live(), { assert(false); } /*OB:canary.remove:*/

    // extracted from src/sequence.rs:460  `fn swap_remove(self, idx: usize) -> (T, Self::Output)`
    pub fn swap_remove<T, N: ArrayLength>(this: Slots<T, N>, idx: usize) -> (ret: PanicOr<(T, Seq<T>)>)
        requires
            this.ok(),
            this.all_live(),
        ensures
            ret is Panic <==> idx >= N::n(), /*OB:swap_remove.post.panics-iff-out-of-range:C09*/
            ret is Ret ==> ret->Ret_0.0 == this.elems()[idx as int] && ret->Ret_0.1 == this.elems().update(idx as int, this.elems().last()).drop_last(), /*OB:swap_remove.post.as-Vec:C09*/
    {
        if !(idx < N::usize_()) {
            this.drop_owned() /*OB:swap_remove.on-panic-self-is-still-owned-and-dropped-once:C09,C03*/;
            return PanicOr::Panic;
        }
        {
            PanicOr::Ret(swap_remove_unchecked::<T, N>(this, idx))
        }
    }
    proof fn reach_swap_remove<T, N: ArrayLength>(this: Slots<T, N>, idx: usize) requires this.ok(), this.all_live(), { assert(false); } /*OB:canary.swap_remove:*/

    // extracted from src/sequence.rs:211  `fn append(self, last: T) -> Self::Longer`
    pub fn append<T, N: ArrayLength>(this: Seq<T>, last: T) -> (ret: Seq<T>)
        requires
            this.len() == N::n(),
            N::n() < usize::MAX,
        ensures
            ret == this.push(last), /*OB:append.post.as-Vec-push:C09,C03*/
    {
        let __ret = {
            let mut longer = OutBuf::uninit(N::usize_() + 1);
            let out_ptr = longer.as_mut_ptr(N::usize_());
            {
                longer.write_array(out_ptr, this);
                longer.write_elem(out_ptr.add(1).cast(1), last);
                longer.assume_init()
            }
        };
        proof {
            assert(__ret =~= this.push(last));
        }
        __ret
    }
    proof fn reach_append<T, N: ArrayLength>(this: Seq<T>, last: T) requires this.len() == N::n(), N::n() < usize::MAX, { assert(false); } /*OB:canary.append:*/

    // extracted from src/sequence.rs:228  `fn prepend(self, first: T) -> Self::Longer`
    pub fn prepend<T, N: ArrayLength>(this: Seq<T>, first: T) -> (ret: Seq<T>)
        requires
            this.len() == N::n(),
            N::n() < usize::MAX,
        ensures
            ret == seq![first] + this, /*OB:prepend.post.as-Vec-insert-0:C09,C03*/
    {
        let __ret = {
            let mut longer = OutBuf::uninit(N::usize_() + 1);
            let out_ptr = longer.as_mut_ptr(1);
            {
                longer.write_elem(out_ptr, first);
                longer.write_array(out_ptr.add(1).cast(N::usize_()), this);
                longer.assume_init()
            }
        };
        proof {
            assert(__ret =~= seq![first] + this);
        }
        __ret
    }
    proof fn reach_prepend<T, N: ArrayLength>(this: Seq<T>, first: T) requires this.len() == N::n(), N::n() < usize::MAX, { assert(false); } /*OB:canary.prepend:*/

    // extracted from src/sequence.rs:255  `fn pop_back(self) -> (Self::Shorter, T)`
    pub fn pop_back<T, N: ArrayLength>(this: Seq<T>) -> (ret: (Seq<T>, T))
        requires
            this.len() == N::n(),
            N::n() >= 1,
        ensures
            ret.0 == this.drop_last() && ret.1 == this.last(), /*OB:pop_back.post.as-Vec-pop:C09,C03*/
    {
        let __ret = {
            let mut whole = Whole::new(this);
            {
                let __c0 = whole.as_ptr();
                let init = whole.read_array(__c0, N::usize_() - 1);
                let __c1 = whole.as_ptr().add(N::usize_() - 1);
                let last = whole.read_elem(__c1);
                whole.scope_exit() /*OB:pop_back.every-element-moved-to-exactly-one-output:C03*/;
                (init, last)
            }
        };
        proof {
            assert(__ret.0 =~= this.drop_last());
        }
        __ret
    }
    proof fn reach_pop_back<T, N: ArrayLength>(this: Seq<T>) requires this.len() == N::n(), N::n() >= 1, { assert(false); } /*OB:canary.pop_back:*/

    // extracted from src/sequence.rs:267  `fn pop_front(self) -> (T, Self::Shorter)`
    pub fn pop_front<T, N: ArrayLength>(this: Seq<T>) -> (ret: (T, Seq<T>))
        requires
            this.len() == N::n(),
            N::n() >= 1,
        ensures
            ret.0 == this.first() && ret.1 == this.drop_first(), /*OB:pop_front.post.as-Vec-remove-0:C09,C03*/
    {
        let __ret = {
            let mut whole = Whole::new(this);
            {
                let __c0 = whole.as_ptr();
                let head = whole.read_elem(__c0);
                let __c1 = whole.as_ptr().add(1);
                let tail = whole.read_array(__c1, N::usize_() - 1);
                whole.scope_exit() /*OB:pop_front.every-element-moved-to-exactly-one-output:C03*/;
                (head, tail)
            }
        };
        proof {
            assert(__ret.1 =~= this.drop_first());
        }
        __ret
    }
    proof fn reach_pop_front<T, N: ArrayLength>(this: Seq<T>) requires this.len() == N::n(), N::n() >= 1, { assert(false); } /*OB:canary.pop_front:*/

    // extracted from src/sequence.rs:306  `fn split(self) -> (Self::First, Self::Second)`
    pub fn split<T, N: ArrayLength, K: ArrayLength>(this: Seq<T>) -> (ret: (Seq<T>, Seq<T>))
        requires
            this.len() == N::n(),
            K::n() <= N::n(),
        ensures
            ret.0 == this.subrange(0, K::n() as int) && ret.1 == this.subrange(K::n() as int, N::n() as int), /*OB:split.post.as-split_at-K:C09,C03*/
    {
        let __ret = {
            {
                let mut whole = Whole::new(this);
                let __c0 = whole.as_ptr();
                let head = whole.read_array(__c0, K::usize_());
                let __c1 = whole.as_ptr().add(K::usize_());
                let tail = whole.read_array(__c1, N::usize_() - K::usize_());
                whole.scope_exit() /*OB:split.every-element-moved-to-exactly-one-output:C03*/;
                (head, tail)
            }
        };
        proof {
            assert(__ret.0 =~= this.subrange(0, K::n() as int));
            assert(__ret.1 =~= this.subrange(K::n() as int, N::n() as int));
        }
        __ret
    }
    proof fn reach_split<T, N: ArrayLength, K: ArrayLength>(this: Seq<T>) requires this.len() == N::n(), K::n() <= N::n(), { assert(false); } /*OB:canary.split:*/

    // extracted from src/sequence.rs:387  `fn concat(self, rest: Self::Rest) -> Self::Output`
    pub fn concat<T, N: ArrayLength, M: ArrayLength>(this: Seq<T>, rest: Seq<T>) -> (ret: Seq<T>)
        requires
            this.len() == N::n(),
            rest.len() == M::n(),
            N::n() + M::n() <= usize::MAX,
        ensures
            ret == this + rest, /*OB:concat.post.as-Vec-extend:C09,C03*/
    {
        let __ret = {
            let mut output = OutBuf::uninit(N::usize_() + M::usize_());
            let out_ptr = output.as_mut_ptr(N::usize_());
            {
                output.write_array(out_ptr, this);
                output.write_array(out_ptr.add(1).cast(M::usize_()), rest);
                output.assume_init()
            }
        };
        proof {
            assert(__ret =~= this + rest);
        }
        __ret
    }
    proof fn reach_concat<T, N: ArrayLength, M: ArrayLength>(this: Seq<T>, rest: Seq<T>) requires this.len() == N::n(), rest.len() == M::n(), N::n() + M::n() <= usize::MAX, { assert(false); } /*OB:canary.concat:*/

proof fn canary() { assert(false); } /*OB:canary:*/
} // verus!
fn main() {}


use vstd::prelude::*;
verus! {

// ===================== engine-V prelude: comparisons / hashing / formatting of slices (TRUSTED) =====================
// The slice operations of core are opaque here (uninterpreted spec functions); what is proved is that the array's impls
// hand them exactly the slices of the same elements, with the same hasher / formatter.
pub struct ArrV<T> { pub elems: Seq<T>, pub addr: int }          // a GenericArray<T, N> by reference
pub struct SliceV<T> { pub elems: Seq<T>, pub addr: int }        // a &[T]
pub struct Fmt { pub flags: int, pub out: Ghost<Seq<u8>> }
pub struct Hasher_ { pub fed: Ghost<Seq<u8>> }

pub uninterp spec fn spec_slice_eq<T>(a: Seq<T>, b: Seq<T>) -> bool;
pub uninterp spec fn spec_slice_partial_cmp<T>(a: Seq<T>, b: Seq<T>) -> int;
pub uninterp spec fn spec_slice_cmp<T>(a: Seq<T>, b: Seq<T>) -> int;
pub uninterp spec fn spec_slice_hash<T>(a: Seq<T>) -> Seq<u8>;
pub uninterp spec fn spec_slice_debug<T>(a: Seq<T>, flags: int) -> Seq<u8>;

impl<T> ArrV<T> {
    // GenericArray::as_slice (proved in unit `views`): same address, the N elements in order
    #[verifier::external_body]
    pub fn as_slice(&self) -> (s: SliceV<T>) ensures s.elems == self.elems, s.addr == self.addr { unimplemented!() }
    // `**self` (Deref to [T]) is as_slice (src/lib.rs: `fn deref(&self) -> &[T] { GenericArray::as_slice(self) }`)
    #[verifier::external_body]
    pub fn deref(&self) -> (s: SliceV<T>) ensures s.elems == self.elems, s.addr == self.addr { unimplemented!() }
}
#[verifier::external_body]
pub fn slice_eq<T>(a: SliceV<T>, b: SliceV<T>) -> (r: bool) ensures r == spec_slice_eq(a.elems, b.elems) { unimplemented!() }
#[verifier::external_body]
pub fn slice_partial_cmp<T>(a: SliceV<T>, b: SliceV<T>) -> (r: i8) ensures r as int == spec_slice_partial_cmp(a.elems, b.elems) { unimplemented!() }
#[verifier::external_body]
pub fn slice_cmp<T>(a: SliceV<T>, b: SliceV<T>) -> (r: i8) ensures r as int == spec_slice_cmp(a.elems, b.elems) { unimplemented!() }
#[verifier::external_body]
pub fn slice_hash<T>(a: SliceV<T>, state: &mut Hasher_) ensures final(state).fed@ == old(state).fed@ + spec_slice_hash(a.elems) { unimplemented!() }
#[verifier::external_body]
pub fn slice_debug_fmt<T>(a: SliceV<T>, fmt: &mut Fmt) ensures final(fmt).out@ == old(fmt).out@ + spec_slice_debug(a.elems, old(fmt).flags), final(fmt).flags == old(fmt).flags { unimplemented!() }


// ===== extracted: src/impls.rs =====

    // extracted from src/impls.rs:31  `fn eq(&self, other: &Self) -> bool`
    pub fn eq<T>(self_: &ArrV<T>, other: &ArrV<T>) -> (r: bool)
        ensures
            r == spec_slice_eq(self_.elems, other.elems), /*OB:eq.post.as-slices:C13*/
    {
        slice_eq(self_.deref(), other.deref())
    }

    // extracted from src/impls.rs:39  `fn partial_cmp(&self, other: &GenericArray<T, N>) -> Option<Ordering>`
    pub fn partial_cmp<T>(self_: &ArrV<T>, other: &ArrV<T>) -> (r: i8)
        ensures
            r as int == spec_slice_partial_cmp(self_.elems, other.elems), /*OB:partial_cmp.post.as-slices:C13*/
    {
        slice_partial_cmp(self_.as_slice(), other.as_slice())
    }

    // extracted from src/impls.rs:46  `fn cmp(&self, other: &GenericArray<T, N>) -> Ordering`
    pub fn cmp<T>(self_: &ArrV<T>, other: &ArrV<T>) -> (r: i8)
        ensures
            r as int == spec_slice_cmp(self_.elems, other.elems), /*OB:cmp.post.as-slices:C13*/
    {
        slice_cmp(self_.as_slice(), other.as_slice())
    }

    // extracted from src/impls.rs:87  `fn hash<H>(&self, state: &mut H) where H: Hasher,`
    pub fn hash<T>(self_: &ArrV<T>, state: &mut Hasher_)
        ensures
            final(state).fed@ == old(state).fed@ + spec_slice_hash(self_.elems), /*OB:hash.post.feeds-what-the-slice-feeds:C13*/
    {
        slice_hash(self_.as_slice(), state)
    }

    // extracted from src/impls.rs:52  `fn fmt(&self, fmt: &mut fmt::Formatter) -> fmt::Result`
    pub fn debug_fmt<T>(self_: &ArrV<T>, fmt: &mut Fmt)
        ensures
            final(fmt).out@ == old(fmt).out@ + spec_slice_debug(self_.elems, old(fmt).flags), /*OB:debug_fmt.post.prints-what-the-slice-prints-under-the-same-flags:C13*/
    {
        slice_debug_fmt(self_.as_slice(), fmt)
    }

    // extracted from src/impls.rs:59  `fn borrow(&self) -> &[T]`
    pub fn borrow<T>(self_: &ArrV<T>) -> (r: SliceV<T>)
        ensures
            r.elems == self_.elems && r.addr == self_.addr, /*OB:borrow.post.is-the-slice:C13*/
    {
        self_.as_slice()
    }

    // extracted from src/impls.rs:73  `fn as_ref(&self) -> &[T]`
    pub fn as_ref_slice<T>(self_: &ArrV<T>) -> (r: SliceV<T>)
        ensures
            r.elems == self_.elems && r.addr == self_.addr, /*OB:as_ref_slice.post.is-the-slice:C13*/
    {
        self_.as_slice()
    }

proof fn canary() { assert(false); } /*OB:canary:*/
} // verus!
fn main() {}


use vstd::prelude::*;
verus! {

// ===================== engine-V prelude: common (TRUSTED; the only place external_body may appear) =====================
// Type-level lengths: rule R-len maps `N::USIZE` to `N::usize_()`; `n()` is the mathematical length.
pub trait ArrayLength { spec fn n() -> usize; fn usize_() -> (r: usize) ensures r == Self::n(); }

pub open spec fn min_spec(a: usize, b: usize) -> usize { if a <= b { a } else { b } }
// core::cmp::min on usize (rule R-misc)
pub fn cmp_min(a: usize, b: usize) -> (r: usize) ensures r == min_spec(a, b) { if a <= b { a } else { b } }

// rule R-panic: a function that may panic returns PanicOr; `ret is Panic <==> ..` is then an ordinary postcondition
pub enum PanicOr<R> { Panic, Ret(R) }

// ===================== engine-V prelude: slot ledger (TRUSTED) =====================
// Rule R-slots: a field or local of type GenericArray<T,N> / ManuallyDrop<..> / GenericArray<MaybeUninit<T>,N> becomes
// `Slots<T,N>`, whose view is Seq<Option<T>>: Some(v) = slot initialised and owned here, None = uninitialised / moved out /
// dropped.  "At most once" is a PRECONDITION of every primitive; "at least once" is the forget / function-exit obligation.
#[verifier::external_body]
#[verifier::accept_recursive_types(T)]
#[verifier::accept_recursive_types(N)]
pub struct Slots<T, N> { _p: core::marker::PhantomData<(T, N)> }

// a borrowed sub-slice of a Slots block: (lo, hi) element range; produced by rule R-view
pub struct SliceRange { pub lo: usize, pub hi: usize }

impl<T, N: ArrayLength> Slots<T, N> {
    pub uninterp spec fn view(&self) -> Seq<Option<T>>;

    pub open spec fn ok(&self) -> bool { self.view().len() == N::n() }
    pub open spec fn live(&self, k: int) -> bool { self.view()[k].is_some() }
    pub open spec fn all_dead(&self) -> bool { forall|k: int| 0 <= k < N::n() ==> (#[trigger] self.view()[k]).is_none() }
    pub open spec fn all_live(&self) -> bool { forall|k: int| 0 <= k < N::n() ==> (#[trigger] self.view()[k]).is_some() }
    pub open spec fn live_in(&self, lo: int, hi: int) -> bool { forall|k: int| lo <= k < hi ==> (#[trigger] self.view()[k]).is_some() }

    // R-read: ptr::read(X.get_unchecked(i)) - moves the value out of slot i
    #[verifier::external_body]
    pub fn take(&mut self, i: usize) -> (r: T)
        requires old(self).ok(), i < N::n(), old(self).live(i as int),
        ensures final(self).view() == old(self).view().update(i as int, None), r == old(self).view()[i as int].unwrap(),
    { unimplemented!() }

    // R-write: ptr::write(dst, v) / dst.write(v) - slot must not hold an owned value (it would be overwritten without drop)
    #[verifier::external_body]
    pub fn put(&mut self, i: usize, v: T)
        requires old(self).ok(), i < N::n(), !old(self).live(i as int),
        ensures final(self).view() == old(self).view().update(i as int, Some(v)),
    { unimplemented!() }

    // shared read of slot i
    #[verifier::external_body]
    pub fn peek(&self, i: usize) -> (r: &T)
        requires self.ok(), i < N::n(), self.live(i as int),
        ensures *r == self.view()[i as int].unwrap(),
    { unimplemented!() }

    // R-dip: ptr::drop_in_place(X.get_unchecked_mut(lo..hi)) - runs the destructors of slots [lo, hi)
    #[verifier::external_body]
    pub fn drop_range(&mut self, lo: usize, hi: usize)
        requires old(self).ok(), lo <= hi <= N::n(), old(self).live_in(lo as int, hi as int),
        ensures final(self).ok(),
                forall|k: int| 0 <= k < N::n() ==> #[trigger] final(self).view()[k] == (if lo <= k < hi { None } else { old(self).view()[k] }),
    { unimplemented!() }

    // R-view: X.get_unchecked(lo..hi) / get_unchecked_mut(lo..hi): the range must lie inside the block and be initialised
    #[verifier::external_body]
    pub fn range(&self, lo: usize, hi: usize) -> (r: SliceRange)
        requires self.ok(), lo <= hi <= N::n(), self.live_in(lo as int, hi as int),
        ensures r.lo == lo, r.hi == hi,
    { unimplemented!() }

    // ptr::read(&self.array) of a ManuallyDrop array: bitwise copy whose slots are owned by nobody yet
    #[verifier::external_body]
    pub fn bitcopy_dead(&self) -> (r: Self)
        requires self.ok(),
        ensures r.ok(), r.all_dead(),
    { unimplemented!() }

    // R-forget: mem::forget of the owner - a leak unless nothing is live
    #[verifier::external_body]
    pub fn forget(self)
        requires self.ok(), self.all_dead(),
    { unimplemented!() }
}

// ===================== engine-V prelude: caller-supplied code (TRUSTED) =====================
// Rule R-foreign: a call of a closure parameter / Clone::clone / Iterator::next becomes a method of an opaque object:
// arbitrary result, the call is appended to a ghost log.  Every such call is an unwind point.
pub trait Foreign2<A, B, R> {
    spec fn log(&self) -> Seq<(A, B, R)>;
    fn call(&mut self, a: A, b: B) -> (r: R)
        ensures final(self).log() == old(self).log().push((a, b, r));
}
pub trait ForeignClone: Sized {
    spec fn cloned(&self, r: Self) -> bool;
    fn clone_(&self) -> (r: Self) ensures self.cloned(r);
}
pub trait Foreign1<A, R> {
    spec fn log(&self) -> Seq<(A, R)>;
    fn call(&mut self, a: A) -> (r: R)
        ensures final(self).log() == old(self).log().push((a, r));
}


// ===== extracted: src/iter.rs =====
// rule R-slots: `array: ManuallyDrop<GenericArray<T, N>>` becomes the slot ledger
pub struct GenericArrayIter<T, N: ArrayLength> {
    pub array: Slots<T, N>,
    pub index: usize,
    pub index_back: usize,
}

impl<T, N: ArrayLength> GenericArrayIter<T, N> {
    // representation invariant (the comment on the struct in src/iter.rs, made checkable)
    pub open spec fn wf(&self) -> bool {
        &&& self.index <= self.index_back <= N::n()
        &&& self.array.ok()
        &&& forall|k: int| 0 <= k < N::n() ==> ((#[trigger] self.array.view()[k]).is_some() <==> self.index <= k < self.index_back)
    }
    // abstract view: the elements still to come, front to back
    pub open spec fn remaining(&self) -> Seq<T> {
        Seq::new((self.index_back - self.index) as nat, |j: int| self.array.view()[self.index + j].unwrap())
    }

    // extracted from src/iter.rs:229  `fn len(&self) -> usize`
    fn len(&self) -> (r: usize)
        requires
            self.wf(),
        ensures
            r == self.remaining().len(), /*OB:len.post.len:C06*/
    {
        self.index_back - self.index
    }
    proof fn reach_len(self) requires self.wf(), { assert(false); } /*OB:canary.len:*/

    // extracted from src/iter.rs:140  `fn size_hint(&self) -> (usize, Option<usize>)`
    fn size_hint(&self) -> (r: (usize, Option<usize>))
        requires
            self.wf(),
        ensures
            r.0 == self.remaining().len() && r.1 == Some(self.remaining().len() as usize), /*OB:size_hint.post.exact:C06*/
    {
        let len = self.len();
        (len, Some(len))
    }
    proof fn reach_size_hint(self) requires self.wf(), { assert(false); } /*OB:canary.size_hint:*/

    // extracted from src/iter.rs:92  `fn next(&mut self) -> Option<T>`
    fn next(&mut self) -> (r: Option<T>)
        requires
            old(self).wf(),
        ensures
            final(self).wf(), /*OB:next.post.wf:C03,C06*/
            old(self).remaining().len() == 0 ==> r.is_none() && final(self).remaining() == old(self).remaining(), /*OB:next.post.fused:C06*/
            old(self).remaining().len() > 0 ==> r == Some(old(self).remaining().first()) && final(self).remaining() == old(self).remaining().drop_first(), /*OB:next.post.front:C06*/
    {
        let __ret = {
            if self.index < self.index_back {
                let p = {
                    Some(self.array.take(self.index))
                };
                self.index += 1;
                p
            }  else {
                None
            }
        };
        proof {
            if old(self).remaining().len() > 0 {
                assert(self.remaining() =~= old(self).remaining().drop_first());
            }
        }
        __ret
    }
    proof fn reach_next(self) requires self.wf(), { assert(false); } /*OB:canary.next:*/

    // extracted from src/iter.rs:174  `fn next_back(&mut self) -> Option<T>`
    fn next_back(&mut self) -> (r: Option<T>)
        requires
            old(self).wf(),
        ensures
            final(self).wf(), /*OB:next_back.post.wf:C03,C06*/
            old(self).remaining().len() == 0 ==> r.is_none() && final(self).remaining() == old(self).remaining(), /*OB:next_back.post.fused:C06*/
            old(self).remaining().len() > 0 ==> r == Some(old(self).remaining().last()) && final(self).remaining() == old(self).remaining().drop_last(), /*OB:next_back.post.back:C06*/
    {
        let __ret = {
            if self.index < self.index_back {
                self.index_back -= 1;
                {
                    Some(self.array.take(self.index_back))
                }
            }  else {
                None
            }
        };
        proof {
            if old(self).remaining().len() > 0 {
                assert(self.remaining() =~= old(self).remaining().drop_last());
            }
        }
        __ret
    }
    proof fn reach_next_back(self) requires self.wf(), { assert(false); } /*OB:canary.next_back:*/

    // extracted from src/iter.rs:150  `fn nth(&mut self, n: usize) -> Option<T>`
    fn nth(&mut self, n: usize) -> (r: Option<T>)
        requires
            old(self).wf(),
        ensures
            final(self).wf(), /*OB:nth.post.wf:C03,C06*/
            n >= old(self).remaining().len() ==> r.is_none() && final(self).remaining().len() == 0, /*OB:nth.post.exhaust:C06*/
            n < old(self).remaining().len() ==> r == Some(old(self).remaining()[n as int]) && final(self).remaining() == old(self).remaining().subrange(n + 1, old(self).remaining().len() as int), /*OB:nth.post.nth:C06*/
    {
        let __ret = {
            let next_index = self.index + cmp_min(n, self.len());
            let index = self.index;
            self.index = next_index;
            {
                self.array.drop_range(index, next_index);
                proof {
                    assert(self.wf()) /*OB:nth.unwind@drop_in_place:C05,C06*/;
                }
            }
            proof {
                if n < old(self).remaining().len() {
                    assert(self.remaining() =~= old(self).remaining().subrange(n as int, old(self).remaining().len() as int));
                }
            }
            self.next()
        };
        proof {
            if n < old(self).remaining().len() {
                assert(self.remaining() =~= old(self).remaining().subrange(n + 1, old(self).remaining().len() as int));
            }
        }
        __ret
    }
    proof fn reach_nth(self, n: usize) requires self.wf(), { assert(false); } /*OB:canary.nth:*/

    // extracted from src/iter.rs:213  `fn nth_back(&mut self, n: usize) -> Option<T>`
    fn nth_back(&mut self, n: usize) -> (r: Option<T>)
        requires
            old(self).wf(),
        ensures
            final(self).wf(), /*OB:nth_back.post.wf:C03,C06*/
            n >= old(self).remaining().len() ==> r.is_none() && final(self).remaining().len() == 0, /*OB:nth_back.post.exhaust:C06*/
            n < old(self).remaining().len() ==> r == Some(old(self).remaining()[old(self).remaining().len() - 1 - n]) && final(self).remaining() == old(self).remaining().subrange(0, old(self).remaining().len() - 1 - n), /*OB:nth_back.post.nth_back:C06*/
    {
        let __ret = {
            let next_back = self.index_back - cmp_min(n, self.len());
            let index_back = self.index_back;
            self.index_back = next_back;
            {
                self.array.drop_range(next_back, index_back);
                proof {
                    assert(self.wf()) /*OB:nth_back.unwind@drop_in_place:C05,C06*/;
                }
            }
            proof {
                if n < old(self).remaining().len() {
                    assert(self.remaining() =~= old(self).remaining().subrange(0, old(self).remaining().len() - n));
                }
            }
            self.next_back()
        };
        proof {
            if n < old(self).remaining().len() {
                assert(self.remaining() =~= old(self).remaining().subrange(0, old(self).remaining().len() - 1 - n));
            }
        }
        __ret
    }
    proof fn reach_nth_back(self, n: usize) requires self.wf(), { assert(false); } /*OB:canary.nth_back:*/

    // extracted from src/iter.rs:21  `fn as_slice(&self) -> &[T]`
    fn as_slice(&self) -> (r: SliceRange)
        requires
            self.wf(),
        ensures
            r.lo == self.index && r.hi == self.index_back, /*OB:as_slice.post.range:C06*/
    {
        {
            self.array.range(self.index, self.index_back)
        }
    }
    proof fn reach_as_slice(self) requires self.wf(), { assert(false); } /*OB:canary.as_slice:*/

    // extracted from src/iter.rs:28  `fn as_mut_slice(&mut self) -> &mut [T]`
    fn as_mut_slice(&mut self) -> (r: SliceRange)
        requires
            old(self).wf(),
        ensures
            r.lo == old(self).index && r.hi == old(self).index_back && *final(self) == *old(self), /*OB:as_mut_slice.post.range:C06*/
    {
        {
            self.array.range(self.index, self.index_back)
        }
    }
    proof fn reach_as_mut_slice(self) requires self.wf(), { assert(false); } /*OB:canary.as_mut_slice:*/

    // extracted from src/iter.rs:58  `fn drop(&mut self)`
    fn drop_impl(&mut self)
        requires
            old(self).wf(),
        ensures
            final(self).array.ok() && final(self).array.all_dead(), /*OB:drop_impl.post.releases-all:C03,C05*/
            forall|k: int| 0 <= k < N::n() && !(old(self).index <= k < old(self).index_back) ==> (#[trigger] final(self).array.view()[k]) == old(self).array.view()[k], /*OB:drop_impl.post.exactly-remaining:C03*/
    {
        {
            let __s = self.as_mut_slice();
            self.array.drop_range(__s.lo, __s.hi);
        }
    }
    proof fn reach_drop_impl(self) requires self.wf(), { assert(false); } /*OB:canary.drop_impl:*/

    // extracted from src/iter.rs:146  `fn count(self) -> usize`
    fn count(self) -> (r: (usize, Self))
        requires
            self.wf(),
        ensures
            r.0 == self.remaining().len(), /*OB:count.post.count:C06*/
            r.1.array.ok() && r.1.array.all_dead(), /*OB:count.post.dropped:C03,C05*/
    {
        let mut this = self;
        let __ret = {
            this.len()
        };
        this.drop_impl();
        (__ret, this)
    }
    proof fn reach_count(self) requires self.wf(), { assert(false); } /*OB:canary.count:*/

    // extracted from src/iter.rs:166  `fn last(mut self) -> Option<T>`
    fn last(self) -> (r: (Option<T>, Self))
        requires
            self.wf(),
        ensures
            self.remaining().len() > 0 ==> r.0 == Some(self.remaining().last()), /*OB:last.post.last:C06*/
            self.remaining().len() == 0 ==> r.0.is_none(), /*OB:last.post.none:C06*/
            r.1.array.ok() && r.1.array.all_dead(), /*OB:last.post.dropped:C03,C05*/
    {
        let mut this = self;
        let __ret = {
            this.next_back()
        };
        this.drop_impl();
        (__ret, this)
    }
    proof fn reach_last(self) requires self.wf(), { assert(false); } /*OB:canary.last:*/

    // extracted from src/iter.rs:105  `fn fold<B, F>(mut self, init: B, mut f: F) -> B where F: FnMut(B, Self::Item) -> B,`
    fn fold<B, F: Foreign2<B, T, B>>(self, init: B, f: &mut F) -> (ret: B)
        requires
            self.wf(),
            old(f).log().len() == 0,
        ensures
            final(f).log().len() == self.remaining().len(), /*OB:fold.post.once-per-element:C06,C03*/
            forall|k: int| 0 <= k < self.remaining().len() ==> (#[trigger] final(f).log()[k]).1 == self.remaining()[k], /*OB:fold.post.in-order:C06*/
            self.remaining().len() == 0 ==> ret == init, /*OB:fold.post.empty-returns-init:C06*/
            self.remaining().len() > 0 ==> final(f).log()[0].0 == init && ret == final(f).log().last().2, /*OB:fold.post.threads-accumulator:C06*/
            forall|k: int| 0 < k < self.remaining().len() ==> (#[trigger] final(f).log()[k]).0 == final(f).log()[k - 1].2, /*OB:fold.post.threads-accumulator-step:C06*/
    {
        let mut this = self;
        let ret = {
            let index_back = this.index_back;
            let remaining = this.array.range(this.index, index_back);
            {
                let ghost rem0 = this.remaining();
                let ghost i0 = this.index;
                let ghost b0 = this.index_back;
                let __cnt = remaining.hi - remaining.lo;
                let mut acc = init;
                let mut __k: usize = 0;
                while __k < __cnt invariant index_back == b0, this.wf(), remaining.lo == i0, remaining.hi == b0, __cnt == rem0.len(), i0 + __cnt == b0, __k <= __cnt, this.index == i0 + __k, this.index_back == b0, forall|j: int| 0 <= j < __cnt - __k ==> this.remaining()[j] == rem0[__k + j], f.log().len() == __k, forall|j: int| 0 <= j < __k ==> (#[trigger] f.log()[j]).1 == rem0[j], __k == 0 ==> acc == init, __k > 0 ==> f.log()[0].0 == init && acc == f.log().last().2, forall|j: int| 0 < j < __k ==> (#[trigger] f.log()[j]).0 == f.log()[j - 1].2, decreases __cnt - __k, {
                    let src = (remaining.lo + __k);
                    let ghost before = this.remaining();
                    let value = this.array.take(src);
                    this.index += 1;
                    proof {
                        assert(this.wf()) /*OB:fold.unwind@closure:C04*/;
                        assert(value == before[0]);
                        assert(before[0] == rem0[__k + 0]);
                        assert(value == rem0[__k as int]);
                        assert(this.remaining() =~= before.drop_first());
                    }
                    acc = f.call(acc, value);
                    __k += 1;
                }
                acc
            }
        };
        this.array.forget();
        ret
    }
    proof fn reach_fold<B, F: Foreign2<B, T, B>>(self, init: B, f: F) requires self.wf(), f.log().len() == 0, { assert(false); } /*OB:canary.fold:*/

    // extracted from src/iter.rs:185  `fn rfold<B, F>(mut self, init: B, mut f: F) -> B where F: FnMut(B, Self::Item) -> B,`
    fn rfold<B, F: Foreign2<B, T, B>>(self, init: B, f: &mut F) -> (ret: B)
        requires
            self.wf(),
            old(f).log().len() == 0,
        ensures
            final(f).log().len() == self.remaining().len(), /*OB:rfold.post.once-per-element:C06,C03*/
            forall|k: int| 0 <= k < self.remaining().len() ==> (#[trigger] final(f).log()[k]).1 == self.remaining()[self.remaining().len() - 1 - k], /*OB:rfold.post.in-order:C06*/
            self.remaining().len() == 0 ==> ret == init, /*OB:rfold.post.empty-returns-init:C06*/
            self.remaining().len() > 0 ==> final(f).log()[0].0 == init && ret == final(f).log().last().2, /*OB:rfold.post.threads-accumulator:C06*/
            forall|k: int| 0 < k < self.remaining().len() ==> (#[trigger] final(f).log()[k]).0 == final(f).log()[k - 1].2, /*OB:rfold.post.threads-accumulator-step:C06*/
    {
        let mut this = self;
        let ret = {
            let index = this.index;
            let remaining = this.array.range(index, this.index_back);
            {
                let ghost rem0 = this.remaining();
                let ghost i0 = this.index;
                let ghost b0 = this.index_back;
                let __cnt = remaining.hi - remaining.lo;
                let mut acc = init;
                let mut __k: usize = 0;
                while __k < __cnt invariant index == i0, this.wf(), remaining.lo == i0, remaining.hi == b0, __cnt == rem0.len(), i0 + __cnt == b0, __k <= __cnt, this.index == i0, this.index_back == b0 - __k, forall|j: int| 0 <= j < __cnt - __k ==> this.remaining()[j] == rem0[j], f.log().len() == __k, forall|j: int| 0 <= j < __k ==> (#[trigger] f.log()[j]).1 == rem0[rem0.len() - 1 - j], __k == 0 ==> acc == init, __k > 0 ==> f.log()[0].0 == init && acc == f.log().last().2, forall|j: int| 0 < j < __k ==> (#[trigger] f.log()[j]).0 == f.log()[j - 1].2, decreases __cnt - __k, {
                    let src = (remaining.hi - 1 - __k);
                    let ghost before = this.remaining();
                    let value = this.array.take(src);
                    this.index_back -= 1;
                    proof {
                        assert(this.wf()) /*OB:rfold.unwind@closure:C04*/;
                        assert(value == before[before.len() - 1]);
                        assert(value == rem0[rem0.len() - 1 - __k]);
                        assert(this.remaining() =~= before.drop_last());
                    }
                    acc = f.call(acc, value);
                    __k += 1;
                }
                acc
            }
        };
        this.array.forget();
        ret
    }
    proof fn reach_rfold<B, F: Foreign2<B, T, B>>(self, init: B, f: F) requires self.wf(), f.log().len() == 0, { assert(false); } /*OB:canary.rfold:*/

}

impl<T: ForeignClone, N: ArrayLength> GenericArrayIter<T, N> {
    // extracted from src/iter.rs:67  `fn clone(&self) -> Self`
    fn clone(&self) -> (r: Self)
        requires
            self.wf(),
        ensures
            r.wf(), /*OB:clone.post.wf:C03,C06*/
            r.remaining().len() == self.remaining().len(), /*OB:clone.post.same-len:C06*/
            forall|k: int| 0 <= k < self.remaining().len() ==> self.remaining()[k].cloned(#[trigger] r.remaining()[k]), /*OB:clone.post.elementwise:C06*/
    {
        let mut iter = GenericArrayIter {
            array: self.array.bitcopy_dead(), index: 0, index_back: 0,
        };
        let __src = self.as_slice();
        let __n = cmp_min(N::usize_(), __src.hi - __src.lo);
        let mut __k: usize = 0;
        while __k < __n invariant self.wf(), __src.lo == self.index, __src.hi == self.index_back, __n == self.index_back - self.index, __k <= __n, iter.wf(), iter.index == 0, iter.index_back == __k, forall|j: int| 0 <= j < __k ==> self.remaining()[j].cloned(#[trigger] iter.array.view()[j].unwrap()), decreases __n - __k, {
            let dst = __k;
            let src = __src.lo + __k;
            proof {
                assert(iter.wf()) /*OB:clone.unwind@src.clone:C04*/;
            }
            let __c = self.array.peek(src).clone_();
            iter.array.put(dst, __c);
            iter.index_back += 1;
            __k += 1;
        }
        iter
    }
    proof fn reach_clone(self) requires self.wf(), { assert(false); } /*OB:canary.clone:*/

}

// rule R-slots: the consumed GenericArray<T, N> is a fully live Slots block
pub fn manually_drop_new<T, N: ArrayLength>(a: Slots<T, N>) -> (r: Slots<T, N>) ensures r == a { a }

    // extracted from src/iter.rs:39  `fn into_iter(self) -> Self::IntoIter`
    fn into_iter<T, N: ArrayLength>(this: Slots<T, N>) -> (r: GenericArrayIter<T, N>)
        requires
            this.ok(),
            this.all_live(),
        ensures
            r.wf(), /*OB:into_iter.post.wf:C03,C06*/
            r.remaining().len() == N::n() && forall|k: int| 0 <= k < N::n() ==> #[trigger] r.remaining()[k] == this.view()[k].unwrap(), /*OB:into_iter.post.all:C06*/
    {
        GenericArrayIter {
            array: manually_drop_new(this), index: 0, index_back: N::usize_(),
        }
    }
    proof fn reach_into_iter<T, N: ArrayLength>(this: Slots<T, N>) requires this.ok(), this.all_live(), { assert(false); } /*OB:canary.into_iter:*/

proof fn canary() { assert(false); } /*OB:canary:*/

} // verus!
fn main() {}

